package harness

// C12: the state tracker behaves as a relational model of nicks and channels.
//
// Two passes over state.NewTracker("me") used directly (no connection):
//
//  closure  every operation of the Tracker interface with every name
//           combination of a small universe, applied in every reachable state.
//           States are enumerated breadth-first (shortest history first); each
//           is rebuilt by replaying its shortest history on a fresh tracker,
//           then one more letter is applied and compared. The enumeration of
//           the state list is driven by the model (so that it can be sharded
//           over independent jobs); because every (state, letter) successor of
//           the implementation is compared with the model's, the state set
//           explored equals the closure of the implementation's observable
//           states whenever no violation is reported. A separate job runs the
//           breadth-first search on the implementation alone, deduplicated on
//           its canonical observable state, and requires the same state set.
//           After each compared letter a fixed probe suffix (ChannelModes
//           "+h n" for every channel and nick name) is applied and compared,
//           because the per-channel name index is the one part of the tracker
//           no query shows.
//  flat     all histories up to depth 3 / 4 over a wider alphabet (empty
//           name, rename onto used names, ReNick(n,n), multi-letter mode
//           strings, Wipe, DelNick(me), String), from the empty tracker and
//           from three populated seed states.
//
// Oracle after every step: result == model's result (canonical text: nil-ness,
// every field, membership maps, privilege and mode structs); Me / GetNick /
// GetChannel / IsOn for every name and pair == model's; Nick.Channels[c] exists
// <=> Channel.Nicks[n] exists, equal privileges; Me() is tracked; no panic.

import (
	"bytes"
	"crypto/sha1"
	"fmt"
	"sort"
	"strings"

	"github.com/fluffle/goirc/state"
)

// ---------------------------------------------------------------- canonical text (implementation side)

func appendImplPrivs(b []byte, p *state.ChanPrivs) []byte {
	if p == nil {
		return append(b, "nil"...)
	}
	b = append(b, '+')
	return appendBoolLetters(b, "qaohv", p.Owner, p.Admin, p.Op, p.HalfOp, p.Voice)
}

func appendImplPrivMap(b []byte, mp map[string]*state.ChanPrivs) []byte {
	keys := make([]string, 0, len(mp))
	for k := range mp {
		keys = append(keys, k)
	}
	sort.Strings(keys)
	b = append(b, '[')
	for i, k := range keys {
		if i > 0 {
			b = append(b, ' ')
		}
		b = appendQ(b, k)
		b = append(b, ':')
		b = appendImplPrivs(b, mp[k])
	}
	return append(b, ']')
}

func appendImplNick(b []byte, n *state.Nick) []byte {
	if n == nil {
		return append(b, "nil"...)
	}
	b = append(b, "Nick{"...)
	b = appendQ(b, n.Nick)
	b = append(b, ' ')
	b = appendQ(b, n.Ident)
	b = append(b, '@')
	b = appendQ(b, n.Host)
	b = append(b, ' ')
	b = appendQ(b, n.Name)
	b = append(b, " modes="...)
	if nm := n.Modes; nm == nil {
		b = append(b, "nil"...)
	} else {
		b = append(b, '+')
		b = appendBoolLetters(b, "Biowxz", nm.Bot, nm.Invisible, nm.Oper, nm.WallOps, nm.HiddenHost, nm.SSL)
	}
	b = append(b, " chans="...)
	b = appendImplPrivMap(b, n.Channels)
	return append(b, '}')
}

func appendImplChannel(b []byte, c *state.Channel) []byte {
	if c == nil {
		return append(b, "nil"...)
	}
	b = append(b, "Channel{"...)
	b = appendQ(b, c.Name)
	b = append(b, " topic="...)
	b = appendQ(b, c.Topic)
	b = append(b, " modes="...)
	if cm := c.Modes; cm == nil {
		b = append(b, "nil"...)
	} else {
		b = append(b, '+')
		b = appendBoolLetters(b, "pstnmiOzrZ", cm.Private, cm.Secret, cm.ProtectedTopic, cm.NoExternalMsg, cm.Moderated,
			cm.InviteOnly, cm.OperOnly, cm.SSLOnly, cm.Registered, cm.AllSSL)
		b = append(b, " k="...)
		b = appendQ(b, cm.Key)
		b = append(b, " l="...)
		b = fmt.Appendf(b, "%d", cm.Limit)
	}
	b = append(b, " nicks="...)
	b = appendImplPrivMap(b, c.Nicks)
	return append(b, '}')
}

func appendImplPrivsPtr(b []byte, p *state.ChanPrivs) []byte {
	if p == nil {
		return append(b, "nil"...)
	}
	b = append(b, "Privs{"...)
	b = appendImplPrivs(b, p)
	return append(b, '}')
}

// implResult is what a Tracker call returned.
type implResult struct {
	Kind byte // 'n' *Nick, 'c' *Channel, 'p' *ChanPrivs (Associate), 'i' (*ChanPrivs, bool) (IsOn), 0 nothing compared
	N    *state.Nick
	C    *state.Channel
	P    *state.ChanPrivs
	OK   bool
}

func (r implResult) appendTo(b []byte) []byte {
	switch r.Kind {
	case 'n':
		return appendImplNick(b, r.N)
	case 'c':
		return appendImplChannel(b, r.C)
	case 'p':
		return appendImplPrivsPtr(b, r.P)
	case 'i':
		b = appendImplPrivsPtr(b, r.P)
		if r.OK {
			return append(b, ",true"...)
		}
		return append(b, ",false"...)
	}
	return b
}

// hasValue: a non-nil pointer came back.
func (r implResult) hasValue() bool {
	switch r.Kind {
	case 'n':
		return r.N != nil
	case 'c':
		return r.C != nil
	case 'p', 'i':
		return r.P != nil
	}
	return false
}

// implCall performs op on the tracker.
func implCall(st state.Tracker, op trackerOp) implResult {
	x := func(i int) string {
		if i < len(op.X) {
			return op.X[i]
		}
		return ""
	}
	switch op.Kind {
	case opNewNick:
		return implResult{Kind: 'n', N: st.NewNick(op.A)}
	case opGetNick:
		return implResult{Kind: 'n', N: st.GetNick(op.A)}
	case opReNick:
		return implResult{Kind: 'n', N: st.ReNick(op.A, op.B)}
	case opDelNick:
		return implResult{Kind: 'n', N: st.DelNick(op.A)}
	case opNickInfo:
		return implResult{Kind: 'n', N: st.NickInfo(op.A, x(0), x(1), x(2))}
	case opNickModes:
		return implResult{Kind: 'n', N: st.NickModes(op.A, x(0))}
	case opNewChannel:
		return implResult{Kind: 'c', C: st.NewChannel(op.A)}
	case opGetChannel:
		return implResult{Kind: 'c', C: st.GetChannel(op.A)}
	case opDelChannel:
		return implResult{Kind: 'c', C: st.DelChannel(op.A)}
	case opTopic:
		return implResult{Kind: 'c', C: st.Topic(op.A, x(0))}
	case opChannelModes:
		var args []string
		if len(op.X) > 1 {
			args = op.X[1:]
		}
		return implResult{Kind: 'c', C: st.ChannelModes(op.A, x(0), args...)}
	case opMe:
		return implResult{Kind: 'n', N: st.Me()}
	case opIsOn:
		p, ok := st.IsOn(op.A, op.B)
		return implResult{Kind: 'i', P: p, OK: ok}
	case opAssociate:
		return implResult{Kind: 'p', P: st.Associate(op.A, op.B)}
	case opDissociate:
		st.Dissociate(op.A, op.B)
	case opWipe:
		st.Wipe()
	case opString:
		_ = st.String() // must not panic; text depends on map order, not compared
	}
	return implResult{}
}

// replayImpl builds a fresh tracker and applies hist to it (nothing compared).
func replayImpl(hist []trackerOp) state.Tracker {
	var st state.Tracker = state.NewTracker("me")
	for _, op := range hist {
		implCall(st, op)
	}
	return st
}

func replayModel(hist []trackerOp) *trackerModel {
	m := newTrackerModel("me")
	for _, op := range hist {
		m.Do(op)
	}
	return m
}

// implObs: the answers of Me / GetNick / GetChannel / IsOn for every name and pair.
type implObs struct {
	Me    *state.Nick
	Nicks []*state.Nick
	Chans []*state.Channel
	On    [][]*state.ChanPrivs
	OnOK  [][]bool
}

func observeImpl(st state.Tracker, u *trackerNames) *implObs {
	o := &implObs{Me: st.Me()}
	o.Nicks = make([]*state.Nick, len(u.Nicks))
	for i, n := range u.Nicks {
		o.Nicks[i] = st.GetNick(n)
	}
	o.Chans = make([]*state.Channel, len(u.Chans))
	o.On = make([][]*state.ChanPrivs, len(u.Chans))
	o.OnOK = make([][]bool, len(u.Chans))
	for i, c := range u.Chans {
		o.Chans[i] = st.GetChannel(c)
		o.On[i] = make([]*state.ChanPrivs, len(u.Nicks))
		o.OnOK[i] = make([]bool, len(u.Nicks))
		for j, n := range u.Nicks {
			o.On[i][j], o.OnOK[i][j] = st.IsOn(c, n)
		}
	}
	return o
}

// appendTo renders the observation in exactly the format of trackerModel.AppendObserve.
func (o *implObs) appendTo(b []byte, u *trackerNames) []byte {
	b = append(b, "me="...)
	b = appendImplNick(b, o.Me)
	for i, n := range u.Nicks {
		b = append(b, "\nnick "...)
		b = appendQ(b, n)
		b = append(b, '=')
		b = appendImplNick(b, o.Nicks[i])
	}
	for i, c := range u.Chans {
		b = append(b, "\nchan "...)
		b = appendQ(b, c)
		b = append(b, '=')
		b = appendImplChannel(b, o.Chans[i])
	}
	for i, c := range u.Chans {
		for j, n := range u.Nicks {
			b = append(b, "\non "...)
			b = appendQ(b, c)
			b = append(b, ',')
			b = appendQ(b, n)
			b = append(b, '=')
			b = appendImplPrivsPtr(b, o.On[i][j])
			if o.OnOK[i][j] {
				b = append(b, ",true"...)
			} else {
				b = append(b, ",false"...)
			}
		}
	}
	return b
}

func implObserveText(st state.Tracker, u *trackerNames) string {
	return string(observeImpl(st, u).appendTo(nil, u))
}

func privsEqual(a, b *state.ChanPrivs) bool {
	if a == nil || b == nil {
		return a == b
	}
	return *a == *b
}

// invariants checks, on the implementation's own answers, that membership is
// seen alike from both sides and that Me() is a tracked nick. Names outside u
// are looked up on demand.
func (o *implObs) invariants(st state.Tracker, u *c12Universe) (oracle, msg string) {
	if o.Me == nil {
		return "me-not-tracked", "Me() is nil"
	}
	if got := st.GetNick(o.Me.Nick); got == nil {
		return "me-not-tracked", "Me() is " + Q(o.Me.Nick) + " but GetNick(" + Q(o.Me.Nick) + ") is nil"
	} else if a, b := string(appendImplNick(nil, got)), string(appendImplNick(nil, o.Me)); a != b {
		return "me-not-tracked", "Me() = " + b + " but GetNick(" + Q(o.Me.Nick) + ") = " + a
	}
	getChan := func(c string) *state.Channel {
		if i, ok := u.chanIdx[c]; ok {
			return o.Chans[i]
		}
		return st.GetChannel(c)
	}
	getNick := func(n string) *state.Nick {
		if i, ok := u.nickIdx[n]; ok {
			return o.Nicks[i]
		}
		return st.GetNick(n)
	}
	nicks := append([]*state.Nick{o.Me}, o.Nicks...)
	for _, nk := range nicks {
		if nk == nil {
			continue
		}
		for c, p := range nk.Channels {
			ch := getChan(c)
			if ch == nil {
				return "membership-asymmetry", fmt.Sprintf("nick %s lists channel %s, which is not tracked", Q(nk.Nick), Q(c))
			}
			q, ok := ch.Nicks[nk.Nick]
			if !ok {
				return "membership-asymmetry", fmt.Sprintf("nick %s lists channel %s, but the channel does not list the nick", Q(nk.Nick), Q(c))
			}
			if !privsEqual(p, q) {
				return "membership-asymmetry", fmt.Sprintf("privileges of %s on %s differ between the nick's view (%s) and the channel's (%s)", Q(nk.Nick), Q(c), appendImplPrivs(nil, p), appendImplPrivs(nil, q))
			}
		}
	}
	for _, ch := range o.Chans {
		if ch == nil {
			continue
		}
		for n, p := range ch.Nicks {
			nk := getNick(n)
			if nk == nil {
				return "membership-asymmetry", fmt.Sprintf("channel %s lists nick %s, which is not tracked", Q(ch.Name), Q(n))
			}
			q, ok := nk.Channels[ch.Name]
			if !ok {
				return "membership-asymmetry", fmt.Sprintf("channel %s lists nick %s, but the nick does not list the channel", Q(ch.Name), Q(n))
			}
			if !privsEqual(p, q) {
				return "membership-asymmetry", fmt.Sprintf("privileges of %s on %s differ between the channel's view (%s) and the nick's (%s)", Q(n), Q(ch.Name), appendImplPrivs(nil, p), appendImplPrivs(nil, q))
			}
		}
	}
	return "", ""
}

// ---------------------------------------------------------------- universes and alphabets

type c12Universe struct {
	Name string
	trackerNames
	Letters []trackerOp
	Probe   []trackerOp // suffix applied (and compared) after each compared letter
	nickIdx map[string]int
	chanIdx map[string]int
}

func (u *c12Universe) index() *c12Universe {
	u.nickIdx, u.chanIdx = map[string]int{}, map[string]int{}
	for i, n := range u.Nicks {
		u.nickIdx[n] = i
	}
	for i, c := range u.Chans {
		u.chanIdx[c] = i
	}
	u.Probe = nil
	for _, c := range u.Chans {
		for _, n := range u.Nicks {
			u.Probe = append(u.Probe, trackerOp{Kind: opChannelModes, A: c, X: []string{"+h", n}})
		}
	}
	return u
}

func isPureQuery(op trackerOp) bool {
	switch op.Kind {
	case opMe, opGetNick, opGetChannel, opIsOn, opString:
		return true
	}
	return false
}

// closure alphabet levels
const (
	c12Full   = "full"   // every letter of DESIGN.md §4 C12
	c12NoInfo = "noinfo" // without NickInfo / NickModes
	c12Rel    = "rel"    // relational part only: no attributes, privileges +o / -o
)

// c12ClosureUniverse: every Tracker method with every name combination of the
// universe, attribute values restricted so that the state space is finite.
func c12ClosureUniverse(name string, nicks, chans []string, level string) *c12Universe {
	u := &c12Universe{Name: name, trackerNames: trackerNames{Nicks: nicks, Chans: chans}}
	add := func(k int, a, b string, x ...string) {
		u.Letters = append(u.Letters, trackerOp{Kind: k, A: a, B: b, X: x})
	}
	add(opMe, "", "")
	for _, n := range nicks {
		add(opNewNick, n, "")
		add(opGetNick, n, "")
		add(opDelNick, n, "")
		if level == c12Full {
			add(opNickInfo, n, "", "id", "ho.st", "Na Me")
		}
	}
	if level == c12Full {
		add(opNickModes, "me", "", "+i")
		add(opNickModes, "me", "", "-i")
	}
	for _, o := range nicks {
		for _, n := range nicks {
			if o != n {
				add(opReNick, o, n)
			}
		}
	}
	for _, c := range chans {
		add(opNewChannel, c, "")
		add(opGetChannel, c, "")
		add(opDelChannel, c, "")
		if level != c12Rel {
			add(opTopic, c, "", "a topic")
			add(opChannelModes, c, "", "+n")
			add(opChannelModes, c, "", "-n")
			add(opChannelModes, c, "", "+k", "key")
			add(opChannelModes, c, "", "-k")
			add(opChannelModes, c, "", "+l", "5")
			add(opChannelModes, c, "", "-l")
		}
		for _, n := range nicks {
			add(opChannelModes, c, "", "+o", n)
			add(opChannelModes, c, "", "-o", n)
			if level != c12Rel {
				add(opChannelModes, c, "", "+v", n)
			}
		}
		for _, n := range nicks {
			add(opIsOn, c, n)
			add(opAssociate, c, n)
			add(opDissociate, c, n)
		}
	}
	add(opWipe, "", "")
	return u.index()
}

// c12WideUniverse: the flat pass's alphabet. Names: nicks me, a, b and the
// empty name; channels #x, #y and the empty name.
func c12WideUniverse() *c12Universe {
	u := &c12Universe{Name: "wide", trackerNames: trackerNames{Nicks: []string{"me", "a", "b", ""}, Chans: []string{"#x", "#y", ""}}}
	add := func(k int, a, b string, x ...string) {
		u.Letters = append(u.Letters, trackerOp{Kind: k, A: a, B: b, X: x})
	}
	add(opMe, "", "")
	add(opWipe, "", "")
	add(opString, "", "")
	for _, n := range u.Nicks {
		add(opNewNick, n, "")
		add(opGetNick, n, "")
		add(opDelNick, n, "") // includes DelNick("me")
	}
	add(opNickInfo, "me", "", "id", "ho.st", "Na Me")
	add(opNickInfo, "a", "", "other", "", "x")
	add(opNickInfo, "", "", "id", "ho.st", "Na Me")
	add(opNickModes, "me", "", "+i")
	add(opNickModes, "me", "", "-i")
	add(opNickModes, "a", "", "+Bowxz-w")
	add(opNickModes, "me", "", "+iw-i+y") // y: not a user mode we track, ignored
	add(opNickModes, "", "", "+i")
	add(opNickModes, "me", "", "i+w") // no leading sign: the first letter is a removal
	for _, o := range u.Nicks {
		for _, n := range u.Nicks {
			add(opReNick, o, n) // includes ReNick(n,n), used targets, the empty name
		}
	}
	// names are compared exactly: a rename that only changes the letter case is a rename
	add(opReNick, "a", "A")
	add(opReNick, "me", "Me")
	add(opReNick, "A", "b")
	add(opGetNick, "A", "")
	for _, c := range u.Chans {
		add(opNewChannel, c, "")
		add(opGetChannel, c, "")
		add(opDelChannel, c, "")
	}
	// channel names are compared exactly as well
	add(opNewChannel, "#X", "")
	add(opGetChannel, "#X", "")
	add(opDelChannel, "#X", "")
	add(opAssociate, "#X", "me")
	add(opDissociate, "#X", "me")
	add(opAssociate, "#X", "a")
	add(opTopic, "#x", "", "a topic")
	add(opTopic, "", "", "a topic")
	for _, x := range [][]string{
		{"+o", "a"}, {"-o", "a"}, {"+o", "me"}, {"+v", "b"},
		{"+ov", "a", "b"}, {"+ov", "me", "a"}, {"-o+v", "a", "a"},
		{"+kl", "key", "5"}, {"-k+n"}, {"-k"}, {"+l", "x"}, {"+k"}, {"+l"}, {"-l"}, {"+o"},
		{"+nt-n+ims"}, {"+qah", "a", "a", "a"}, {"+zZOrp-z"}, {"+o", ""},
		// no leading sign: letters before the first sign are removals (the documented initial state of the parser)
		{"o", "a"}, {"n"}, {"t+n"}, {"v+o", "a", "a"},
		// an argument-taking letter that finds no argument left is skipped; the letters after it still apply
		{"+ktn"}, {"+lm"}, {"+on"}, {"+l-t+s"}, {"+ovm-l", "a"}, {"+vi-n"},
		// a key / limit set where there is one already replaces it (the seeds carry "key" and 5)
		{"+k", "other"}, {"+kk", "k1", "k2"}, {"+l", "7"}, {"-k+k", "x", "re"}, {"+kl-k", "k3", "9"},
	} {
		add(opChannelModes, "#x", "", x...)
	}
	add(opChannelModes, "#y", "", "+o", "a")
	add(opChannelModes, "", "", "+n")
	for _, p := range [][2]string{{"#x", "me"}, {"#x", "a"}, {"#x", "b"}, {"#x", ""}, {"#y", "a"}, {"", "me"}, {"", ""}} {
		add(opIsOn, p[0], p[1])
	}
	for _, p := range [][2]string{{"#x", "me"}, {"#x", "a"}, {"#x", "b"}, {"#x", ""}, {"#y", "me"}, {"#y", "a"}, {"", "a"}, {"", ""}} {
		add(opAssociate, p[0], p[1])
		add(opDissociate, p[0], p[1])
	}
	return u.index()
}

// seed states for the flat pass (histories; each is itself checked step by step)
type c12Seed struct {
	Name string
	Hist []trackerOp
}

func c12Seeds() []c12Seed {
	op := func(k int, a, b string, x ...string) trackerOp { return trackerOp{Kind: k, A: a, B: b, X: x} }
	s1 := []trackerOp{op(opNewChannel, "#x", ""), op(opAssociate, "#x", "me"), op(opNewNick, "a", ""), op(opAssociate, "#x", "a"), op(opChannelModes, "#x", "", "+o", "a")}
	s2 := append(append([]trackerOp{}, s1...), op(opNewChannel, "#y", ""), op(opAssociate, "#y", "me"), op(opAssociate, "#y", "a"), op(opNewNick, "b", ""), op(opAssociate, "#y", "b"))
	s3 := append(append([]trackerOp{}, s1...), op(opNewNick, "b", ""), op(opAssociate, "#x", "b"), op(opChannelModes, "#x", "", "+kl", "key", "5"), op(opNickInfo, "a", "", "other", "", "x"), op(opReNick, "me", ""))
	return []c12Seed{{"empty", nil}, {"x(me,a+o)", s1}, {"x(me,a+o)y(me,a,b)", s2}, {"x(me,a+o,b)+kl,me-renamed-to-empty", s3}}
}

// ---------------------------------------------------------------- comparing one step

type c12Run struct {
	e      *Enum
	u      *c12Universe
	family string
	trans  int64 // operations executed and compared
	fails  int
	skips  int64 // (state, letter) pairs left out as unspecified
	bi, bm []byte
	sample map[string]interface{}
}

func (r *c12Run) fail(oracle string, hist []trackerOp, msg string) {
	r.fails++
	r.e.Fail(r.family, oracle, histText(hist), msg, map[string]interface{}{"universe": r.u.Name, "ops": opsParam(hist), "steps": len(hist)})
}

func opsParam(hist []trackerOp) [][]string {
	out := make([][]string, len(hist))
	for i, o := range hist {
		row := []string{trackerOpNames[o.Kind]}
		switch o.nameArgs() {
		case 1:
			row = append(row, o.A)
		case 2:
			row = append(row, o.A, o.B)
		}
		out[i] = append(row, o.X...)
	}
	return out
}

func firstDiffLine(got, want string) string {
	g, w := strings.Split(got, "\n"), strings.Split(want, "\n")
	for i := 0; i < len(g) && i < len(w); i++ {
		if g[i] != w[i] {
			return "tracker: " + g[i] + " | model: " + w[i]
		}
	}
	return "tracker: " + got + " | model: " + want
}

// compareState observes the tracker and compares with the model; also the invariants.
func (r *c12Run) compareState(st state.Tracker, m *trackerModel, hist []trackerOp) (obs string, ok bool) {
	o := observeImpl(st, &r.u.trackerNames)
	r.bi = o.appendTo(r.bi[:0], &r.u.trackerNames)
	r.bm = m.AppendObserve(r.bm[:0], &r.u.trackerNames)
	obs = string(r.bi)
	if obs != string(r.bm) {
		r.fail("state-differs", hist, "after the last operation the queries answer differently from the model: "+firstDiffLine(obs, string(r.bm)))
		return obs, false
	}
	if oracle, msg := o.invariants(st, r.u); oracle != "" {
		r.fail(oracle, hist, msg)
		return obs, false
	}
	return obs, true
}

// step replays hist on a fresh tracker, applies l and compares result and
// observable state with the model (m is the model state after hist; it is not
// modified). With probe, the universe's probe suffix follows. It returns the
// model after l and the tracker's canonical observable state after l.
func (r *c12Run) step(hist []trackerOp, m *trackerModel, l trackerOp, probe bool) (after *trackerModel, obs string, ok bool) {
	after = m.Clone()
	r.bm = after.AppendApply(r.bm[:0], l)
	want := string(r.bm)
	full := append(append(make([]trackerOp, 0, len(hist)+1+len(r.u.Probe)), hist...), l)
	ok = true
	func() {
		defer func() {
			if x := recover(); x != nil {
				r.fail("crash", full, fmt.Sprintf("panic: %v", x))
				ok = false
			}
		}()
		st := replayImpl(hist)
		res := implCall(st, l)
		r.trans++
		if l.returnsValue() {
			if got := string(res.appendTo(r.bi[:0])); got != want {
				r.fail("return-value-differs", full, l.String()+" returned "+got+", the model says "+want)
				ok = false
				return
			}
		}
		if obs, ok = r.compareState(st, after, full); !ok {
			return
		}
		if r.sample == nil && res.hasValue() && len(hist) >= 2 {
			r.sample = map[string]interface{}{"history": histText(full), "returned": want, "state_after": obs}
		}
		if !probe {
			return
		}
		pm := after.Clone()
		for _, p := range r.u.Probe {
			r.bm = pm.AppendApply(r.bm[:0], p)
			pwant := string(r.bm)
			full = append(full, p)
			pres := implCall(st, p)
			r.trans++
			if got := string(pres.appendTo(r.bi[:0])); got != pwant {
				r.fail("return-value-differs", full, p.String()+" returned "+got+", the model says "+pwant)
				ok = false
				return
			}
		}
		if _, pok := r.compareState(st, pm, full); !pok {
			ok = false
		}
	}()
	return after, obs, ok
}

// ---------------------------------------------------------------- closure (state list by breadth-first search on the model)

type c12Closure struct {
	U        *c12Universe
	Parent   []int32
	Via      []int16
	Depth    []int16
	Complete bool
	MaxDepth int
	Levels   []int
}

func (cl *c12Closure) N() int { return len(cl.Parent) }

// History returns the shortest history reaching state i.
func (cl *c12Closure) History(i int) []trackerOp {
	d := int(cl.Depth[i])
	h := make([]trackerOp, d)
	for j := d - 1; j >= 0; j-- {
		h[j] = cl.U.Letters[cl.Via[i]]
		i = int(cl.Parent[i])
	}
	return h
}

var c12ClosureCache = map[string]*c12Closure{}

// c12GetClosure enumerates (once per process) the states reachable over u's
// alphabet, breadth-first, shortest history first, letters in alphabet order:
// the numbering is deterministic, so jobs can share it without communicating.
// maxDepth 0 = to closure.
func c12GetClosure(u *c12Universe, maxDepth int) *c12Closure {
	ck := fmt.Sprintf("%s/%d", u.Name, maxDepth)
	if cl := c12ClosureCache[ck]; cl != nil {
		return cl
	}
	cl := &c12Closure{U: u, Complete: true, MaxDepth: maxDepth}
	seen := map[[sha1.Size]byte]struct{}{}
	var kb, self []byte
	m0 := newTrackerModel("me")
	kb = m0.AppendStateKey(kb[:0])
	seen[sha1.Sum(kb)] = struct{}{}
	cl.Parent, cl.Via, cl.Depth = append(cl.Parent, -1), append(cl.Via, -1), append(cl.Depth, 0)
	c := newTrackerModel("me")
	c.quiet = true
	for i := 0; i < len(cl.Parent); i++ {
		d := int(cl.Depth[i])
		for len(cl.Levels) <= d {
			cl.Levels = append(cl.Levels, 0)
		}
		cl.Levels[d]++
		m := replayModel(cl.History(i))
		atBound := maxDepth > 0 && d >= maxDepth
		if atBound && !cl.Complete {
			continue
		}
		self = m.AppendStateKey(self[:0])
		for li, l := range u.Letters {
			if isPureQuery(l) || m.Unspecified(l) {
				continue
			}
			c.copyFrom(m)
			c.AppendApply(nil, l)
			kb = c.AppendStateKey(kb[:0])
			if bytes.Equal(kb, self) {
				continue // the letter changes nothing here
			}
			k := sha1.Sum(kb)
			if _, ok := seen[k]; ok {
				continue
			}
			if atBound {
				cl.Complete = false
				break
			}
			seen[k] = struct{}{}
			cl.Parent, cl.Via, cl.Depth = append(cl.Parent, int32(i)), append(cl.Via, int16(li)), append(cl.Depth, int16(d+1))
		}
	}
	c12ClosureCache[ck] = cl
	return cl
}

type c12ClosureCfg struct {
	U        *c12Universe
	MaxDepth int // 0: to closure
	Shards   int
	Cost     int  // relative cost of one shard (scheduling hint: expensive closures first)
	ImplBFS  bool // also run the breadth-first search on the implementation alone and compare the state sets
}

func c12ClosureJobs(cfg c12ClosureCfg) []Job {
	var jobs []Job
	for k := 0; k < cfg.Shards; k++ {
		k := k
		name := fmt.Sprintf("closure/%s/shard=%d.%d", cfg.U.Name, k, cfg.Shards)
		jobs = append(jobs, Job{Name: name, Cost: 100 + cfg.Cost, Run: func(jc *JobCtx) *JobResult {
			e := NewEnum(name)
			cl := c12GetClosure(cfg.U, cfg.MaxDepth)
			r := &c12Run{e: e, u: cfg.U, family: "closure"}
			states := 0
			for i := k; i < cl.N(); i += cfg.Shards {
				hist := cl.History(i)
				m := replayModel(hist)
				// the state itself: the tracker after the shortest history answers as the model does
				var obs string
				ok := true
				func() {
					defer func() {
						if x := recover(); x != nil {
							r.fail("crash", hist, fmt.Sprintf("panic: %v", x))
							ok = false
						}
					}()
					obs, ok = r.compareState(replayImpl(hist), m, hist)
				}()
				states++
				if ok {
					e.Case(obs)
					for _, l := range cfg.U.Letters {
						if m.Unspecified(l) {
							r.skips++
							continue
						}
						r.step(hist, m, l, true)
					}
				}
				if r.fails >= 20 {
					e.Incomplete(fmt.Sprintf("stopped after %d violations at state %d of %d", r.fails, i, cl.N()))
					break
				}
				if states%64 == 0 && jc.Expired() {
					e.Incomplete(fmt.Sprintf("deadline at state %d of %d", i, cl.N()))
					break
				}
			}
			if !cl.Complete && k == 0 {
				e.Incomplete(fmt.Sprintf("closure over %s bounded at history depth %d: %d states (per depth %v), every letter applied in each of them; deeper states not enumerated", cfg.U.Name, cl.MaxDepth, cl.N(), cl.Levels))
			} else if k == 0 {
				e.R.Bounds = append(e.R.Bounds, fmt.Sprintf("closure over %s complete: %d states, %d letters, deepest shortest history %d (states per depth %v)", cfg.U.Name, cl.N(), len(cfg.U.Letters), len(cl.Levels)-1, cl.Levels))
			}
			if r.sample != nil {
				e.Sample(r.sample)
			}
			res := e.Done()
			res.States = res.DistinctN
			res.Transitions = r.trans
			res.Evaluations = r.trans
			res.Traces = int64(states)
			if r.skips > 0 {
				res.Notes = append(res.Notes, fmt.Sprintf("%d (state, letter) pairs not executed: unspecified by the property", r.skips))
			}
			return res
		}})
	}
	if cfg.ImplBFS {
		name := fmt.Sprintf("closure-impl-bfs/%s", cfg.U.Name)
		jobs = append(jobs, Job{Name: name, Cost: 200, Run: func(jc *JobCtx) *JobResult { return c12ImplBFS(name, cfg, jc) }})
	}
	return jobs
}

// c12ImplBFS: breadth-first search over the implementation alone,
// deduplicated on its canonical observable state (successors by replaying the
// shortest history on a fresh tracker plus one letter). The state set must be
// the one the model-driven enumeration produced.
func c12ImplBFS(name string, cfg c12ClosureCfg, jc *JobCtx) *JobResult {
	e := NewEnum(name)
	u := cfg.U
	cl := c12GetClosure(u, cfg.MaxDepth)
	modelStates := map[string]int{}
	for i := 0; i < cl.N(); i++ {
		modelStates[replayModel(cl.History(i)).Observe(&u.trackerNames)] = i
	}
	type node struct {
		parent int32
		via    int16
		depth  int16
	}
	nodes := []node{{-1, -1, 0}}
	history := func(i int) []trackerOp {
		h := make([]trackerOp, nodes[i].depth)
		for j := len(h) - 1; j >= 0; j-- {
			h[j] = u.Letters[nodes[i].via]
			i = int(nodes[i].parent)
		}
		return h
	}
	seen := map[string]int{implObserveText(replayImpl(nil), &u.trackerNames): 0}
	var trans int64
	fails := 0
	crashed := false
	for i := 0; i < len(nodes) && !crashed; i++ {
		hist := history(i)
		if cfg.MaxDepth > 0 && int(nodes[i].depth) >= cfg.MaxDepth {
			continue
		}
		m := replayModel(hist) // only to leave out what the property leaves unspecified
		for li, l := range u.Letters {
			if m.Unspecified(l) {
				continue
			}
			var obs string
			func() {
				defer func() {
					if x := recover(); x != nil {
						e.Fail("closure", "crash", histText(append(hist, l)), fmt.Sprintf("panic: %v", x), map[string]interface{}{"universe": u.Name})
						crashed = true
					}
				}()
				st := replayImpl(hist)
				implCall(st, l)
				obs = implObserveText(st, &u.trackerNames)
			}()
			if crashed {
				break
			}
			trans++
			if _, ok := seen[obs]; ok {
				continue
			}
			seen[obs] = len(nodes)
			nodes = append(nodes, node{int32(i), int16(li), nodes[i].depth + 1})
			e.Case(obs)
			if _, ok := modelStates[obs]; !ok && fails < 3 {
				fails++
				e.Fail("closure", "reachable-states-differ", histText(append(hist, l)), "the tracker reaches an observable state the model cannot reach: "+strings.ReplaceAll(obs, "\n", " ; "), map[string]interface{}{"universe": u.Name})
			}
		}
		if len(nodes) > 4*cl.N()+1000 {
			e.Incomplete("implementation state set keeps growing beyond 4x the model's; stopped")
			break
		}
		if i%64 == 0 && jc.Expired() {
			e.Incomplete(fmt.Sprintf("deadline at state %d", i))
			break
		}
	}
	e.Case(implObserveText(replayImpl(nil), &u.trackerNames))
	if e.R.Exhaustive && !crashed && cl.Complete {
		for obs, i := range modelStates {
			if _, ok := seen[obs]; !ok {
				e.Fail("closure", "reachable-states-differ", histText(cl.History(i)), "the model reaches a state the tracker never shows: "+strings.ReplaceAll(obs, "\n", " ; "), map[string]interface{}{"universe": u.Name})
				break
			}
		}
		e.R.Bounds = append(e.R.Bounds, fmt.Sprintf("breadth-first search on the implementation alone: %d observable states, model-driven enumeration: %d", len(seen), cl.N()))
	}
	res := e.Done()
	// the states were already counted by the shard jobs; this job is a cross-check
	res.States = 0
	res.DistinctN = 0
	res.Distinct = nil
	res.Transitions = trans
	res.Evaluations = trans
	res.Notes = append(res.Notes, fmt.Sprintf("cross-check: %d observable states found by searching the implementation alone (not added to the state count)", len(seen)))
	return res
}

// ---------------------------------------------------------------- flat pass

func (r *c12Run) flat(prefix []trackerOp, m *trackerModel, depth int, jc *JobCtx) bool {
	for _, l := range r.u.Letters {
		if m.Unspecified(l) {
			r.skips++
			continue
		}
		after, obs, ok := r.step(prefix, m, l, depth == 1)
		if ok {
			r.e.distinctAdd(obs)
		}
		if r.fails >= 20 {
			return false
		}
		if ok && depth > 1 {
			if !r.flat(append(prefix[:len(prefix):len(prefix)], l), after, depth-1, jc) {
				return false
			}
		}
	}
	return !(depth == 2 && jc.Expired())
}

func (e *Enum) distinctAdd(key string) {
	h := sha1.Sum([]byte(key))
	e.distinct[uint64(h[0])|uint64(h[1])<<8|uint64(h[2])<<16|uint64(h[3])<<24|uint64(h[4])<<32|uint64(h[5])<<40|uint64(h[6])<<48|uint64(h[7])<<56] = struct{}{}
}

// c12FlatJobs: all histories seed + (1..depth letters of the wide alphabet),
// one job per first letter.
func c12FlatJobs(u *c12Universe, seed c12Seed, depth int) []Job {
	var jobs []Job
	for li, l := range u.Letters {
		li, l := li, l
		name := fmt.Sprintf("flat/%s/depth=%d/first=%02d:%s", seed.Name, depth, li, l.String())
		cost := depth
		if depth >= 4 {
			cost = 105 // ~10 s each: before the small closures' shards
		}
		jobs = append(jobs, Job{Name: name, Cost: cost, Run: func(jc *JobCtx) *JobResult {
			e := NewEnum(name)
			r := &c12Run{e: e, u: u, family: "flat"}
			m := newTrackerModel("me")
			okSeed := true
			// the seed history is itself checked step by step (cheap; done in every job of the seed)
			for i, op := range seed.Hist {
				var ok bool
				if m, _, ok = r.step(seed.Hist[:i], m, op, false); !ok {
					okSeed = false
					break
				}
			}
			r.trans = 0
			if okSeed && !m.Unspecified(l) {
				after, obs, ok := r.step(seed.Hist, m, l, depth == 1)
				if ok {
					e.distinctAdd(obs)
					if depth > 1 {
						p := append(append([]trackerOp{}, seed.Hist...), l)
						if !r.flat(p, after, depth-1, jc) {
							e.Incomplete(fmt.Sprintf("stopped early (deadline or %d violations)", r.fails))
						}
					}
				}
			}
			if r.sample != nil {
				e.Sample(r.sample)
			}
			res := e.Done()
			res.States = res.DistinctN
			res.Transitions = r.trans
			res.Evaluations = r.trans
			res.Traces = r.trans
			if r.skips > 0 && li == 0 {
				res.Notes = append(res.Notes, fmt.Sprintf("%d (history, letter) pairs not executed in this job (similar in the other jobs of this seed): unspecified by the property", r.skips))
			}
			return res
		}})
	}
	return jobs
}

// ---------------------------------------------------------------- registration

// c12QuickClosures: the closures of the quick tier (C14's snapshot half runs in their states).
func c12QuickClosures() []c12ClosureCfg {
	return []c12ClosureCfg{
		{U: c12ClosureUniverse("n2c1-full", []string{"me", "a"}, []string{"#x"}, c12Full), Shards: 16, ImplBFS: true},
		{U: c12ClosureUniverse("n3c1-noinfo", []string{"me", "a", "b"}, []string{"#x"}, c12NoInfo), Shards: 48},
		{U: c12ClosureUniverse("n3c2-rel", []string{"me", "a", "b"}, []string{"#x", "#y"}, c12Rel), Shards: 16, ImplBFS: true},
	}
}

func c12ThoroughClosures() []c12ClosureCfg {
	return []c12ClosureCfg{
		{U: c12ClosureUniverse("n2c1-full", []string{"me", "a"}, []string{"#x"}, c12Full), Shards: 16, ImplBFS: true},
		{U: c12ClosureUniverse("n3c1-noinfo", []string{"me", "a", "b"}, []string{"#x"}, c12NoInfo), Shards: 32, ImplBFS: true},
		{U: c12ClosureUniverse("n3c2-rel", []string{"me", "a", "b"}, []string{"#x", "#y"}, c12Rel), Shards: 16, ImplBFS: true},
		{U: c12ClosureUniverse("n3c1-full", []string{"me", "a", "b"}, []string{"#x"}, c12Full), Shards: 96, Cost: 30},
		{U: c12ClosureUniverse("n2c2-noinfo", []string{"me", "a"}, []string{"#x", "#y"}, c12NoInfo), Shards: 96, Cost: 20},
		{U: c12ClosureUniverse("n3c2-full", []string{"me", "a", "b"}, []string{"#x", "#y"}, c12Full), Shards: 96, MaxDepth: 9, Cost: 10},
	}
}

func c12Jobs(tier string) []Job {
	var jobs []Job
	wide := c12WideUniverse()
	seeds := c12Seeds()
	if tier == "thorough" {
		for _, cfg := range c12ThoroughClosures() {
			jobs = append(jobs, c12ClosureJobs(cfg)...)
		}
		jobs = append(jobs, c12FlatJobs(wide, seeds[0], 4)...)
		for _, s := range seeds[1:] {
			jobs = append(jobs, c12FlatJobs(wide, s, 3)...)
		}
		return jobs
	}
	for _, cfg := range c12QuickClosures() {
		jobs = append(jobs, c12ClosureJobs(cfg)...)
	}
	for _, s := range seeds {
		jobs = append(jobs, c12FlatJobs(wide, s, 3)...)
	}
	return jobs
}

func init() {
	Register(&Prop{
		ID: "C12",
		Rule: "closure: every (reachable state, letter) pair of a small universe, states = distinct canonical observable states of the tracker " +
			"(answers of Me/GetNick/GetChannel/IsOn for every name and pair, sorted keys), each rebuilt from its shortest history on a fresh tracker; " +
			"a transition = one operation executed on the tracker whose result and resulting observable state were compared with the reference model " +
			"(the letter itself plus the probe suffix ChannelModes(c,\"+h\",n) for every c,n). " +
			"flat: every history seed+1..d letters of the wide alphabet (empty names, used rename targets, ReNick(n,n), multi-letter mode strings, Wipe, DelNick(me), String); " +
			"states there are distinct canonical states per job. A case is non-trivial when the state is new.",
		Assumptions: []string{
			"the tracker is driven directly through state.NewTracker(\"me\"), sequentially (concurrent use is C14)",
			"left out as unspecified by the property: a privilege letter whose argument is not a member, or \"-k\", followed by further argument-taking letters in the same mode string",
			"not asked: mode strings without a leading sign; limit arguments other than plain digits or plain non-numbers; String() is only required not to panic",
			"the closure's state list is enumerated on the reference model and every state and successor is compared with the tracker; a cross-check job searches the implementation alone and requires the same set of observable states",
			"nicks created with NewNick and never associated with a channel survive Wipe/DelChannel (the statement only makes nicks disappear that a removal leaves on no channel)",
		},
		Jobs: c12Jobs,
	})
	prev := replayInput
	replayInput = func(v *Violation) int {
		if v.Property != "C12" && !(v.Property == "C14" && v.Family == "snapshots") {
			if prev != nil {
				return prev(v)
			}
			fmt.Println("violation has no schedule; input:", v.Input)
			return 0
		}
		if v.Property == "C14" {
			return c14ReplayInput(v)
		}
		return c12ReplayInput(v)
	}
}

// c12ReplayInput re-executes the history of a recorded violation step by step,
// printing tracker and model side by side.
func c12ReplayInput(v *Violation) int {
	hist, ok := opsFromParams(v)
	if !ok {
		return 2
	}
	if len(hist) == 0 {
		fmt.Println("no recorded history; input:", v.Input)
		return 0
	}
	u := c12WideUniverse()
	var st state.Tracker = state.NewTracker("me")
	m := newTrackerModel("me")
	bad := 0
	for i, op := range hist {
		want := m.Apply(op)
		got := string(implCall(st, op).appendTo(nil))
		fmt.Printf("%2d %s\n     tracker: %s\n     model:   %s\n", i+1, op, got, want)
		if op.returnsValue() && got != want {
			fmt.Println("     RESULT DIFFERS")
			bad = 1
		}
		so, sm := implObserveText(st, &u.trackerNames), m.Observe(&u.trackerNames)
		if so != sm {
			fmt.Println("     STATE DIFFERS:", firstDiffLine(so, sm))
			bad = 1
		}
	}
	if bad == 1 {
		fmt.Println("REPRODUCED")
	} else {
		fmt.Println("NOT REPRODUCED (model and tracker agree on this history)")
	}
	return bad
}

// opsFromParams decodes the history recorded in a violation's "ops" parameter.
func opsFromParams(v *Violation) ([]trackerOp, bool) {
	raw, _ := v.Params["ops"].([]interface{})
	var hist []trackerOp
	for _, row := range raw {
		cells, _ := row.([]interface{})
		if len(cells) == 0 {
			continue
		}
		var ss []string
		for _, c := range cells {
			ss = append(ss, fmt.Sprint(c))
		}
		op := trackerOp{Kind: -1}
		for k, n := range trackerOpNames {
			if n == ss[0] {
				op.Kind = k
			}
		}
		if op.Kind < 0 {
			fmt.Println("unknown operation", ss[0])
			return nil, false
		}
		ss = ss[1:]
		if op.nameArgs() >= 1 && len(ss) > 0 {
			op.A, ss = ss[0], ss[1:]
		}
		if op.nameArgs() == 2 && len(ss) > 0 {
			op.B, ss = ss[0], ss[1:]
		}
		op.X = ss
		hist = append(hist, op)
	}
	return hist, true
}
