package harness

import (
	"context"
	"fmt"
	"strings"
	"time"

	"github.com/fluffle/goirc/client"

	"verif/explore"
	"verif/vx"
)

// C03: foreground handlers see server events one at a time, in wire order.

type c03Params struct {
	Verbs   []string // one per line: PRIVMSG | NOTICE | 001 | PING | FOO
	End     string   // "quiet-eof" (scenario A) | "eof" | "close" | "cancel" (scenario B: races with delivery)
	Cuts    bool     // offer read-cut deviations (all partitions of the byte stream)
	Segs    string   // "one" (all lines in one segment) | "each" (one segment per line)
	LongLn  bool     // line 1 is ~5000 bytes (longer than the 4096-byte read buffer)
	Yields  int      // scheduling points inside each handler between enter and exit
	SleepMs int      // virtual sleep inside handlers (handler "duration")
	ChanCap int      // 0 = the real queue capacity (32); 2 = capacity-scaled queues, so that a handful of lines is a backlog
	Reg     bool     // a slow foreground REGISTER handler, and the server's lines are already waiting when the connection is made: the caller of Connect dispatches REGISTER while the event loop delivers lines
	EOL     string   // "" = every line ends in CR LF | "lf" = bare LF | "mixed" = alternating, with empty lines in between
}

func (p c03Params) name() string {
	v := strings.Join(p.Verbs, ",")
	if len(p.Verbs) > 8 {
		v = fmt.Sprintf("%dx(%s)", len(p.Verbs), strings.Join(p.Verbs[:4], ","))
	}
	n := fmt.Sprintf("order/verbs=%s/end=%s/cuts=%v/segs=%s/long=%v/y=%d/sl=%d", v, p.End, p.Cuts, p.Segs, p.LongLn, p.Yields, p.SleepMs)
	if p.ChanCap != 0 {
		n += fmt.Sprintf("/cap=%d", p.ChanCap)
	}
	if p.EOL != "" {
		n += "/eol=" + p.EOL
	}
	if p.Reg {
		n += "/register-handler"
	}
	return n
}

func c03Lines(p c03Params) []string {
	var ls []string
	for i, v := range p.Verbs {
		pad := ""
		if p.LongLn && i == 1 {
			pad = " " + strings.Repeat("x", 5000)
		}
		switch v {
		case "001bare":
			// a welcome without any text after the nick (line numbers cannot ride in it: at most one per session)
			ls = append(ls, ":irc.example 001 me2")
		case "001":
			ls = append(ls, fmt.Sprintf(":irc.example 001 me2 :Welcome s%d%s me2!ident@host.example", i, pad))
		case "PING":
			ls = append(ls, fmt.Sprintf("PING :s%d%s", i, pad))
		default:
			ls = append(ls, fmt.Sprintf(":o!u@h %s #c :s%d%s", v, i, pad))
		}
	}
	return ls
}

func c03Scenario(p c03Params) *explore.Scenario {
	lines := c03Lines(p)
	idx := map[string]int{}
	for i, l := range lines {
		idx[l] = i
	}
	sc := &explore.Scenario{
		Family: "order",
		Name:   p.name(),
		Params: map[string]interface{}{"verbs": strings.Join(p.Verbs, ","), "end": p.End, "cuts": p.Cuts, "segs": p.Segs, "long": p.LongLn},
		Opt:    vx.Options{MaxSteps: 40000 + 4000*len(p.Verbs), Horizon: time.Minute + time.Duration(p.SleepMs*(len(p.Verbs)+2)*8)*time.Millisecond, ChanCap: p.ChanCap},
	}
	sc.Params["chancap"] = p.ChanCap
	sc.Params["eol"] = p.EOL
	sc.Params["register_handler"] = p.Reg
	sc.Params["sleep_ms"] = p.SleepMs
	sc.Main = func(env *vx.Env) {
		c := NewClient("me", nil)
		body := func(kind, h string) client.HandlerFunc {
			return func(conn *client.Conn, line *client.Line) {
				i, ok := idx[line.Raw]
				if !ok {
					vx.Observe("ev", fmt.Sprintf("%s-enter ? %s unknown-line %q", kind, h, line.Raw))
					return
				}
				vx.Observe("ev", fmt.Sprintf("%s-enter %d %s", kind, i, h))
				for y := 0; y < p.Yields; y++ {
					vx.Yield()
				}
				if p.SleepMs > 0 {
					vx.Sleep(time.Duration(p.SleepMs) * time.Millisecond)
				}
				vx.Observe("ev", fmt.Sprintf("%s-exit %d %s", kind, i, h))
			}
		}
		for _, v := range []string{"PRIVMSG", "NOTICE", "001", "PING", "FOO"} {
			c.HandleFunc(v, body("fg", "h1"))
			if v == "PRIVMSG" || v == "001" {
				c.HandleFunc(strings.ToLower(v), body("fg", "h2"))
			}
		}
		c.HandleBG("PRIVMSG", body("bg", "b1"))
		c.HandleFunc(client.CONNECTED, func(conn *client.Conn, line *client.Line) {
			vx.Observe("ev", "CONNECTED-enter nick="+conn.Me().Nick)
			for y := 0; y < p.Yields; y++ {
				vx.Yield()
			}
			vx.Observe("ev", "CONNECTED-exit")
		})
		c.HandleFunc(client.DISCONNECTED, func(conn *client.Conn, line *client.Line) {
			vx.Observe("ev", "DISCONNECTED-enter")
		})
		if p.Reg {
			// REGISTER is outside the claim, but what it does to the other lines' handlers is not
			nreg := 2
			if p.Verbs[0] != "PRIVMSG" && p.Verbs[0] != "001" {
				nreg = 1 // the first line has one foreground handler: one REGISTER handler finishing early is enough to matter
			}
			for i := 0; i < nreg; i++ {
				c.HandleFunc(client.REGISTER, func(conn *client.Conn, line *client.Line) {
					vx.Observe("reg", "REGISTER-enter")
					for y := 0; y < 3+p.Yields; y++ {
						vx.Yield()
					}
					vx.Observe("reg", "REGISTER-exit")
				})
			}
		}
		eol := func(i int) string {
			switch p.EOL {
			case "lf":
				return "\n"
			case "mixed":
				// an empty line (which the client skips) after every second line
				return []string{"\r\n", "\n\r\n", "\n", "\r\n\n"}[i%4]
			}
			return "\r\n"
		}
		var vc *vx.Conn
		env.ConnSetup = func(x *vx.Conn) {
			vc = x
			if p.Cuts {
				x.CutMenu = cutMenu
			}
			if p.Reg {
				var sb strings.Builder
				for i, l := range lines {
					sb.WriteString(l + eol(i))
				}
				x.Preload(sb.String())
			}
		}
		ctx, cancel := context.WithCancel(context.Background())
		srvDone := vx.NewEvent("server-done")
		if err := c.ConnectContext(ctx); err != nil {
			return
		}
		srv := env.Go("server", func() {
			if p.Reg {
				// already preloaded
			} else if p.Segs == "each" {
				for i, l := range lines {
					vc.Send(l + eol(i))
				}
			} else {
				var sb strings.Builder
				for i, l := range lines {
					sb.WriteString(l + eol(i))
				}
				vc.Send(sb.String())
			}
			switch p.End {
			case "quiet-eof":
				if p.SleepMs > 0 {
					// handlers sleep in virtual time: let it pass before looking for quiescence
					vx.Sleep(time.Duration(p.SleepMs*(len(lines)+2)*4) * time.Millisecond)
				}
				vx.Quiesce()
				vx.Observe("ev", "all-quiet")
				vc.EOF()
			case "eof":
				vc.EOF()
			}
			srvDone.Set()
		})
		_ = srv
		switch p.End {
		case "close":
			env.Go("closer", func() { c.Close() })
		case "cancel":
			env.Go("canceller", func() { cancel() })
		}
		srvDone.Wait()
		vx.Quiesce()
		vx.Observe("ev", "end")
	}
	sc.Check = func(o *vx.Outcome) []explore.Finding {
		if fs := stdOutcome(o); fs != nil {
			return fs
		}
		return c03Oracle(p, o.Log("ev"))
	}
	return sc
}

// cutMenu offers cuts at: 1 byte, the middle, just before each LF (between CR and LF), just after each LF.
func cutMenu(avail []byte) []int {
	n := len(avail)
	seen := map[int]bool{}
	var cuts []int
	add := func(k int) {
		if k >= 1 && k < n && !seen[k] {
			seen[k] = true
			cuts = append(cuts, k)
		}
	}
	add(1)
	add(n / 2)
	for i, b := range avail {
		if b == '\n' {
			add(i)     // CR | LF
			add(i + 1) // after LF
			add(i - 1) // before CR
		}
	}
	if len(cuts) > 12 {
		cuts = cuts[:12]
	}
	return cuts
}

func c03Oracle(p c03Params, ev []string) []explore.Finding {
	var fs []explore.Finding
	bad := func(id, msg string) {
		fs = append(fs, explore.Finding{Oracle: id, Msg: msg + " :: " + strings.Join(ev, "; ")})
	}
	n := len(p.Verbs)
	fgHandlers := func(v string) int {
		if v == "PRIVMSG" || v == "001" || v == "001bare" {
			return 2
		}
		return 1
	}
	enters := make([]int, n) // fg enters per line
	exits := make([]int, n)
	bgEnters := make([]int, n)
	open := map[int]int{} // line -> fg handlers currently inside
	maxEntered := -1
	perHandler := map[string]int{} // "line handler" -> foreground entries
	welcomeLine := -1
	for i, v := range p.Verbs {
		if (v == "001" || v == "001bare") && welcomeLine < 0 {
			welcomeLine = i
		}
	}
	connectedSeen := false
	disconnected := false
	for _, r := range ev {
		f := strings.Fields(r)
		switch f[0] {
		case "fg-enter":
			if f[1] == "?" {
				bad("unknown-line", "a handler received a line that was never sent")
				continue
			}
			var s int
			fmt.Sscan(f[1], &s)
			if s < maxEntered {
				bad("out-of-order", fmt.Sprintf("line %d entered a foreground handler after line %d", s, maxEntered))
			}
			for t, k := range open {
				if t != s && k > 0 {
					bad("overlap", fmt.Sprintf("a foreground handler for line %d started while a handler for line %d was still running", s, t))
				}
			}
			if s > maxEntered {
				// every earlier delivered line must have completed all its handlers
				maxEntered = s
			}
			if welcomeLine >= 0 && s > welcomeLine && enters[welcomeLine] > 0 && !connectedSeen {
				bad("connected-late", fmt.Sprintf("line %d reached a foreground handler before CONNECTED was delivered", s))
			}
			if disconnected {
				bad("delivery-after-disconnected", fmt.Sprintf("line %d entered a foreground handler after DISCONNECTED", s))
			}
			open[s]++
			enters[s]++
			if len(f) > 2 {
				perHandler[fmt.Sprintf("%d %s", s, f[2])]++
			}
		case "fg-exit":
			var s int
			fmt.Sscan(f[1], &s)
			open[s]--
			exits[s]++
		case "bg-enter":
			if f[1] != "?" {
				var s int
				fmt.Sscan(f[1], &s)
				bgEnters[s]++
			}
		case "CONNECTED-enter":
			connectedSeen = true
			if r != "CONNECTED-enter nick=me2" {
				bad("connected-before-welcome-applied", "CONNECTED handler ran before the welcome line was applied: "+r)
			}
			for t, k := range open {
				if k > 0 && (welcomeLine < 0 || t != welcomeLine) {
					bad("connected-overlap", fmt.Sprintf("CONNECTED was delivered while a handler for line %d was running", t))
				}
			}
			if welcomeLine >= 0 && maxEntered > welcomeLine {
				bad("connected-late", "CONNECTED was delivered after a later line")
			}
		case "DISCONNECTED-enter":
			disconnected = true
			for t, k := range open {
				if k > 0 {
					bad("disconnected-early", fmt.Sprintf("DISCONNECTED was delivered while a foreground handler for line %d was still running", t))
				}
			}
		}
	}
	for i, v := range p.Verbs {
		want := fgHandlers(v)
		for _, h := range []string{"h1", "h2"}[:want] {
			k := perHandler[fmt.Sprintf("%d %s", i, h)]
			if k > 1 {
				bad("duplicate-delivery", fmt.Sprintf("line %d was delivered %d times to foreground handler %s", i, k, h))
			}
			if k == 0 && p.End == "quiet-eof" {
				bad("lost-delivery", fmt.Sprintf("line %d never reached foreground handler %s (connection was idle before it ended)", i, h))
			}
		}
		if enters[i] > want {
			bad("duplicate-delivery", fmt.Sprintf("line %d was delivered %d times to %d foreground handlers", i, enters[i], want))
		}
		if p.End == "quiet-eof" {
			if enters[i] != want || exits[i] != want {
				bad("lost-delivery", fmt.Sprintf("line %d: %d foreground deliveries, expected %d (connection was idle before it ended)", i, enters[i], want))
			}
			wantBG := 0
			if v == "PRIVMSG" {
				wantBG = 1
			}
			if bgEnters[i] != wantBG {
				bad("background-delivery", fmt.Sprintf("line %d: %d background deliveries, expected %d", i, bgEnters[i], wantBG))
			}
		}
	}
	if p.End == "quiet-eof" && welcomeLine >= 0 && !connectedSeen {
		bad("connected-missing", "the welcome line was received but CONNECTED was never delivered")
	}
	if !disconnected {
		bad("disconnected-missing", "the connection ended but DISCONNECTED was not delivered")
	}
	return fs
}

func init() {
	Register(&Prop{
		ID:   "C03",
		Rule: "every execution, within the deviation budgets (K scheduling deviations incl. select-case choices, E read-cut deviations = partitions of the byte stream), of sessions of 3-4 numbered lines over verbs {PRIVMSG,NOTICE,001,PING,FOO} with 1-2 foreground handlers per verb, a background handler, handler bodies with 0-2 scheduling points or a virtual sleep, lines ending in CR LF, bare LF or a mixture with empty lines in between, plus backlog sessions: 45 lines in one segment with 5 ms handlers (more than the 32-slot receive queue holds) and 7 lines over capacity-scaled queues (2 slots); scenario A ends after quiescence, scenario B's EOF/Close/cancel races with delivery; distinct = distinct canonical observation (enter/exit log + transcript)",
		Assumptions: []string{
			"interleavings at synchronisation/channel/socket/timer granularity (DESIGN.md 3.8); 'all handler durations' and GOMAXPROCS 1..16 are subsumed by the interleaving space for data-race-free code",
			"ordering oracles are stated on the single observation log 'ev', whose records are mutually dependent events",
		},
		Jobs: func(tier string) []Job {
			var jobs []Job
			patterns := [][]string{
				{"PRIVMSG", "001", "PRIVMSG"},
				{"001", "PRIVMSG", "NOTICE"},
				{"PRIVMSG", "PRIVMSG", "PING"},
				{"PING", "001", "FOO"},
			}
			if tier == "thorough" {
				patterns = append(patterns, []string{"PRIVMSG", "001", "NOTICE", "PRIVMSG"}, []string{"001", "PING", "PRIVMSG", "FOO"}, []string{"NOTICE", "PRIVMSG", "001", "PRIVMSG"})
			}
			budgets := []explore.Budget{{0, 0}, {1, 0}, {2, 0}}
			cutBudgets := []explore.Budget{{0, 0}, {0, 1}, {1, 1}, {0, 2}}
			if tier == "thorough" {
				budgets = []explore.Budget{{0, 0}, {1, 0}, {2, 0}, {3, 0}}
				cutBudgets = []explore.Budget{{0, 0}, {0, 1}, {1, 1}, {0, 2}, {2, 1}, {1, 2}}
			}
			for _, pat := range patterns {
				for _, end := range []string{"quiet-eof", "eof", "close", "cancel"} {
					for _, y := range []int{0, 1} {
						p := c03Params{Verbs: pat, End: end, Segs: "one", Yields: y}
						if len(pat) > 3 && tier == "thorough" {
							jobs = append(jobs, ExploreJob("C03", ExploreSpec{Sc: c03Scenario(p), Variants: []int{1, 2, 3}, Budgets: []explore.Budget{{0, 0}, {1, 0}, {2, 0}}, Cache: true}, 40))
						} else {
							jobs = append(jobs, ExploreJob("C03", ExploreSpec{Sc: c03Scenario(p), Variants: []int{1, 2, 3}, Budgets: budgets, Cache: true}, 30))
						}
					}
				}
				// byte-stream partitions
				p := c03Params{Verbs: pat, End: "quiet-eof", Segs: "one", Cuts: true}
				jobs = append(jobs, ExploreJob("C03", ExploreSpec{Sc: c03Scenario(p), Variants: []int{1, 3}, Budgets: cutBudgets, Cache: true}, 20))
				p = c03Params{Verbs: pat, End: "eof", Segs: "each", Cuts: true, Yields: 1}
				jobs = append(jobs, ExploreJob("C03", ExploreSpec{Sc: c03Scenario(p), Variants: []int{1, 3}, Budgets: cutBudgets, Cache: true}, 20))
			}
			// a backlog: more lines than the receive queue holds (32) while the handlers take their time, and the
			// same with capacity-scaled queues, where a few lines are a backlog and the schedules can be explored
			var many []string
			for i := 0; i < 45; i++ {
				many = append(many, []string{"PRIVMSG", "NOTICE", "PING", "FOO"}[i%4])
			}
			many[20] = "001"
			for _, end := range []string{"quiet-eof", "eof"} {
				jobs = append(jobs, ExploreJob("C03", ExploreSpec{Sc: c03Scenario(c03Params{Verbs: many, End: end, Segs: "one", SleepMs: 5}), Variants: []int{1, 2, 3}, Budgets: []explore.Budget{{0, 0}, {1, 0}}, Cache: true}, 60))
			}
			six := []string{"PRIVMSG", "NOTICE", "PING", "PRIVMSG", "001", "FOO", "PRIVMSG"}
			for _, end := range []string{"quiet-eof", "eof", "close"} {
				for _, sl := range []int{0, 5} {
					jobs = append(jobs, ExploreJob("C03", ExploreSpec{Sc: c03Scenario(c03Params{Verbs: six, End: end, Segs: "one", SleepMs: sl, Yields: 1, ChanCap: 2}), Variants: []int{1, 2, 3}, Budgets: budgets, Cache: true}, 60))
				}
			}
			// line endings: bare LF, and a mixture with empty lines in between
			for _, eol := range []string{"lf", "mixed"} {
				for _, segs := range []string{"one", "each"} {
					jobs = append(jobs, ExploreJob("C03", ExploreSpec{Sc: c03Scenario(c03Params{Verbs: patterns[0], End: "quiet-eof", Segs: segs, EOL: eol, Cuts: true}), Variants: []int{1, 3}, Budgets: []explore.Budget{{0, 0}, {1, 0}, {0, 1}, {1, 1}}, Cache: true}, 20))
				}
			}
			// lines waiting at connect time, delivered while the caller of Connect is still dispatching REGISTER to slow handlers
			for _, pat := range [][]string{{"PRIVMSG", "001", "PRIVMSG"}, {"NOTICE", "PRIVMSG", "PING"}, {"PING", "NOTICE", "FOO"}} {
				for _, end := range []string{"quiet-eof", "eof"} {
					// handlers with scheduling points only, and handlers that take (virtual) time: a line's handler is then
					// still inside when the REGISTER handlers are done
					jobs = append(jobs, ExploreJob("C03", ExploreSpec{Sc: c03Scenario(c03Params{Verbs: pat, End: end, Segs: "one", Yields: 1, Reg: true}), Variants: []int{1, 2, 3}, Budgets: budgets, Cache: true}, 30))
					jobs = append(jobs, ExploreJob("C03", ExploreSpec{Sc: c03Scenario(c03Params{Verbs: pat, End: end, Segs: "one", SleepMs: 5, Reg: true}), Variants: []int{1, 2, 3}, Budgets: budgets, Cache: true}, 30))
				}
			}
			// a welcome line that is just ":server 001 nick"
			for _, pat := range [][]string{{"PRIVMSG", "001bare", "PRIVMSG"}, {"001bare", "PING", "NOTICE"}} {
				for _, end := range []string{"quiet-eof", "eof"} {
					jobs = append(jobs, ExploreJob("C03", ExploreSpec{Sc: c03Scenario(c03Params{Verbs: pat, End: end, Segs: "one", Yields: 1}), Variants: []int{1, 2, 3}, Budgets: budgets, Cache: true}, 30))
				}
			}
			// handlers that take five virtual minutes each (longer than any timeout the library knows)
			jobs = append(jobs, ExploreJob("C03", ExploreSpec{Sc: c03Scenario(c03Params{Verbs: patterns[0], End: "quiet-eof", Segs: "one", SleepMs: 300000}), Variants: []int{1, 2, 3}, Budgets: []explore.Budget{{0, 0}, {1, 0}}, Cache: true}, 20))
			// handler duration as virtual sleep; a line longer than the read buffer
			jobs = append(jobs, ExploreJob("C03", ExploreSpec{Sc: c03Scenario(c03Params{Verbs: patterns[0], End: "quiet-eof", Segs: "one", SleepMs: 500}), Variants: []int{1, 2, 3}, Budgets: []explore.Budget{{0, 0}, {1, 0}, {2, 0}}, Cache: true}, 20))
			jobs = append(jobs, ExploreJob("C03", ExploreSpec{Sc: c03Scenario(c03Params{Verbs: patterns[0], End: "quiet-eof", Segs: "one", LongLn: true, Cuts: true}), Variants: []int{1, 2, 3}, Budgets: []explore.Budget{{0, 0}, {1, 0}, {0, 1}, {1, 1}}, Cache: true}, 20))
			jobs = append(jobs, ExploreJob("C03", ExploreSpec{Sc: c03Scenario(c03Params{Verbs: patterns[1], End: "close", Segs: "each", LongLn: true}), Variants: []int{1, 2, 3}, Budgets: []explore.Budget{{0, 0}, {1, 0}, {2, 0}}, Cache: true, CrossChk: &explore.Budget{K: 2}}, 20))
			return jobs
		},
	})
}
