//go:build !verifexports

package harness

import "github.com/fluffle/goirc/client"

// c15HaveInternal: without the export shim no extra internal handlers can be registered; the scenarios that
// ask for them run with the built-in internal handlers only.
const c15HaveInternal = false

func c15HandleInternal(c *client.Conn, name string, h client.HandlerFunc) {}
