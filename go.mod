module verif

go 1.22.0

toolchain go1.23.5

require (
	github.com/emersion/go-sasl v0.0.0-20220912192320-0145f2c60ead
	github.com/fluffle/goirc v0.0.0-00010101000000-000000000000
	golang.org/x/net v0.34.0
	golang.org/x/tools v0.29.0
)

require github.com/golang/mock v1.5.0 // indirect

replace github.com/fluffle/goirc => /repo
