//go:build verifexports

package harness

import "github.com/fluffle/goirc/client"

// c11HaveSplit: the instrumented build exports splitMessage.
const c11HaveSplit = true

func c11Split(msg string, splitLen int) []string { return client.VerifSplitMessage(msg, splitLen) }
