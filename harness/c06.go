package harness

import (
	"context"
	"errors"
	"fmt"
	"strings"
	"time"

	"github.com/fluffle/goirc/client"

	"verif/explore"
	"verif/vx"
)

// C06: lifecycle events fire exactly once and agree with Connected().

type c06Params struct {
	Causes   []string // close | eof | readerr@k | writeerr@k | cancel   (1 or 2 of them; "close" may appear twice)
	Tracking bool
	Ping     bool
	FloodCtl bool
	Ctx      bool   // context-aware connect
	Extra    string // "" | "reconnect" (a user task calls Connect again during the session)
	NoProbe  bool   // handlers only record the event and do not call Connected()
	Direct   bool   // no proxy configured: internalConnect dials itself (through the Dialer shim)
}

func (p c06Params) name() string {
	f := ""
	if p.Tracking {
		f += "T"
	}
	if p.Ping {
		f += "P"
	}
	if p.FloodCtl {
		f += "F"
	}
	if p.Ctx {
		f += "C"
	}
	if p.Direct {
		f += "D"
	}
	if f == "" {
		f = "-"
	}
	x := p.Extra
	if x == "" {
		x = "-"
	}
	pr := "probe"
	if p.NoProbe {
		pr = "noprobe"
	}
	return fmt.Sprintf("lifecycle/causes=%s/cfg=%s/extra=%s/%s", strings.Join(p.Causes, "+"), f, x, pr)
}

const welcome = ":irc.example 001 me :Welcome to the Internet Relay Network me!ident@host.example"

func c06Scenario(p c06Params) *explore.Scenario {
	sc := &explore.Scenario{
		Family: "lifecycle",
		Name:   p.name(),
		Params: map[string]interface{}{"causes": strings.Join(p.Causes, "+"), "tracking": p.Tracking, "ping": p.Ping, "floodctl": p.FloodCtl, "ctx": p.Ctx, "extra": p.Extra, "probe": !p.NoProbe, "direct": p.Direct},
		Opt:    vx.Options{MaxSteps: 20000, Horizon: 20 * time.Second, ClockAlt: p.Ping},
	}
	if p.FloodCtl && p.Extra != "" {
		sc.Opt.Horizon = 3 * time.Minute
		sc.Opt.MaxSteps = 60000
	}
	needCancel := false
	for _, c := range p.Causes {
		if c == "cancel" {
			needCancel = true
		}
	}
	sc.Main = func(env *vx.Env) {
		c := NewClient("me", func(cfg *client.Config) {
			if p.Ping {
				cfg.PingFreq = 3 * time.Second
			}
			cfg.Flood = !p.FloodCtl
			if p.Direct {
				cfg.Proxy = ""
			}
		})
		if p.Tracking {
			c.EnableStateTracking()
		}
		rec := func(name string) client.HandlerFunc {
			return func(conn *client.Conn, line *client.Line) {
				if p.NoProbe {
					vx.Observe("ev", name)
					return
				}
				vx.ObserveNoPoint("probe", "enter")
				v := conn.Connected()
				vx.ObserveNoPoint("probe", "exit")
				vx.Observe("ev", fmt.Sprintf("%s connected=%v", name, v))
			}
		}
		c.HandleFunc(client.REGISTER, rec("REGISTER"))
		c.HandleFunc(client.CONNECTED, rec("CONNECTED"))
		c.HandleFunc(client.DISCONNECTED, rec("DISCONNECTED"))
		if p.Extra == "close-in-disconnected" {
			// the client is not connected any more when DISCONNECTED handlers run: Close there does nothing
			// (and in particular returns)
			c.HandleFunc(client.DISCONNECTED, func(conn *client.Conn, line *client.Line) {
				err := conn.Close()
				vx.Observe("ev", fmt.Sprintf("close-in-handler-ret err=%v", err))
			})
			c.HandleBG(client.DISCONNECTED, client.HandlerFunc(func(conn *client.Conn, line *client.Line) {
				err := conn.Close()
				vx.Observe("ev", fmt.Sprintf("close-in-bg-handler-ret err=%v", err))
			}))
		}
		var vc *vx.Conn
		env.ConnSetup = func(x *vx.Conn) {
			if vc == nil {
				vc = x
			}
			x.OnFault = func(kind string) { vx.ObserveNoPoint("ev", "cause-begin "+kind) }
			// the server's side of the session: welcome, then two PINGs (so the client writes PONGs)
			x.Preload(welcome + "\r\n")
			x.Preload("PING :a\r\n")
			x.Preload("PING :b\r\n")
			for _, cs := range p.Causes {
				var k int
				if n, _ := fmt.Sscanf(cs, "readerr@%d", &k); n == 1 {
					x.ReadErrAt = k
				}
				if n, _ := fmt.Sscanf(cs, "writeerr@%d", &k); n == 1 {
					x.WriteErrAt = k
				}
			}
		}
		ctx := context.Background()
		var cancel context.CancelFunc
		if p.Ctx || needCancel {
			ctx, cancel = context.WithCancel(ctx)
		}
		var err error
		if p.Ctx || needCancel {
			err = c.ConnectContext(ctx)
		} else {
			err = c.Connect()
		}
		vx.Observe("ev", fmt.Sprintf("connect-ret ok=%v", err == nil))
		if err != nil {
			return
		}
		done := vx.NewCounter("causes-done")
		ntasks := 0
		for i, cs := range p.Causes {
			cs := cs
			switch {
			case cs == "close":
				ntasks++
				env.Go(fmt.Sprintf("closer%d", i), func() {
					vx.Observe("ev", "cause-begin close")
					c.Close()
					vx.Observe("ev", "close-ret")
					if p.Extra == "close-then-connect" && i == 0 {
						// the same goroutine connects again as soon as Close has returned: the first connection's
						// DISCONNECTED handlers are over by then
						e2 := c.Connect()
						vx.Observe("ev", fmt.Sprintf("connect2-ret ok=%v", e2 == nil))
					}
					done.Add(1)
				})
			case cs == "eof":
				ntasks++
				env.Go("server-eof", func() {
					vx.Observe("ev", "cause-begin eof-sent")
					vc.EOF()
					done.Add(1)
				})
			case cs == "cancel":
				ntasks++
				env.Go("canceller", func() {
					vx.Observe("ev", "cause-begin cancel")
					cancel()
					done.Add(1)
				})
			}
		}
		if p.Extra == "reconnect" {
			ntasks++
			env.Go("reconnector", func() {
				e2 := c.Connect()
				vx.Observe("ev", fmt.Sprintf("connect2-ret ok=%v", e2 == nil))
				done.Add(1)
			})
		}
		done.WaitFor(ntasks)
		vx.Quiesce()
		// whatever is still up is ended by the server now, so that every established connection ends
		for i, x := range env.Conns() {
			if !x.ClosedLocal() {
				vx.Observe("ev", fmt.Sprintf("final-eof conn%d", i))
				x.EOF()
			}
		}
		if p.FloodCtl && p.Extra != "" {
			// the flood penalty carries over to the second connection: its send goroutine may be holding a line
			// back (a timer); quiescence alone does not wait for timers
			vx.Sleep(time.Minute)
		}
		vx.Quiesce()
		vx.Observe("ev", fmt.Sprintf("end connected=%v", c.Connected()))
	}
	sc.Check = func(o *vx.Outcome) []explore.Finding {
		if o.Kind == "deadlock" {
			pr := o.Log("probe")
			if count(pr, "enter") > count(pr, "exit") {
				return []explore.Finding{{Oracle: "teardown-stuck-handler-in-Connected()", Msg: "a handler that called Connected() while a disconnect was in progress never returned and the disconnect never completed; blocked: " + o.BlockedSig()}}
			}
		}
		if fs := stdOutcome(o); fs != nil {
			return fs
		}
		var fs []explore.Finding
		ev := o.Log("ev")
		connects := count(ev, "connect-ret ok=true") + count(ev, "connect2-ret ok=true")
		second := count(ev, "connect2-ret ok=true") > 0
		if n := count(ev, "REGISTER"); n != connects {
			fs = append(fs, explore.Finding{"register-count", fmt.Sprintf("%d REGISTER events for %d successful connects", n, connects)})
		}
		// REGISTER before the first Connect returns
		for _, r := range ev {
			if strings.HasPrefix(r, "REGISTER") {
				break
			}
			if strings.HasPrefix(r, "connect-ret ok=true") {
				fs = append(fs, explore.Finding{"register-late", "Connect returned before REGISTER was dispatched"})
				break
			}
		}
		if n := count(ev, "DISCONNECTED"); n != connects {
			fs = append(fs, explore.Finding{"disconnected-count", fmt.Sprintf("%d DISCONNECTED events for %d established connections (blocked: %s)", n, connects, o.BlockedSig())})
		}
		begun := false
		for _, r := range ev {
			switch {
			case strings.HasPrefix(r, "cause-begin"), strings.HasPrefix(r, "final-eof"):
				begun = true
			case strings.HasPrefix(r, "REGISTER") || strings.HasPrefix(r, "CONNECTED"):
				if !begun && strings.HasSuffix(r, "connected=false") {
					fs = append(fs, explore.Finding{"connected-false-early", "Connected() was false in a " + strings.Fields(r)[0] + " handler although no disconnect had begun"})
				}
			case strings.HasPrefix(r, "DISCONNECTED"):
				// Once the application has connected again, a DISCONNECTED handler of the previous connection that is
				// still running sees the new connection. That can happen with a concurrent re-Connect, and also with
				// Close-then-Connect from one goroutine when that Close lost the race against another cause: it returns
				// at once, the winner is still dispatching DISCONNECTED.
				excused := second && (p.Extra == "reconnect" || (p.Extra == "close-then-connect" && len(p.Causes) > 1))
				if !excused && strings.HasSuffix(r, "connected=true") {
					fs = append(fs, explore.Finding{"connected-true-in-disconnected", "Connected() was true inside a DISCONNECTED handler"})
				}
			}
		}
		if p.Extra == "close-in-disconnected" {
			if count(ev, "close-in-handler-ret err=<nil>") != connects || count(ev, "close-in-bg-handler-ret err=<nil>") != connects {
				fs = append(fs, explore.Finding{"close-in-disconnected-handler", "Close called from a DISCONNECTED handler (the client is not connected then) did not return nil once per handler: " + strings.Join(ev, "; ")})
			}
		}
		if p.Extra == "close-then-connect" && len(p.Causes) == 1 {
			// Close; Connect from one goroutine: everything of the first connection precedes everything of the second
			d1, r2, nreg := -1, -1, 0
			for i, r := range ev {
				if strings.HasPrefix(r, "DISCONNECTED") && d1 < 0 {
					d1 = i
				}
				if strings.HasPrefix(r, "REGISTER") {
					if nreg++; nreg == 2 {
						r2 = i
					}
				}
			}
			if count(ev, "connect2-ret ok=true") != 1 {
				fs = append(fs, explore.Finding{"reconnect-after-close-refused", "Connect right after Close returned was refused: " + strings.Join(ev, "; ")})
			} else if d1 < 0 || r2 < 0 || d1 > r2 {
				fs = append(fs, explore.Finding{"disconnected-after-close-returned", "the first connection's DISCONNECTED was delivered after Close had returned and the next Connect had dispatched REGISTER: " + strings.Join(ev, "; ")})
			}
		}
		if len(ev) > 0 && ev[len(ev)-1] != "end connected=false" {
			fs = append(fs, explore.Finding{"still-connected", "Connected() still true after every connection was ended: " + ev[len(ev)-1]})
		}
		if l := ClientLeaks(o); len(l) > 0 {
			fs = append(fs, explore.Finding{"leak", "client goroutines alive after all connections ended: " + strings.Join(l, " | ")})
		}
		return fs
	}
	return sc
}

// Refused / failing connects and no-op closes: sequential scenarios explored with a small budget.
func c06RefusedScenario(kind string) *explore.Scenario {
	full := kind
	direct := strings.HasSuffix(kind, "+direct")
	kind = strings.TrimSuffix(kind, "+direct")
	sc := &explore.Scenario{
		Family: "refused-connect",
		Name:   "refused-connect/" + full,
		Params: map[string]interface{}{"kind": full},
		Opt:    vx.Options{MaxSteps: 20000},
	}
	sc.Main = func(env *vx.Env) {
		c := NewClient("me", func(cfg *client.Config) {
			if kind == "no-server" {
				cfg.Server = ""
			}
			if direct {
				cfg.Proxy = ""
			}
			if strings.HasPrefix(kind, "tls-fail") {
				cfg.SSL = true
				cfg.SSLConfig = FailingTLS()
			}
		})
		rec := func(name string) client.HandlerFunc {
			return func(conn *client.Conn, line *client.Line) {
				vx.Observe("ev", fmt.Sprintf("%s connected=%v", name, conn.Connected()))
			}
		}
		c.HandleFunc(client.REGISTER, rec("REGISTER"))
		c.HandleFunc(client.CONNECTED, rec("CONNECTED"))
		c.HandleFunc(client.DISCONNECTED, rec("DISCONNECTED"))
		// a lifecycle handler that calls Connect (refused: the connection is up) or Close itself
		switch kind {
		case "connect-in-register", "connect-in-connected":
			evn := map[string]string{"connect-in-register": client.REGISTER, "connect-in-connected": client.CONNECTED}[kind]
			c.HandleFunc(evn, func(conn *client.Conn, line *client.Line) {
				err := conn.Connect()
				vx.Observe("ev", fmt.Sprintf("inner-connect-ret ok=%v", err == nil))
			})
		case "close-in-register":
			c.HandleFunc(client.REGISTER, func(conn *client.Conn, line *client.Line) {
				err := conn.Close()
				vx.Observe("ev", fmt.Sprintf("inner-close-ret err=%v connected=%v", err, conn.Connected()))
			})
		}
		var vc *vx.Conn
		env.ConnSetup = func(x *vx.Conn) {
			if vc == nil {
				vc = x
			}
			if strings.HasPrefix(kind, "tls-fail") && len(env.Conns()) == 1 {
				x.Preload(":irc.example NOTICE AUTH :*** plain text, not TLS\r\n")
			}
			x.Preload(welcome + "\r\n")
		}
		switch kind {
		case "no-server":
			err := c.Connect()
			vx.Observe("ev", fmt.Sprintf("connect-ret ok=%v", err == nil))
			vx.Observe("ev", fmt.Sprintf("state connected=%v", c.Connected()))
		case "dial-error", "tls-fail":
			if kind == "dial-error" {
				env.FailNextDial(errors.New("connection refused"))
			}
			err := c.Connect()
			vx.Observe("ev", fmt.Sprintf("connect-ret ok=%v", err == nil))
			vx.Observe("ev", fmt.Sprintf("state connected=%v", c.Connected()))
		case "dial-error-then-connect", "tls-fail-then-connect":
			// a failed attempt leaves the client usable: the next Connect works and has one full lifecycle
			if kind == "dial-error-then-connect" {
				env.FailNextDial(errors.New("connection refused"))
			}
			err := c.Connect()
			vx.Observe("ev", fmt.Sprintf("connect-ret ok=%v", err == nil))
			vx.Observe("ev", fmt.Sprintf("state connected=%v", c.Connected()))
			c.Config().SSL = false
			vc = nil
			err2 := c.Connect()
			vx.Observe("ev", fmt.Sprintf("connect-again-ret ok=%v", err2 == nil))
			vx.Quiesce()
			if err2 == nil && vc != nil {
				vc.SendLines("PING :sync")
				vx.Quiesce()
				got := false
				for _, l := range vc.Lines() {
					if NormLine(l) == "PONG :sync" {
						got = true
					}
				}
				vx.Observe("ev", fmt.Sprintf("pong-on-second-connection=%v", got))
				vc.EOF()
				vx.Quiesce()
			}
		case "close-never-connected":
			err := c.Close()
			vx.Observe("ev", fmt.Sprintf("close-ret err=%v", err))
		case "connect-in-register", "connect-in-connected":
			err := c.Connect()
			vx.Observe("ev", fmt.Sprintf("connect-ret ok=%v", err == nil))
			vx.Quiesce()
			vx.Observe("ev", fmt.Sprintf("state connected=%v", c.Connected()))
			vc.SendLines("PING :sync")
			vx.Quiesce()
			vx.Observe("ev", fmt.Sprintf("pong-after-refused-connect=%v", HasLine(vc.Lines(), "PONG :sync")))
			vc.EOF()
			vx.Quiesce()
		case "close-in-register":
			err := c.Connect()
			vx.Observe("ev", fmt.Sprintf("connect-ret ok=%v", err == nil))
			vx.Quiesce()
			vx.Observe("ev", fmt.Sprintf("state connected=%v", c.Connected()))
			// the client is usable afterwards: one more full connection
			vc = nil
			err2 := c.Connect()
			vx.Observe("ev", fmt.Sprintf("connect-again-ret ok=%v", err2 == nil))
			vx.Quiesce()
		case "already-connected":
			err := c.Connect()
			vx.Observe("ev", fmt.Sprintf("connect-ret ok=%v", err == nil))
			vx.Quiesce()
			err2 := c.Connect()
			vx.Observe("ev", fmt.Sprintf("connect-again-ret ok=%v", err2 == nil))
			vx.Observe("ev", fmt.Sprintf("state connected=%v", c.Connected()))
			// the existing connection must still work: a PING is answered
			vc.SendLines("PING :sync")
			vx.Quiesce()
			got := false
			for _, l := range vc.Lines() {
				if NormLine(l) == "PONG :sync" {
					got = true
				}
			}
			vx.Observe("ev", fmt.Sprintf("pong-after-refused-connect=%v", got))
			vc.EOF()
			vx.Quiesce()
			// Close on a disconnected client does nothing
			err3 := c.Close()
			vx.Observe("ev", fmt.Sprintf("close-after-disconnect err=%v", err3))
		}
		vx.Quiesce()
		vx.Observe("ev", fmt.Sprintf("end connected=%v dials=%d", c.Connected(), len(env.Conns())))
	}
	sc.Check = func(o *vx.Outcome) []explore.Finding {
		if fs := stdOutcome(o); fs != nil {
			return fs
		}
		var fs []explore.Finding
		ev := o.Log("ev")
		bad := func(id, msg string) { fs = append(fs, explore.Finding{id, msg + " :: " + strings.Join(ev, "; ")}) }
		switch kind {
		case "dial-error-then-connect", "tls-fail-then-connect":
			if count(ev, "connect-ret ok=false") != 1 || count(ev, "state connected=false") != 1 {
				bad("failing-connect-returned-nil", "the failing first Connect did not return an error / left Connected() true")
			}
			if count(ev, "connect-again-ret ok=true") != 1 || count(ev, "pong-on-second-connection=true") != 1 {
				bad("client-unusable-after-failed-connect", "after a failed Connect the next Connect does not give a working connection")
			}
			if count(ev, "REGISTER") != 1 || count(ev, "DISCONNECTED") != 1 || count(ev, "CONNECTED") != 1 {
				bad("event-count-after-failed-connect", "not exactly one REGISTER / CONNECTED / DISCONNECTED for the one established connection")
			}
		case "no-server", "dial-error", "tls-fail":
			if count(ev, "connect-ret ok=false") != 1 {
				bad("failing-connect-returned-nil", "a failing Connect did not return an error")
			}
			if count(ev, "REGISTER")+count(ev, "CONNECTED")+count(ev, "DISCONNECTED") != 0 {
				bad("event-on-failed-connect", "a failing Connect fired an event")
			}
			if count(ev, "state connected=false") != 1 {
				bad("connected-after-failed-connect", "Connected() true after a failing Connect")
			}
		case "close-never-connected":
			if count(ev, "DISCONNECTED") != 0 {
				bad("event-on-noop-close", "Close on a never-connected client fired DISCONNECTED")
			}
		case "connect-in-register", "connect-in-connected":
			if count(ev, "inner-connect-ret ok=false") != 1 {
				bad("second-connect-accepted", "Connect called from a lifecycle handler of a live connection did not return an error exactly once")
			}
			if count(ev, "REGISTER") != 1 || count(ev, "DISCONNECTED") != 1 || count(ev, "CONNECTED") != 1 {
				bad("event-count-after-refused-connect", "lifecycle events disturbed by a refused Connect")
			}
			if count(ev, "connect-ret ok=true") != 1 || count(ev, "state connected=true") != 1 || count(ev, "pong-after-refused-connect=true") != 1 {
				bad("refused-connect-broke-connection", "the connection is not up and answering PING after the handler's refused Connect")
			}
		case "close-in-register":
			// the handler closes each connection as soon as it is registered: two connects, two REGISTER, two DISCONNECTED
			if count(ev, "REGISTER") != 2 || count(ev, "DISCONNECTED") != 2 {
				bad("disconnected-count", fmt.Sprintf("%d REGISTER / %d DISCONNECTED events for two connections closed from their REGISTER handler", count(ev, "REGISTER"), count(ev, "DISCONNECTED")))
			}
			if count(ev, "state connected=false") != 1 || count(ev, "connect-again-ret ok=true") != 1 {
				bad("client-unusable-after-close", "after a Close from the REGISTER handler the client is still marked connected or cannot connect again")
			}
		case "already-connected":
			if count(ev, "connect-again-ret ok=false") != 1 {
				bad("second-connect-accepted", "Connect on a connected client did not return an error")
			}
			if count(ev, "REGISTER") != 1 || count(ev, "DISCONNECTED") != 1 || count(ev, "CONNECTED") != 1 {
				bad("event-count-after-refused-connect", "lifecycle events disturbed by a refused Connect")
			}
			if count(ev, "state connected=true") != 1 {
				bad("refused-connect-broke-connection", "Connected() false after a refused Connect")
			}
			if count(ev, "pong-after-refused-connect=true") != 1 {
				bad("refused-connect-broke-connection", "the existing connection no longer answers PING after a refused Connect")
			}
		}
		if l := ClientLeaks(o); len(l) > 0 {
			fs = append(fs, explore.Finding{"leak", "client goroutines alive at the end: " + strings.Join(l, " | ")})
		}
		return fs
	}
	return sc
}

func init() {
	Register(&Prop{
		ID:   "C06",
		Rule: "every execution, within the deviation budgets, of each lifecycle scenario = (1 or 2 coinciding disconnect causes from {Close, Close x2, server EOF, read error on read k, write error on write k, context cancel}) x configuration (tracking / client pings / flood control / context-aware connect) x optional concurrent re-Connect, plus refused/failing connects (also from inside a REGISTER / CONNECTED handler), Close from inside a REGISTER handler and no-op closes; REGISTER/CONNECTED/DISCONNECTED handlers sample Connected(); distinct = distinct canonical observation per scenario",
		Assumptions: []string{
			"interleavings are explored at synchronisation/channel/socket/timer granularity (DESIGN.md 3.8)",
			"a cause-begin record is logged no later than the moment the disconnect really begins, so the Connected()==true oracle is conservative",
		},
		Jobs: func(tier string) []Job {
			var jobs []Job
			singles := []string{"close", "eof", "readerr@1", "readerr@2", "readerr@3", "writeerr@1", "writeerr@2", "writeerr@3", "cancel"}
			type cfg struct{ t, p, f, c bool }
			cfgs := []cfg{{}, {t: true, f: true}, {p: true, c: true}, {t: true, p: true}, {f: true, c: true}}
			if tier == "thorough" {
				cfgs = nil
				for i := 0; i < 16; i++ {
					cfgs = append(cfgs, cfg{i&1 != 0, i&2 != 0, i&4 != 0, i&8 != 0})
				}
			}
			budgets := []explore.Budget{{0, 0}, {1, 0}, {2, 0}}
			pairBudgets := []explore.Budget{{0, 0}, {1, 0}}
			if tier == "thorough" {
				budgets = []explore.Budget{{0, 0}, {1, 0}, {2, 0}, {2, 1}, {3, 0}}
				pairBudgets = []explore.Budget{{0, 0}, {1, 0}, {2, 0}, {2, 1}}
			}
			add := func(p c06Params, bs []explore.Budget, cost int) {
				spec := ExploreSpec{Sc: c06Scenario(p), Variants: []int{1, 2, 3}, Budgets: bs, Cache: true}
				if len(jobs) == 0 {
					spec.CrossChk = &explore.Budget{K: 2} // cache-on vs cache-off on the first scenario
				}
				jobs = append(jobs, ExploreJob("C06", spec, cost))
				p.NoProbe = true
				jobs = append(jobs, ExploreJob("C06", ExploreSpec{Sc: c06Scenario(p), Variants: []int{1, 2, 3}, Budgets: bs, Cache: true}, cost))
			}
			for _, s := range singles {
				for _, c := range cfgs {
					add(c06Params{Causes: []string{s}, Tracking: c.t, Ping: c.p, FloodCtl: c.f, Ctx: c.c}, budgets, 20)
				}
			}
			all := append([]string{}, singles...)
			for i := 0; i < len(all); i++ {
				for j := i; j < len(all); j++ {
					a, b := all[i], all[j]
					if i == j && a != "close" {
						continue
					}
					if strings.HasPrefix(a, "readerr") && strings.HasPrefix(b, "readerr") {
						continue
					}
					if strings.HasPrefix(a, "writeerr") && strings.HasPrefix(b, "writeerr") {
						continue
					}
					add(c06Params{Causes: []string{a, b}}, pairBudgets, 10)
				}
			}
			for _, s := range []string{"close", "eof", "writeerr@2", "cancel"} {
				add(c06Params{Causes: []string{s}, Extra: "reconnect"}, budgets, 25)
			}
			// Close called from inside DISCONNECTED handlers (foreground and background)
			for _, s := range []string{"close", "eof", "writeerr@2", "cancel"} {
				add(c06Params{Causes: []string{s}, Extra: "close-in-disconnected"}, budgets, 20)
			}
			add(c06Params{Causes: []string{"close", "eof"}, Extra: "close-in-disconnected"}, pairBudgets, 20)
			// Close, then Connect again from the same goroutine
			for _, c := range cfgs {
				add(c06Params{Causes: []string{"close"}, Extra: "close-then-connect", Tracking: c.t, Ping: c.p, FloodCtl: c.f, Ctx: c.c}, budgets, 25)
			}
			add(c06Params{Causes: []string{"close", "eof"}, Extra: "close-then-connect"}, pairBudgets, 25)
			// without a proxy: internalConnect's own dial
			for _, s := range singles {
				add(c06Params{Causes: []string{s}, Direct: true}, budgets, 20)
			}
			add(c06Params{Causes: []string{"close"}, Extra: "reconnect", Direct: true}, budgets, 25)
			for _, k := range []string{"no-server", "dial-error", "close-never-connected", "already-connected",
				"dial-error+direct", "already-connected+direct", "tls-fail", "tls-fail+direct", "dial-error-then-connect", "dial-error-then-connect+direct", "tls-fail-then-connect", "tls-fail-then-connect+direct",
				"connect-in-register", "connect-in-connected", "close-in-register"} {
				jobs = append(jobs, ExploreJob("C06", ExploreSpec{Sc: c06RefusedScenario(k), Variants: []int{1, 2, 3}, Budgets: []explore.Budget{{0, 0}, {1, 0}, {2, 0}}, Cache: true}, 5))
			}
			return jobs
		},
	})
}
