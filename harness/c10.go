package harness

import (
	"fmt"
	"sort"
	"strings"
	"time"

	"github.com/fluffle/goirc/client"

	"verif/vx"
)

// C10: flood protection follows Hybrid's penalty rule.
//
// One session = a fresh client (created and connected at virtual time 0, so
// the two registration lines are part of every history) and a single user task
// that issues letters (gap, length): vx.Sleep(gap); c.Raw(<length bytes>).
// The only observation is the wire: (line, virtual time of the socket write).
// The penalty itself is never read.
//
//   pass 1 "flat"     all histories up to a depth over a small alphabet, write
//                     times compared exactly with the reference model
//                     (c10_model.go), plus hand-placed threshold probes
//   pass 2 "closure"  breadth-first over the model's reachable penalty values,
//                     every letter of the full alphabet applied to one shortest
//                     history per value, each transition run on the real client
//   pass 3 "delays"   back-pressure on the socket (the server drains the pipe
//                     delta after each line) delays the write of the next line
//                     and hence the next accounting; oracle: the statement's
//                     delay-independent window bound (and the model extended
//                     with the socket's release times)
//   pass 4 "flood-off" cfg.Flood = true: nothing is ever delayed; and with the
//                     flag flipped by the user task at each position

type c10Letter struct {
	Gap int64 // ns
	Len int   // bytes
}

func (l c10Letter) String() string { return fmt.Sprintf("(%v,%d)", time.Duration(l.Gap), l.Len) }

const c10Frac = c10Sec / 120 // 1/120 s, floored: 8333333 ns

var (
	c10GapsQuick = []int64{0, 2 * c10Sec, 2*c10Sec + c10Frac, 10 * c10Sec}
	c10LensQuick = []int{0, 60, 510}
	c10GapsFull  = []int64{0, c10Sec, 2 * c10Sec, 2*c10Sec + c10Frac, 2500 * c10Sec / 1000, 6250 * c10Sec / 1000, 10 * c10Sec, 60 * c10Sec}
	c10LensFull  = []int{0, 1, 60, 120, 510}
	c10DelayMenu = []int64{0, c10Sec / 2, 3 * c10Sec, 11 * c10Sec}
)

func c10Alphabet(gaps []int64, lens []int) []c10Letter {
	var a []c10Letter
	for _, g := range gaps {
		for _, n := range lens {
			a = append(a, c10Letter{g, n})
		}
	}
	return a
}

func c10InQuick(l c10Letter) bool {
	okg, okl := false, false
	for _, g := range c10GapsQuick {
		okg = okg || g == l.Gap
	}
	for _, n := range c10LensQuick {
		okl = okl || n == l.Len
	}
	return okg && okl
}

// c10Line builds the k-th user line with exactly n bytes, free of CR/LF.
func c10Line(k, n int) string { return c10ShapedLine("", k, n) }

// c10ShapedLine: exactly n bytes that begin with (as much as fits of) the given text; the charge depends on
// the length alone, whatever the line says.
func c10ShapedLine(shape string, k, n int) string {
	if n == 0 {
		return ""
	}
	if shape == "" {
		return string(rune('A'+k%26)) + strings.Repeat("a", n-1)
	}
	if shape == "€*" {
		// multi-byte text: the charge is per byte on the wire, not per rune
		return strings.Repeat("€", n/3) + strings.Repeat("a", n%3)
	}
	if n <= len(shape) {
		return shape[:n]
	}
	return shape + strings.Repeat(string(rune('a'+k%26)), n-len(shape))
}

var c10Shapes = []string{"PASS ", "PASS", "pass ", "PRIVMSG #c :", "NICK ", "PONG :", "\x01", "QUIT :", "€*"}

var c10RegLines = []string{"NICK me", "USER ident 12 * :Real Name"}

// ---------------------------------------------------------------- one case

type c10Case struct {
	Pass   string      // flat | threshold | closure | delays | flood-off
	Hist   []c10Letter // the user task's letters
	Flood  bool        // initial cfg.Flood (false = protection on)
	Toggle int         // p >= 1: cfg.Flood is flipped just before letter p is issued (1-based); 0 = never
	Shape  string      // what the user lines begin with ("" = a letter and filler)
	Delays []int64     // nil = no back-pressure; else Delays[k] is slept by the server after line k of the wire (0 = NICK, 1 = USER, 2.. = user lines) before it frees the pipe
}

func (cs *c10Case) Text() string {
	var sb strings.Builder
	sb.WriteString("history=[")
	for i, l := range cs.Hist {
		if i > 0 {
			sb.WriteString(" ")
		}
		sb.WriteString(l.String())
	}
	sb.WriteString("]")
	if cs.Shape != "" {
		fmt.Fprintf(&sb, " lines-begin-with=%q", cs.Shape)
	}
	if cs.Flood {
		sb.WriteString(" Flood=true")
	}
	if cs.Toggle > 0 {
		fmt.Fprintf(&sb, " flip-before-letter=%d", cs.Toggle)
	}
	if cs.Delays != nil {
		sb.WriteString(" drain-delays=[")
		for i, d := range cs.Delays {
			if i > 0 {
				sb.WriteString(" ")
			}
			sb.WriteString(time.Duration(d).String())
		}
		sb.WriteString("]")
	}
	return sb.String()
}

func (cs *c10Case) Params() map[string]interface{} {
	h := make([][2]int64, len(cs.Hist))
	for i, l := range cs.Hist {
		h[i] = [2]int64{l.Gap, int64(l.Len)}
	}
	p := map[string]interface{}{"pass": cs.Pass, "history_ns_len": h, "flood": cs.Flood, "toggle": cs.Toggle}
	if cs.Delays != nil {
		p["delays_ns"] = cs.Delays
	}
	if cs.Shape != "" {
		p["shape"] = cs.Shape
	}
	return p
}

func c10CaseFromParams(p map[string]interface{}) (*c10Case, error) {
	cs := &c10Case{}
	cs.Pass, _ = p["pass"].(string)
	cs.Flood, _ = p["flood"].(bool)
	cs.Shape, _ = p["shape"].(string)
	if f, ok := p["toggle"].(float64); ok {
		cs.Toggle = int(f)
	}
	hs, ok := p["history_ns_len"].([]interface{})
	if !ok {
		return nil, fmt.Errorf("no history in params")
	}
	for _, x := range hs {
		pr, ok := x.([]interface{})
		if !ok || len(pr) != 2 {
			return nil, fmt.Errorf("bad letter %v", x)
		}
		g, _ := pr[0].(float64)
		n, _ := pr[1].(float64)
		cs.Hist = append(cs.Hist, c10Letter{int64(g), int(n)})
	}
	if ds, ok := p["delays_ns"].([]interface{}); ok {
		cs.Delays = []int64{}
		for _, d := range ds {
			f, _ := d.(float64)
			cs.Delays = append(cs.Delays, int64(f))
		}
	}
	return cs, nil
}

// c10Obs is what one session showed.
type c10Obs struct {
	Kind     string
	Crash    string
	Err      string
	Issue    []int64 // per letter: virtual time at which Raw was called
	IssueRet []int64 // per letter: virtual time at which Raw returned
	FlipAt   int64   // virtual time of the flip (-1: none)
	Data     []string
	At       []int64
}

const c10Tail = 10 * time.Minute

// c10Exec runs one session.
func c10Exec(cs *c10Case) *c10Obs {
	obs := &c10Obs{FlipAt: -1}
	nLines := len(cs.Hist) + len(c10RegLines)
	o := RunSeq(vx.Options{Horizon: 2 * time.Hour, MaxSteps: 100000}, func(env *vx.Env) {
		if cs.Delays != nil {
			env.ConnSetup = func(vc *vx.Conn) {
				// every write fills the pipe; the next one waits for the server
				vc.PipeCap = 1
				env.Go("server", func() {
					vx.MarkByDesign()
					for k := 0; k < nLines; k++ {
						if !vc.WaitLines(k + 1) {
							return
						}
						if k < len(cs.Delays) && cs.Delays[k] > 0 {
							vx.Sleep(time.Duration(cs.Delays[k]))
						}
						vc.Drain(1 << 20)
					}
				})
			}
		}
		s, err := StartSession(env, "me", func(cfg *client.Config) { cfg.Flood = cs.Flood }, nil)
		if err != nil {
			obs.Err = err.Error()
			return
		}
		for p, l := range cs.Hist {
			vx.Sleep(time.Duration(l.Gap))
			if cs.Toggle == p+1 {
				cfg := s.C.Config()
				cfg.Flood = !cfg.Flood
				obs.FlipAt = int64(env.Now())
			}
			obs.Issue = append(obs.Issue, int64(env.Now()))
			s.C.Raw(c10ShapedLine(cs.Shape, p, l.Len))
			obs.IssueRet = append(obs.IssueRet, int64(env.Now()))
		}
		vx.Sleep(c10Tail)
	})
	obs.Kind = o.Kind
	if o.Crash != nil {
		obs.Crash = o.Crash.Task + ": panic: " + o.Crash.Value + " @ " + o.Crash.Top
	}
	if len(o.Conns) > 0 {
		for _, w := range o.Conns[0].Writes {
			obs.Data = append(obs.Data, w.Data)
			obs.At = append(obs.At, int64(w.At))
		}
	}
	return obs
}

type c10Finding struct {
	Oracle string
	Msg    string
}

// c10Stats are per-job coverage counters (all measured).
type c10Stats struct {
	Lines     int64 // lines whose write time was compared with a prediction / a bound
	Held      int64 // lines the model holds
	HeldCases int64 // cases with at least one held line
	Boundary  int64 // lines accounted with the penalty exactly 10 s (not held)
	JustOver  int64 // lines accounted with the penalty in (10 s, 10 s + 1/120 s]
	Floored   int64 // accountings where the floor at zero was the binding term
	Pushed    int64 // lines whose write was delayed by back-pressure beyond accounting + hold
	MaxB      int64
}

func (st *c10Stats) note() string {
	return fmt.Sprintf("lines compared=%d; model: held lines=%d in %d cases, penalty==10s exactly (not held)=%d, penalty in (10s,10s+1/120s]=%d, floor-at-zero binding=%d, writes pushed by back-pressure=%d, max penalty=%v",
		st.Lines, st.Held, st.HeldCases, st.Boundary, st.JustOver, st.Floored, st.Pushed, time.Duration(st.MaxB))
}

// c10Inputs: the lines offered to the send path, registration first.
func c10Inputs(cs *c10Case, obs *c10Obs) []c10In {
	in := make([]c10In, 0, len(cs.Hist)+2)
	for _, l := range c10RegLines {
		in = append(in, c10In{Issue: 0, N: len(l)})
	}
	for p, l := range cs.Hist {
		in = append(in, c10In{Issue: obs.Issue[p], N: l.Len})
	}
	return in
}

func c10Expected(cs *c10Case) []string {
	exp := append([]string{}, c10RegLines...)
	for p, l := range cs.Hist {
		exp = append(exp, c10ShapedLine(cs.Shape, p, l.Len))
	}
	return exp
}

func c10Short(s string) string {
	if len(s) > 24 {
		return fmt.Sprintf("%s...(%d bytes)", s[:12], len(s))
	}
	return s
}

// c10Shape checks that the wire is the expected sequence of lines, one write
// per line. A line that has not been written 10 minutes after it was issued is
// a C10 failure (a hold lasts one charge, at most 6.25 s here); anything else
// means the harness's assumptions about the wire do not hold.
func c10Shape(cs *c10Case, obs *c10Obs) *c10Finding {
	if obs.Err != "" {
		return &c10Finding{"harness-connect", "Connect failed: " + obs.Err}
	}
	if obs.Kind == "crash" {
		return &c10Finding{"crash", obs.Crash}
	}
	if obs.Kind != "ok" {
		return &c10Finding{"harness-" + obs.Kind, "session ended with outcome " + obs.Kind}
	}
	exp := c10Expected(cs)
	for k, e := range exp {
		if k >= len(obs.Data) {
			return &c10Finding{"never-written", fmt.Sprintf("line %d (%s) was not written within %v of the last send; %d of %d lines on the wire", k, Q(c10Short(e)), c10Tail, len(obs.Data), len(exp))}
		}
		if obs.Data[k] != e+"\r\n" {
			return &c10Finding{"harness-wire-shape", fmt.Sprintf("write %d is %s, expected line %s + CRLF", k, Q(c10Short(obs.Data[k])), Q(c10Short(e)))}
		}
	}
	if len(obs.Data) > len(exp) {
		return &c10Finding{"harness-wire-shape", fmt.Sprintf("%d writes for %d lines", len(obs.Data), len(exp))}
	}
	return nil
}

func c10Timeline(cs *c10Case, obs *c10Obs, in []c10In, steps []c10Step) string {
	var sb strings.Builder
	sb.WriteString(cs.Text())
	sb.WriteString("\n  line  bytes  issued        charge        | model: dequeued      penalty       hold          written      | observed write")
	exp := c10Expected(cs)
	for k := range in {
		ob := "-"
		if k < len(obs.At) {
			ob = time.Duration(obs.At[k]).String()
		}
		mark := ""
		if steps != nil && k < len(obs.At) && obs.At[k] != steps[k].W {
			mark = "   <-- differs"
		}
		if steps != nil {
			s := steps[k]
			fmt.Fprintf(&sb, "\n  %-5d %-6d %-13v %-13v | %-20v %-13v %-13v %-12v | %v%s   %s", k, in[k].N, time.Duration(in[k].Issue), time.Duration(c10Charge(in[k].N)),
				time.Duration(s.A), time.Duration(s.B), time.Duration(s.Hold), time.Duration(s.W), ob, mark, Q(c10Short(exp[k])))
		} else {
			fmt.Fprintf(&sb, "\n  %-5d %-6d %-13v %-13v | %-20s %-13s %-13s %-12s | %v   %s", k, in[k].N, time.Duration(in[k].Issue), time.Duration(c10Charge(in[k].N)), "", "", "", "", ob, Q(c10Short(exp[k])))
		}
	}
	if obs.FlipAt >= 0 {
		fmt.Fprintf(&sb, "\n  cfg.Flood flipped to %v at %v", !cs.Flood, time.Duration(obs.FlipAt))
	}
	return sb.String()
}

func c10CheckWindow(cs *c10Case, obs *c10Obs, in []c10In, from int, steps []c10Step) *c10Finding {
	w := obs.At[from:]
	n := make([]int, 0, len(w))
	for _, x := range in[from:] {
		n = append(n, x.N)
	}
	if i, j, ex, ok := c10Window(w, n); !ok {
		return &c10Finding{"window-bound", fmt.Sprintf("lines %d..%d of the wire: total charge exceeds (w_%d - w_%d) + 10s + the two largest charges by %v\n%s",
			from+i, from+j, from+j, from+i, time.Duration(ex), c10Timeline(cs, obs, in, steps))}
	}
	return nil
}

// c10JudgeProtected: Flood=false throughout (passes 1-3). Every write time is
// compared with the model; the window bound is checked on the observed times.
func c10JudgeProtected(cs *c10Case, obs *c10Obs, st *c10Stats) []c10Finding {
	if f := c10Shape(cs, obs); f != nil {
		return []c10Finding{*f}
	}
	in := c10Inputs(cs, obs)
	// with back-pressure, the socket accepts line k no earlier than the model's
	// write time of line k-1 plus the server's delay before draining
	var sim c10Sim
	steps := make([]c10Step, len(in))
	for k := range in {
		if cs.Delays != nil && k > 0 {
			d := int64(0)
			if k-1 < len(cs.Delays) {
				d = cs.Delays[k-1]
			}
			in[k].Release = steps[k-1].W + d
		}
		steps[k] = sim.Step(in[k])
	}
	var fs []c10Finding
	held := false
	for k, s := range steps {
		st.Lines++
		if s.Hold > 0 {
			st.Held++
			held = true
		}
		if s.B == c10Threshold {
			st.Boundary++
		}
		if s.B > c10Threshold && s.B <= c10Threshold+c10Frac+1 {
			st.JustOver++
		}
		if s.B == 0 {
			st.Floored++
		}
		if s.W > s.A+s.Hold {
			st.Pushed++
		}
		if s.B > st.MaxB {
			st.MaxB = s.B
		}
		if obs.At[k] != s.W && len(fs) == 0 {
			or := "write-late"
			what := "later"
			if obs.At[k] < s.W {
				or, what = "write-early", "earlier"
			}
			if cs.Delays != nil {
				or += "-under-delays"
			}
			fs = append(fs, c10Finding{or, fmt.Sprintf("line %d written at %v, %s than the model's %v (dequeued %v, penalty %v, hold %v)\n%s",
				k, time.Duration(obs.At[k]), what, time.Duration(s.W), time.Duration(s.A), time.Duration(s.B), time.Duration(s.Hold), c10Timeline(cs, obs, in, steps))})
		}
	}
	if held {
		st.HeldCases++
	}
	if f := c10CheckWindow(cs, obs, in, 0, steps); f != nil {
		fs = append(fs, *f)
	}
	return fs
}

// c10JudgeFlood: pass 4. Flood=true throughout, or flipped once by the user task.
func c10JudgeFlood(cs *c10Case, obs *c10Obs, st *c10Stats) []c10Finding {
	if f := c10Shape(cs, obs); f != nil {
		return []c10Finding{*f}
	}
	in := c10Inputs(cs, obs)
	nReg := len(c10RegLines)
	fail := func(or, msg string) []c10Finding {
		return []c10Finding{{or, msg + "\n" + c10Timeline(cs, obs, in, nil)}}
	}
	// dequeue time of line k given the observed completion of line k-1
	deq := func(k int) int64 {
		a := in[k].Issue
		if k > 0 && obs.At[k-1] > a {
			a = obs.At[k-1]
		}
		return a
	}
	switch {
	case cs.Toggle == 0:
		// Flood set: every write carries the timestamp at which the line was issued
		for k := range in {
			st.Lines++
			if obs.At[k] != in[k].Issue {
				return fail("flood-set-delayed", fmt.Sprintf("Flood=true: line %d issued at %v was written at %v", k, time.Duration(in[k].Issue), time.Duration(obs.At[k])))
			}
		}
	case !cs.Flood:
		// protection on, switched off (Flood := true) before letter p.
		// Lines dequeued strictly before the flip follow the model exactly;
		// lines issued after the flip, and lines dequeued strictly after it,
		// are written the moment the previous line's write completes (or at
		// once); a line dequeued at the very instant of the flip but issued
		// before it may have seen either value of the flag.
		m := c10Model{}
		exact := true // the model state is still known
		for k := range in {
			st.Lines++
			a := deq(k)
			afterFlip := k-nReg+1 >= cs.Toggle || a > obs.FlipAt
			switch {
			case afterFlip:
				if obs.At[k] != a {
					return fail("flood-set-delayed", fmt.Sprintf("line %d was dequeued at %v, after Flood was set at %v, but written at %v", k, time.Duration(a), time.Duration(obs.FlipAt), time.Duration(obs.At[k])))
				}
				exact = false
			case a < obs.FlipAt:
				if !exact {
					continue
				}
				hold := m.Account(a, in[k].N)
				if hold > 0 {
					st.Held++
				}
				if obs.At[k] != a+hold {
					return fail("write-time-before-flip", fmt.Sprintf("line %d (protection still on): written at %v, model says %v (dequeued %v, penalty %v, hold %v)", k, time.Duration(obs.At[k]), time.Duration(a+hold), time.Duration(a), time.Duration(m.B), time.Duration(hold)))
				}
			default: // tie: either reading
				L := c10Charge(in[k].N)
				if obs.At[k] != a && obs.At[k] != a+L {
					return fail("hold-not-own-charge", fmt.Sprintf("line %d dequeued at %v was written at %v: neither at once nor after its own charge %v", k, time.Duration(a), time.Duration(obs.At[k]), time.Duration(L)))
				}
				exact = false
			}
		}
	default:
		// Flood set, protection switched on (Flood := false) before letter p.
		// Lines dequeued strictly before the flip are written at once. For the
		// lines issued after it the statement does not say what the penalty is
		// when protection is switched on, so only what holds for any starting
		// penalty is demanded: a hold is zero or the line's own charge, and
		// the window bound over the protected suffix.
		// Unless a line issued before the flip was dequeued at its very instant (a
		// tie, where the flag may have been read either way), the penalty at the
		// moment protection is switched on is known: lines written while Flood was
		// set were never charged, and the penalty - zero since the client was
		// created - has been decaying in real time all along. From there on the
		// write times follow the model exactly.
		first := -1
		m := c10Model{}
		exact := true
		for k := range in {
			st.Lines++
			a := deq(k)
			user := k - nReg + 1
			switch {
			case user >= cs.Toggle:
				if first < 0 {
					first = k
				}
				if exact {
					hold := m.Account(a, in[k].N)
					if hold > 0 {
						st.Held++
					}
					if obs.At[k] != a+hold {
						return fail("write-time-after-switch-on", fmt.Sprintf("line %d (protection switched on at %v): written at %v, model says %v (dequeued %v, penalty %v, hold %v); lines sent while Flood was set are not charged and the penalty keeps decaying in real time", k, time.Duration(obs.FlipAt), time.Duration(obs.At[k]), time.Duration(a+hold), time.Duration(a), time.Duration(m.B), time.Duration(hold)))
					}
					continue
				}
				L := c10Charge(in[k].N)
				if obs.At[k] != a && obs.At[k] != a+L {
					return fail("hold-not-own-charge", fmt.Sprintf("line %d dequeued at %v was written at %v: neither at once nor after its own charge %v", k, time.Duration(a), time.Duration(obs.At[k]), time.Duration(L)))
				}
			case a < obs.FlipAt:
				if obs.At[k] != a {
					return fail("flood-set-delayed", fmt.Sprintf("Flood=true: line %d dequeued at %v was written at %v", k, time.Duration(a), time.Duration(obs.At[k])))
				}
			default:
				// issued before the flip, dequeued at its instant or later: either
				// reading; not part of the protected suffix for the window bound
				exact = false
				L := c10Charge(in[k].N)
				if obs.At[k] != a && obs.At[k] != a+L {
					return fail("hold-not-own-charge", fmt.Sprintf("line %d dequeued at %v was written at %v: neither at once nor after its own charge %v", k, time.Duration(a), time.Duration(obs.At[k]), time.Duration(L)))
				}
			}
		}
		if first >= 0 {
			if f := c10CheckWindow(cs, obs, in, first, nil); f != nil {
				return []c10Finding{*f}
			}
		}
	}
	return nil
}

func c10Judge(cs *c10Case, obs *c10Obs, st *c10Stats) []c10Finding {
	if cs.Pass == "flood-off" {
		return c10JudgeFlood(cs, obs, st)
	}
	return c10JudgeProtected(cs, obs, st)
}

// c10Eval runs and judges one case inside an enumeration job.
func c10Eval(e *Enum, st *c10Stats, cs *c10Case) {
	obs := c10Exec(cs)
	fs := c10Judge(cs, obs, st)
	e.Case(cs.Text())
	for _, f := range fs {
		e.Fail(cs.Pass, f.Oracle, cs.Text(), f.Msg, cs.Params())
	}
	if len(e.R.Samples) < 2 && len(fs) == 0 && len(cs.Hist) >= 2 {
		e.Sample(map[string]interface{}{"case": cs.Text(), "wire_write_times": c10Durs(obs.At)})
	}
}

func c10Durs(v []int64) []string {
	r := make([]string, len(v))
	for i, x := range v {
		r[i] = time.Duration(x).String()
	}
	return r
}

func c10Finish(e *Enum, st *c10Stats) *JobResult {
	e.R.Notes = append(e.R.Notes, st.note())
	r := e.Done()
	r.Transitions = st.Lines // lines whose write time was compared
	return r
}

// c10Walk enumerates all histories that extend prefix up to maxDepth letters
// (the prefix itself included), in a fixed order; f returns false to stop.
func c10Walk(prefix []c10Letter, alpha []c10Letter, maxDepth int, f func(h []c10Letter) bool) bool {
	if !f(prefix) {
		return false
	}
	if len(prefix) >= maxDepth {
		return true
	}
	for _, l := range alpha {
		h := append(append(make([]c10Letter, 0, len(prefix)+1), prefix...), l)
		if !c10Walk(h, alpha, maxDepth, f) {
			return false
		}
	}
	return true
}

func c10LetterName(l c10Letter) string {
	return fmt.Sprintf("g%v-n%d", time.Duration(l.Gap), l.Len)
}

// ---------------------------------------------------------------- pass 2: closure over the model's penalty values

type c10Node struct {
	Parent int       // index of the node this one extends (-1: the empty history)
	Letter c10Letter // the last letter
	Depth  int
	B      int64  // penalty right after the accounting of the last line
	sim    c10Sim // model state after the last line
	t      int64  // issue time of the last letter (cumulated gaps; the user task is assumed never to block)
}

func c10NodeHist(q []c10Node, i int) []c10Letter {
	h := make([]c10Letter, q[i].Depth)
	for ; q[i].Parent >= 0; i = q[i].Parent {
		h[q[i].Depth-1] = q[i].Letter
	}
	return h
}

// c10Closure: breadth-first over the model's penalty values right after an
// accounting, one shortest history per value, until no new value or limit
// values. The second result tells whether the frontier was exhausted (no new
// value reachable) before the limit.
func c10Closure(limit int) ([]c10Node, bool) {
	alpha := c10Alphabet(c10GapsFull, c10LensFull)
	seen := map[int64]bool{}
	root := c10Node{Parent: -1}
	for _, l := range c10RegLines {
		root.B = root.sim.Step(c10In{N: len(l)}).B
	}
	seen[root.B] = true
	q := []c10Node{root}
	for qi := 0; qi < len(q); qi++ {
		if len(q) >= limit {
			return q, false
		}
		for _, l := range alpha {
			n := c10Node{Parent: qi, Letter: l, Depth: q[qi].Depth + 1, sim: q[qi].sim, t: q[qi].t + l.Gap}
			n.B = n.sim.Step(c10In{Issue: n.t, N: l.Len}).B
			if !seen[n.B] && len(q) < limit {
				seen[n.B] = true
				q = append(q, n)
			}
		}
	}
	return q, true
}

// ---------------------------------------------------------------- pass 3: delay menus

// c10Menus enumerates all assignments of the menu to `slots` positions with at
// most maxNonZero non-zero entries.
func c10Menus(slots, maxNonZero int) [][]int64 {
	var out [][]int64
	cur := make([]int64, slots)
	var rec func(i, nz int)
	rec = func(i, nz int) {
		if i == slots {
			out = append(out, append([]int64{}, cur...))
			return
		}
		for _, d := range c10DelayMenu {
			if d != 0 && nz >= maxNonZero {
				continue
			}
			cur[i] = d
			n := nz
			if d != 0 {
				n++
			}
			rec(i+1, n)
		}
	}
	rec(0, 0)
	return out
}

// ---------------------------------------------------------------- jobs

func c10Jobs(tier string) []Job {
	thorough := tier == "thorough"
	quickAlpha := c10Alphabet(c10GapsQuick, c10LensQuick)
	fullAlpha := c10Alphabet(c10GapsFull, c10LensFull)
	var jobs []Job

	stop := func(e *Enum, jc *JobCtx) bool {
		if e.TooMany() {
			e.Incomplete("too many distinct violations")
			return true
		}
		if jc.Expired() {
			e.Incomplete("deadline")
			return true
		}
		return false
	}

	// ---- pass 1: flat, quick alphabet, split by the first two letters
	flatDepth := 4
	if thorough {
		flatDepth = 6
	}
	for i1, l1 := range quickAlpha {
		for i2, l2 := range quickAlpha {
			l1, l2, i2 := l1, l2, i2
			_ = i1
			name := fmt.Sprintf("p1-flat/%s/%s", c10LetterName(l1), c10LetterName(l2))
			cost := 1
			if thorough {
				cost = 60
			}
			jobs = append(jobs, Job{Name: name, Cost: cost, Run: func(jc *JobCtx) *JobResult {
				e := NewEnum(name)
				st := &c10Stats{}
				if i2 == 0 {
					c10Eval(e, st, &c10Case{Pass: "flat", Hist: []c10Letter{l1}})
				}
				c10Walk([]c10Letter{l1, l2}, quickAlpha, flatDepth, func(h []c10Letter) bool {
					c10Eval(e, st, &c10Case{Pass: "flat", Hist: h})
					return !stop(e, jc)
				})
				return c10Finish(e, st)
			}})
		}
	}
	// ---- pass 1c: what the lines say must not matter: the same enumeration with lines that begin like commands
	contentDepth := 3
	if thorough {
		contentDepth = 4
	}
	for _, shape := range c10Shapes {
		for _, l1 := range quickAlpha {
			shape, l1 := shape, l1
			name := fmt.Sprintf("p1-content/%q/%s", shape, c10LetterName(l1))
			jobs = append(jobs, Job{Name: name, Cost: 2, Run: func(jc *JobCtx) *JobResult {
				e := NewEnum(name)
				st := &c10Stats{}
				c10Eval(e, st, &c10Case{Pass: "flat", Shape: shape, Hist: []c10Letter{l1}})
				for _, l2 := range quickAlpha {
					if !c10Walk([]c10Letter{l1, l2}, quickAlpha, contentDepth, func(h []c10Letter) bool {
						c10Eval(e, st, &c10Case{Pass: "flat", Shape: shape, Hist: h})
						return !stop(e, jc)
					}) {
						break
					}
				}
				return c10Finish(e, st)
			}})
		}
	}
	// thorough: the full alphabet to depth 4, split by first letter and second gap
	if thorough {
		for _, l1 := range fullAlpha {
			for gi, g2 := range c10GapsFull {
				l1, g2, gi := l1, g2, gi
				name := fmt.Sprintf("p1-flat40/%s/g%v", c10LetterName(l1), time.Duration(g2))
				jobs = append(jobs, Job{Name: name, Cost: 25, Run: func(jc *JobCtx) *JobResult {
					e := NewEnum(name)
					st := &c10Stats{}
					skipped := 0
					run := func(h []c10Letter) bool {
						allQuick := true
						for _, l := range h {
							allQuick = allQuick && c10InQuick(l)
						}
						if allQuick {
							skipped++ // covered by the p1-flat jobs
							return true
						}
						c10Eval(e, st, &c10Case{Pass: "flat", Hist: h})
						return !stop(e, jc)
					}
					if gi == 0 {
						run([]c10Letter{l1})
					}
					for _, n2 := range c10LensFull {
						if !c10Walk([]c10Letter{l1, {g2, n2}}, fullAlpha, 4, run) {
							break
						}
					}
					e.R.Notes = append(e.R.Notes, fmt.Sprintf("%d histories lie in the 12-letter alphabet and are left to the p1-flat jobs", skipped))
					return c10Finish(e, st)
				}})
			}
		}
	}
	// threshold probes: penalty brought to 8 s, then one line whose accounting
	// lands on 10 s - 1 ns, 10 s, 10 s + 1 ns ..., then one more line
	jobs = append(jobs, Job{Name: "p1-threshold", Cost: 1, Run: func(jc *JobCtx) *JobResult {
		e := NewEnum("p1-threshold")
		st := &c10Stats{}
		for _, reset := range []c10Letter{{60 * c10Sec, 0}, {10 * c10Sec, 0}, {10 * c10Sec, 60}} {
			for _, fill := range []int{0, 60} {
				// after the reset letter the penalty is 0; four more lines at gap 0
				// bring it to P = 4 charges (8 s, or exactly 10 s: itself a boundary hit)
				L := c10Charge(fill)
				P := 4 * L
				base := []c10Letter{reset}
				for i := 0; i < 4; i++ {
					base = append(base, c10Letter{0, fill})
				}
				// the probe line of n bytes at gap g is accounted with penalty P + charge(n) - g
				for _, n := range []int{0, 1, 60, 120, 510} {
					target := P + c10Charge(n) - c10Threshold // gap that lands exactly on 10 s
					for _, d := range []int64{-2, -1, 0, 1, 2, c10Frac} {
						g := target + d
						if g < 0 {
							continue
						}
						for _, after := range []c10Letter{{0, 0}, {2 * c10Sec, 510}} {
							h := append(append([]c10Letter{}, base...), c10Letter{g, n}, after)
							c10Eval(e, st, &c10Case{Pass: "threshold", Hist: h})
						}
					}
				}
			}
		}
		return c10Finish(e, st)
	}})

	// ---- pass 2: closure
	limit, nj := 2000, 32
	if thorough {
		limit, nj = 20000, 64
	}
	for j := 0; j < nj; j++ {
		j := j
		name := fmt.Sprintf("p2-closure/%02d-of-%d", j, nj)
		cost := 10
		if thorough {
			cost = 40
		}
		jobs = append(jobs, Job{Name: name, Cost: cost, Run: func(jc *JobCtx) *JobResult {
			e := NewEnum(name)
			st := &c10Stats{}
			nodes, exhausted := c10Closure(limit)
			maxLen, values, blocked := 0, 0, 0
		loop:
			for i := j; i < len(nodes); i += nj {
				nd := nodes[i]
				base := c10NodeHist(nodes, i)
				values++
				for _, l := range fullAlpha {
					h := append(append(make([]c10Letter, 0, len(base)+1), base...), l)
					if len(h) > maxLen {
						maxLen = len(h)
					}
					cs := &c10Case{Pass: "closure", Hist: h}
					obs := c10Exec(cs)
					fs := c10Judge(cs, obs, st)
					// states of this pass = distinct penalty values whose 40 transitions were run
					e.Case(fmt.Sprintf("B=%d", nd.B))
					for _, f := range fs {
						e.Fail(cs.Pass, f.Oracle, cs.Text(), f.Msg, cs.Params())
					}
					for p := range obs.Issue {
						if p < len(obs.IssueRet) && obs.IssueRet[p] != obs.Issue[p] {
							blocked++
							break
						}
					}
					if stop(e, jc) {
						break loop
					}
				}
			}
			how := fmt.Sprintf("stopped at the limit of %d values", limit)
			if exhausted {
				how = "frontier exhausted: no new value reachable"
			}
			e.R.Notes = append(e.R.Notes, fmt.Sprintf("model closure: %d penalty values (%s); this job ran all 40 letters from %d of them; longest history %d letters; sessions in which the user task blocked on the full send queue (the reached penalty then differs from the BFS label; the comparison uses the measured issue times and stays exact): %d", len(nodes), how, values, maxLen, blocked))
			if len(nodes) > j {
				e.Sample(map[string]interface{}{"penalty_ns": nodes[j].B, "shortest_history": (&c10Case{Hist: c10NodeHist(nodes, j)}).Text()})
			}
			return c10Finish(e, st)
		}})
	}

	// ---- pass 3: delays by back-pressure, split by the first two letters
	for _, l1 := range quickAlpha {
		for i2, l2 := range quickAlpha {
			l1, l2, i2 := l1, l2, i2
			name := fmt.Sprintf("p3-delays/%s/%s", c10LetterName(l1), c10LetterName(l2))
			cost := 8
			if thorough {
				cost = 50
			}
			jobs = append(jobs, Job{Name: name, Cost: cost, Run: func(jc *JobCtx) *JobResult {
				e := NewEnum(name)
				st := &c10Stats{}
				maxDepth := 3
				if thorough {
					maxDepth = 4
				}
				menus := map[int][][]int64{}
				for d := 1; d <= maxDepth; d++ {
					nz := d + 1 // all menus
					if d >= 4 {
						nz = 2 // depth 4: at most two non-zero delays
					}
					menus[d] = c10Menus(d+1, nz)
				}
				run := func(h []c10Letter) bool {
					for _, m := range menus[len(h)] {
						c10Eval(e, st, &c10Case{Pass: "delays", Hist: h, Delays: m})
						if stop(e, jc) {
							return false
						}
					}
					return true
				}
				if i2 == 0 {
					run([]c10Letter{l1})
				}
				c10Walk([]c10Letter{l1, l2}, quickAlpha, maxDepth, run)
				e.R.Notes = append(e.R.Notes, fmt.Sprintf("delay menu per line {0,0.5s,3s,11s}: all menus to depth 3 (%d at depth 3)%s", len(menus[3]),
					map[bool]string{true: fmt.Sprintf("; depth 4 with at most two non-zero delays (%d menus)", len(menus[4])), false: ""}[thorough]))
				return c10Finish(e, st)
			}})
		}
	}

	// ---- pass 4: flood off, and toggled, split by the first letter
	for _, l1 := range quickAlpha {
		l1 := l1
		name := fmt.Sprintf("p4-flood-off/%s", c10LetterName(l1))
		jobs = append(jobs, Job{Name: name, Cost: 3, Run: func(jc *JobCtx) *JobResult {
			e := NewEnum(name)
			st := &c10Stats{}
			c10Walk([]c10Letter{l1}, quickAlpha, 3, func(h []c10Letter) bool {
				c10Eval(e, st, &c10Case{Pass: "flood-off", Hist: h, Flood: true})
				for p := 1; p <= len(h); p++ {
					c10Eval(e, st, &c10Case{Pass: "flood-off", Hist: h, Flood: false, Toggle: p})
					c10Eval(e, st, &c10Case{Pass: "flood-off", Hist: h, Flood: true, Toggle: p})
				}
				return !stop(e, jc)
			})
			return c10Finish(e, st)
		}})
	}
	// ---- pass 5: Flood switched on AND off again in the middle of a burst. Differential: the same session with and
	// without lines written while Flood was set. Whether those lines are charged is not said; either way the
	// protected lines that follow are never written EARLIER for them (no line sent while Flood is set can take
	// penalty away).
	jobs = append(jobs, Job{Name: "p5-flood-on-and-off-again", Cost: 10, Run: func(jc *JobCtx) *JobResult {
		name := "p5-flood-on-and-off-again"
		e := NewEnum(name)
		run := func(n1, ln int, gap time.Duration, k, n2 int) (at []time.Duration, kind string) {
			o := RunSeq(vx.Options{Horizon: 24 * time.Hour}, func(env *vx.Env) {
				s, err := StartSession(env, "me", func(cfg *client.Config) { cfg.Flood = false }, nil)
				if err != nil {
					return
				}
				n := len(s.Wire())
				body := strings.Repeat("x", ln)
				for i := 0; i < n1; i++ {
					s.C.Raw(fmt.Sprintf("A%d %s", i, body))
				}
				s.VC.WaitLines(n + n1)
				vx.Sleep(gap)
				s.C.Config().Flood = true
				for i := 0; i < k; i++ {
					s.C.Raw(fmt.Sprintf("F%d %s", i, body))
				}
				s.VC.WaitLines(n + n1 + k)
				s.C.Config().Flood = false
				for i := 0; i < n2; i++ {
					s.C.Raw(fmt.Sprintf("B%d %s", i, body))
				}
				s.VC.WaitLines(n + n1 + k + n2)
				for _, l := range c18LinesAt(s.VC) {
					if strings.HasPrefix(l.Text, "B") {
						at = append(at, l.At)
					}
				}
				s.End()
			})
			return at, o.Kind
		}
		for _, n1 := range []int{4, 5, 6, 9} {
			for _, ln := range []int{0, 118, 500} {
				for _, gap := range []time.Duration{0, time.Second, 5 * time.Second} {
					for _, k := range []int{1, 3} {
						for _, n2 := range []int{1, 2, 4} {
							if stop(e, jc) {
								return e.Done()
							}
							in := fmt.Sprintf("%d protected lines of %d bytes, %s later Flood set, %d lines, Flood cleared, %d protected lines", n1, ln+3, gap, k, n2)
							e.Case(in)
							with, k1 := run(n1, ln, gap, k, n2)
							without, k2 := run(n1, ln, gap, 0, n2)
							params := map[string]interface{}{"pass": "flood-on-and-off-again", "n1": n1, "len": ln, "gap": gap.String(), "k": k, "n2": n2}
							if k1 != "ok" || k2 != "ok" || len(with) != n2 || len(without) != n2 {
								e.Fail("flood-toggle", "session-failed", in, fmt.Sprintf("the sessions ended %s / %s with %d / %d of the last lines written", k1, k2, len(with), len(without)), params)
								continue
							}
							for i := range with {
								if with[i] < without[i] {
									e.Fail("flood-toggle", "flood-lines-forgive-penalty", in, fmt.Sprintf("protected line %d after the toggle is written at %v; in the same session without the %d lines sent while Flood was set it is written at %v: lines that are never delayed took penalty away", i+1, with[i], k, without[i]), params)
									break
								}
							}
						}
					}
				}
			}
		}
		e.Sample("4 protected lines of 3 bytes, 0s later Flood set, 1 lines, Flood cleared, 1 protected lines")
		return e.Done()
	}})
	sort.SliceStable(jobs, func(a, b int) bool { return jobs[a].Cost > jobs[b].Cost })
	return jobs
}

func init() {
	Register(&Prop{
		ID: "C10",
		Rule: "A case is one session: a fresh client (created and connected at virtual time 0; NICK and USER are the first two lines of every history) and one user task issuing letters (gap, length) = Sleep(gap); Raw(length bytes); " +
			"gaps {0,1s,2s,2s+1/120s,2.5s,6.25s,10s,60s}, lengths {0,1,60,120,510}. Pass 1: every history to depth 4 (quick) / 6 (thorough) over 4 gaps x 3 lengths, thorough also all 40 letters to depth 4, the same to depth 3 (thorough 4) with lines that begin with PASS / pass / PRIVMSG #c : / NICK / PONG : / \\x01 / QUIT : instead of filler, or that consist of three-byte UTF-8 characters (pass 1c), plus threshold probes landing the penalty on 10s-2ns..10s+2ns; " +
			"pass 2: breadth-first closure of the model's penalty values, all 40 letters from one shortest history per value (distinct = penalty values); pass 3: pass-1 histories to depth 3 (thorough 4) x every menu of socket drain delays {0,0.5s,3s,11s} per line; " +
			"pass 4: histories to depth 3 with Flood=true, and with Flood flipped before each letter in both directions. Distinct = distinct (history, delays, flood) cases, except pass 2. transitions = wire lines whose write time was compared.",
		Assumptions: []string{
			"default (run-to-block, time advances only when nothing can run) schedule: the send goroutine dequeues a line at max(issue time, completion of the previous write); scheduling delays are represented by socket back-pressure between accounting and write (pass 3), not between the two clock reads inside the accounting",
			"charge is computed on the line without CRLF; the threshold is strict (> 10 s); accounting is B := max(0, B + L - elapsed) as in DESIGN.md Appendix D",
			"when protection is switched on mid-session (Flood true -> false) the statement does not define the starting penalty: only 'hold is 0 or the own charge' and the window bound are demanded there",
		},
		Jobs: c10Jobs,
	})
	prev := replayInput
	replayInput = func(v *Violation) int {
		if v.Property != "C10" {
			if prev != nil {
				return prev(v)
			}
			fmt.Println("violation has no schedule; input:", v.Input)
			return 0
		}
		cs, err := c10CaseFromParams(v.Params)
		if err != nil {
			fmt.Println("cannot rebuild the case:", err)
			return 2
		}
		obs := c10Exec(cs)
		fs := c10Judge(cs, obs, &c10Stats{})
		if len(obs.Issue) == len(cs.Hist) {
			if in := c10Inputs(cs, obs); len(obs.At) == len(in) {
				fmt.Println(c10Timeline(cs, obs, in, nil))
			}
		}
		for _, f := range fs {
			fmt.Printf("FINDING oracle=%s %s\n", f.Oracle, f.Msg)
		}
		for _, f := range fs {
			if f.Oracle == v.Oracle {
				fmt.Println("REPRODUCED")
				return 1
			}
		}
		fmt.Println("NOT REPRODUCED")
		return 0
	}
}
