package harness

import (
	"fmt"
	"sort"
	"strings"
	"time"

	"github.com/fluffle/goirc/client"

	"verif/explore"
	"verif/vx"
)

// C04: every registered handler runs exactly once per matching event.
//
// Histories of top-level operations (register a foreground / background handler
// under a name in some letter case, remove the i-th registered handler,
// incoming event). A handler may carry a script that it executes when it runs:
// remove itself, remove the most recently registered live handler of its own
// set, register a new handler in its own set, register a new handler in the
// other set. Reference model: per set, the live handlers keyed by lower-cased
// name; an event invokes once each the handlers live under its name when it
// arrives; in-handler mutations of the handler's own set do not affect the
// current event; a handler added to the *other* set during an event may or may
// not see that event (its dispatch may or may not have snapshotted yet).

type c04Op struct {
	Kind   string // reg | rm | ev
	Set    string // fg | bg
	Via    string // Handle | HandleFunc | HandleBG
	Name   string
	Script string // "" | rmself | rmprev | addsame | addother
	Idx    int    // rm: 0 first, 1 second, -1 last registered handler
}

func (o c04Op) String() string {
	switch o.Kind {
	case "reg":
		s := o.Via + "(" + o.Name + ")"
		if o.Script != "" {
			s += "{" + o.Script + "}"
		}
		return s
	case "rm":
		return fmt.Sprintf("Remove(#%d)", o.Idx)
	}
	return "Event(" + o.Name + ")"
}

func c04HistString(h []c04Op) string {
	var ss []string
	for _, o := range h {
		ss = append(ss, o.String())
	}
	return strings.Join(ss, " ")
}

type c04H struct {
	id     int
	set    string
	name   string // lower-cased
	script string
	rem    client.Remover
	// real
	removed bool // its Remover has been used
	count   int  // invocations during the current event
	// model
	alive       bool
	addedDuring string // "" | same | cross : registered by a script during the current event
}

type c04World struct {
	c      *client.Conn
	hs     []*c04H
	yields bool
}

func (w *c04World) register(set, via, name, script string, during string) *c04H {
	h := &c04H{id: len(w.hs), set: set, name: strings.ToLower(name), script: script, alive: true, addedDuring: during}
	w.hs = append(w.hs, h)
	f := func(conn *client.Conn, line *client.Line) { w.run(h) }
	switch via {
	case "HandleFunc":
		h.rem = w.c.HandleFunc(name, f)
	case "HandleBG":
		h.rem = w.c.HandleBG(name, client.HandlerFunc(f))
	default:
		h.rem = w.c.Handle(name, client.HandlerFunc(f))
	}
	return h
}

func (w *c04World) remove(h *c04H) {
	if h.removed {
		return // each Remover is used at most once
	}
	h.removed = true
	h.alive = false
	h.rem.Remove()
}

// run is the body of every handler.
func (w *c04World) run(h *c04H) {
	h.count++
	if w.yields {
		vx.Yield()
	}
	switch h.script {
	case "rmself":
		w.remove(h)
	case "rmprev":
		for i := h.id - 1; i >= 0; i-- {
			if p := w.hs[i]; p.set == h.set && !p.removed {
				w.remove(p)
				break
			}
		}
	case "rmnext":
		// removes a LATER sibling, which was registered when this event was dispatched and therefore still runs for it
		for i := h.id + 1; i < len(w.hs); i++ {
			if p := w.hs[i]; p.set == h.set && p.name == h.name && !p.removed {
				w.remove(p)
				break
			}
		}
	case "rmnextadd":
		// removes a later sibling (it still runs for this event) and, in the same call, registers a handler in its own
		// set under a name the event does not have: whatever storage the removal freed is not the sibling's any more
		for i := h.id + 1; i < len(w.hs); i++ {
			if p := w.hs[i]; p.set == h.set && p.name == h.name && !p.removed {
				w.remove(p)
				break
			}
		}
		if len(w.hs) < 16 {
			via := "Handle"
			if h.set == "bg" {
				via = "HandleBG"
			}
			w.register(h.set, via, "baz", "", "same")
		}
	case "addsame":
		if len(w.hs) < 16 {
			via := "Handle"
			if h.set == "bg" {
				via = "HandleBG"
			}
			w.register(h.set, via, h.name, "", "same")
		}
	case "addother":
		if len(w.hs) < 16 {
			if h.set == "bg" {
				w.register("fg", "Handle", h.name, "", "cross")
			} else {
				w.register("bg", "HandleBG", h.name, "", "cross")
			}
		}
	}
	if w.yields {
		vx.Yield()
	}
}

// c04Exec runs the history on a connected session and returns the first
// disagreement with the model ("" = none) and the number of events compared.
func c04Exec(s *Sess, hist []c04Op, yields bool) (string, int) {
	w := &c04World{c: s.C, yields: yields}
	events := 0
	for step, op := range hist {
		switch op.Kind {
		case "reg":
			w.register(op.Set, op.Via, op.Name, op.Script, "")
		case "rm":
			i := op.Idx
			if i < 0 {
				i = len(w.hs) - 1
			}
			if i >= 0 && i < len(w.hs) {
				w.remove(w.hs[i])
			}
		case "ev":
			aliveAt := make([]bool, len(w.hs))
			for i, h := range w.hs {
				aliveAt[i] = h.alive
				h.count = 0
				h.addedDuring = ""
			}
			narr := len(w.hs)
			s.Feed(":o!u@h " + op.Name)
			events++
			lname := strings.ToLower(op.Name)
			for i, h := range w.hs {
				lo, hi := 0, 0
				switch {
				case h.name != lname:
				case i >= narr: // registered during this event
					if h.addedDuring == "cross" {
						hi = 1
					}
				case aliveAt[i]:
					lo, hi = 1, 1
				}
				if h.count < lo || h.count > hi {
					exp := fmt.Sprint(lo)
					if lo != hi {
						exp = fmt.Sprintf("%d..%d", lo, hi)
					}
					return fmt.Sprintf("step %d %s: handler #%d (%s on %q, script %q) ran %d times, expected %s", step, op, h.id, h.set, h.name, h.script, h.count, exp), events
				}
			}
		}
	}
	return "", events
}

var c04Letters = func() []c04Op {
	var ls []c04Op
	for _, n := range []string{"foo", "FOO", "baz"} {
		ls = append(ls, c04Op{Kind: "reg", Set: "fg", Via: "Handle", Name: n})
		ls = append(ls, c04Op{Kind: "reg", Set: "bg", Via: "HandleBG", Name: n})
	}
	ls = append(ls, c04Op{Kind: "reg", Set: "fg", Via: "HandleFunc", Name: "Foo"})
	for _, sc := range []string{"rmself", "rmprev", "addsame", "addother"} {
		ls = append(ls, c04Op{Kind: "reg", Set: "fg", Via: "Handle", Name: "foo", Script: sc})
		ls = append(ls, c04Op{Kind: "reg", Set: "bg", Via: "HandleBG", Name: "Foo", Script: sc})
	}
	for _, i := range []int{0, 1, -1} {
		ls = append(ls, c04Op{Kind: "rm", Idx: i})
	}
	ls = append(ls, c04Op{Kind: "ev", Name: "FOO"}, c04Op{Kind: "ev", Name: "BAZ"})
	return ls
}()

func c04SeqJob(prefix []int, depth int) Job {
	var pn []string
	for _, i := range prefix {
		pn = append(pn, c04Letters[i].String())
	}
	name := fmt.Sprintf("histories/depth<=%d/prefix=%s", depth, strings.Join(pn, ","))
	return Job{Name: name, Cost: 10, Run: func(jc *JobCtx) *JobResult {
		e := NewEnum(name)
		hist := make([]c04Op, 0, depth)
		for _, i := range prefix {
			hist = append(hist, c04Letters[i])
		}
		var rec func()
		stop := false
		rec = func() {
			if stop {
				return
			}
			if n := len(hist); n > len(prefix) || (n == len(prefix) && n > 0) {
				if hist[n-1].Kind == "ev" {
					// only histories that end in an event observe anything new
					hs := hist
					var mism string
					var evs int
					o := RunSeq(vx.Options{}, func(env *vx.Env) {
						s, err := StartSession(env, "me", nil, nil)
						if err != nil {
							mism = "connect failed"
							return
						}
						mism, evs = c04Exec(s, hs, false)
						s.End()
					})
					e.CaseN(1, c04HistString(hs))
					e.R.Transitions += int64(evs)
					if o.Kind != "ok" {
						e.Fail("histories", o.Kind, c04HistString(hs), "history ended in "+o.Kind+": "+o.BlockedSig(), nil)
					} else if mism != "" {
						e.Fail("histories", "invocation-count", c04HistString(hs), mism, nil)
					}
					if len(e.R.Samples) == 0 {
						e.Sample(c04HistString(hs))
					}
					if e.TooMany() || (e.R.Evaluations%256 == 0 && jc.Expired()) {
						e.Incomplete("stopped early (deadline or too many violations)")
						stop = true
						return
					}
				}
			}
			if len(hist) >= depth {
				return
			}
			for _, l := range c04Letters {
				hist = append(hist, l)
				rec()
				hist = hist[:len(hist)-1]
			}
		}
		rec()
		return e.Done()
	}}
}

// c04QueuedJob: a registry change made while the line it matters for is already received and waits in the queue.
// FOO and BAZ arrive in one segment; the foreground handler of FOO takes d of virtual time and then registers (or
// removes) a handler for BAZ: BAZ is dispatched after that, so the change counts for it ("the handlers registered
// when it is dispatched"), whenever the line was read from the socket.
func c04QueuedJob() Job {
	name := "queued-line/change-between-receipt-and-dispatch"
	return Job{Name: name, Cost: 5, Run: func(jc *JobCtx) *JobResult {
		e := NewEnum(name)
		for _, d := range []time.Duration{0, time.Millisecond, time.Second, time.Hour} {
			for _, set := range []string{"fg", "bg"} {
				for _, op := range []string{"add", "remove", "remove-then-add"} {
					for _, spelled := range []string{"baz", "BAZ", "baz+backlog"} {
						// +backlog: forty other lines between FOO and BAZ, more than the input queue holds
						fill := 0
						if strings.HasSuffix(spelled, "+backlog") {
							spelled, fill = strings.TrimSuffix(spelled, "+backlog"), 40
						}
						var count [2]int
						var cerr error
						o := RunSeq(vx.Options{Horizon: 6 * time.Hour}, func(env *vx.Env) {
							s, err := StartSession(env, "me", nil, nil)
							if err != nil {
								cerr = err
								return
							}
							reg := func(i int) client.Remover {
								h := client.HandlerFunc(func(*client.Conn, *client.Line) { count[i]++ })
								if set == "bg" {
									return s.C.HandleBG(spelled, h)
								}
								return s.C.Handle(spelled, h)
							}
							var old client.Remover
							if op != "add" {
								old = reg(0)
							}
							s.C.HandleFunc("foo", func(*client.Conn, *client.Line) {
								if d > 0 {
									vx.Sleep(d)
								}
								if old != nil {
									old.Remove()
								}
								if op != "remove" {
									reg(1)
								}
							})
							lines := []string{":o!u@h FOO"}
							for i := 0; i < fill; i++ {
								lines = append(lines, fmt.Sprintf(":o!u@h FILL %d", i))
							}
							s.Feed(append(lines, ":o!u@h BAZ")...)
							vx.Sleep(d + time.Second) // quiescence does not wait for a sleeping handler
							vx.Quiesce()
							s.End()
						})
						in := fmt.Sprintf("FOO, %d other lines and BAZ in one segment; the FOO handler takes %s, then %s a %s handler for %q", fill, d, op, set, spelled)
						e.Case(in)
						want := [2]int{0, 1}
						if op == "remove" {
							want = [2]int{0, 0}
						}
						switch {
						case cerr != nil:
							e.R.Error = "connect failed in harness: " + cerr.Error()
							return e.Done()
						case o.Kind != "ok":
							e.Fail("queued-line", o.Kind, in, "session ended in "+o.Kind+": "+o.BlockedSig(), nil)
						case count != want:
							e.Fail("queued-line", "invocation-count", in, fmt.Sprintf("for BAZ the handler removed before its dispatch ran %d time(s) and the one registered before its dispatch %d time(s), expected %d and %d", count[0], count[1], want[0], want[1]), nil)
						}
					}
				}
			}
		}
		e.Sample("FOO, 0 other lines and BAZ in one segment; the FOO handler takes 1s, then add a bg handler for \"baz\"")
		return e.Done()
	}}
}

// exploration scenarios: selected scripted histories under schedule deviations, and racing calls
func c04ExploreScenario(name string, hist []c04Op) *explore.Scenario {
	sc := &explore.Scenario{
		Family: "handlers-concurrent",
		Name:   "handlers-concurrent/" + name,
		Params: map[string]interface{}{"history": c04HistString(hist)},
		Opt:    vx.Options{MaxSteps: 40000},
	}
	sc.Main = func(env *vx.Env) {
		s, err := StartSession(env, "me", nil, nil)
		if err != nil {
			return
		}
		mism, _ := c04Exec(s, hist, true)
		if mism != "" {
			vx.Observe("ev", "MISMATCH "+mism)
		}
		s.End()
		vx.Observe("ev", "done")
	}
	sc.Check = func(o *vx.Outcome) []explore.Finding {
		if fs := stdOutcome(o); fs != nil {
			return fs
		}
		var fs []explore.Finding
		for _, r := range o.Log("ev") {
			if strings.HasPrefix(r, "MISMATCH") {
				fs = append(fs, explore.Finding{Oracle: "invocation-count", Msg: r})
			}
		}
		return fs
	}
	return sc
}

func c04RegistryField(f string) bool {
	// RaceInfo.Field is "file:line:Type.field"
	if i := strings.LastIndex(f, ":"); i >= 0 {
		f = f[i+1:]
	}
	return strings.HasPrefix(f, "hSet.") || strings.HasPrefix(f, "hList.") || strings.HasPrefix(f, "hNode.")
}

// racing registration / removal from another goroutine
func c04RaceScenario(kind string) *explore.Scenario {
	// "<kind>/fresh": no event has been dispatched since the last registration when the race begins (whatever a
	// dispatch derives from the registry and keeps is not there yet)
	fresh := strings.HasSuffix(kind, "/fresh")
	full := kind
	kind = strings.TrimSuffix(kind, "/fresh")
	sc := &explore.Scenario{
		Family: "handlers-race",
		Name:   "handlers-race/" + full,
		Params: map[string]interface{}{"kind": full},
		// statement-granularity scheduling points and the race monitor on the handler-set structures
		Opt: vx.Options{MaxSteps: 40000, StmtMode: true},
	}
	sc.Main = func(env *vx.Env) {
		s, err := StartSession(env, "me", nil, nil)
		if err != nil {
			return
		}
		c := s.C
		mk := func(id string) client.HandlerFunc {
			return func(conn *client.Conn, line *client.Line) {
				vx.Observe("ev", fmt.Sprintf("run %s %s", id, line.Text()))
			}
		}
		r1 := c.Handle("foo", mk("h1"))
		c.HandleBG("FOO", mk("b1"))
		c.Handle("foo", mk("h2"))
		if !fresh {
			s.Feed(":o!u@h FOO :e0")
		}
		vx.Observe("ev", "quiet-0")
		vx.StmtMode(true)
		done := vx.NewEvent("racer-done")
		env.Go("racer", func() {
			vx.Observe("ev", "call-begin")
			switch kind {
			case "add-fg":
				c.HandleFunc("Foo", mk("h3"))
			case "add-bg":
				c.HandleBG("foo", mk("h3"))
			case "remove-fg":
				r1.Remove()
			}
			vx.Observe("ev", "call-ret")
			done.Set()
		})
		for i := 1; i <= 2; i++ {
			vx.Observe("ev", fmt.Sprintf("sent e%d", i))
			s.VC.SendLines(fmt.Sprintf(":o!u@h FOO :e%d", i))
		}
		done.Wait()
		vx.Quiesce()
		vx.StmtMode(false)
		vx.Observe("ev", "quiet-1")
		s.Feed(":o!u@h foo :e3")
		s.End()
		vx.Observe("ev", "done")
	}
	sc.Check = func(o *vx.Outcome) []explore.Finding {
		if fs := stdOutcome(o); fs != nil {
			return fs
		}
		ev := o.Log("ev")
		var fs []explore.Finding
		for _, r := range o.Races {
			if !c04RegistryField(r.Field) {
				continue // statement mode also covers Conn; C04 is about the handler registry
			}
			fs = append(fs, explore.Finding{Oracle: "data-race-on-handler-set", Msg: "unordered conflicting accesses to the handler registry: " + r.String()})
			break
		}
		bad := func(msg string) {
			fs = append(fs, explore.Finding{Oracle: "invocation-count", Msg: msg + " :: " + strings.Join(ev, "; ")})
		}
		runs := map[string]int{}
		pos := map[string]int{}
		for i, r := range ev {
			if strings.HasPrefix(r, "run ") {
				runs[r[4:]]++
			}
			if _, ok := pos[r]; !ok {
				pos[r] = i
			}
		}
		for e := 0; e <= 3; e++ {
			if fresh && e == 0 {
				continue
			}
			en := fmt.Sprintf("e%d", e)
			for _, h := range []string{"h1", "h2", "b1", "h3"} {
				n := runs[h+" "+en]
				lo, hi := 1, 1
				if h == "h3" && kind == "remove-fg" {
					lo, hi = 0, 0 // never registered in this scenario
				}
				racing := (kind == "remove-fg" && h == "h1") || (kind != "remove-fg" && h == "h3")
				if racing {
					after := 1 // expected once the racing call has returned
					if kind == "remove-fg" {
						after = 0
					}
					before := 1 - after
					switch {
					case e == 0:
						lo, hi = before, before
					case e == 3:
						lo, hi = after, after
					case pos["call-ret"] < pos["sent "+en]:
						lo, hi = after, after // the event arrived after the call had returned
					default:
						lo, hi = 0, 1
					}
				}
				if n < lo || n > hi {
					bad(fmt.Sprintf("handler %s ran %d times for event %s, expected %d..%d", h, n, en, lo, hi))
				}
			}
		}
		return fs
	}
	return sc
}

// two registry calls racing with each other (no dispatch in flight): after both have returned the registry is
// what the two calls, in either order, make it
func c04Race2Scenario(kind string) *explore.Scenario {
	sc := &explore.Scenario{
		Family: "handlers-race2",
		Name:   "handlers-race2/" + kind,
		Params: map[string]interface{}{"kind": kind},
		Opt:    vx.Options{MaxSteps: 40000, StmtMode: true},
	}
	// expected runs per handler for the event after the race
	want := map[string]map[string]int{
		"two-adds-new-name":     {"hA": 1, "hB": 1},
		"two-bg-adds-new-name":  {"hA": 1, "hB": 1},
		"fg-and-bg-add":         {"hA": 1, "hB": 1},
		"add-vs-remove-only":    {"h1": 0, "hB": 1},
		"two-removes":           {"h1": 0, "h2": 0, "h3": 1},
		"remove-only-vs-remove": {"h1": 0, "h2": 0},
	}[kind]
	sc.Main = func(env *vx.Env) {
		s, err := StartSession(env, "me", nil, nil)
		if err != nil {
			return
		}
		c := s.C
		mk := func(id string) client.HandlerFunc {
			return func(conn *client.Conn, line *client.Line) {
				vx.Observe("ev", fmt.Sprintf("run %s %s", id, line.Text()))
			}
		}
		var a, b func()
		switch kind {
		case "two-adds-new-name":
			a = func() { c.HandleFunc("bar", mk("hA")) }
			b = func() { c.HandleFunc("BAR", mk("hB")) }
		case "two-bg-adds-new-name":
			a = func() { c.HandleBG("bar", mk("hA")) }
			b = func() { c.HandleBG("Bar", mk("hB")) }
		case "fg-and-bg-add":
			a = func() { c.HandleFunc("bar", mk("hA")) }
			b = func() { c.HandleBG("bar", mk("hB")) }
		case "add-vs-remove-only":
			r1 := c.Handle("bar", mk("h1"))
			a = func() { r1.Remove() }
			b = func() { c.HandleFunc("bar", mk("hB")) }
		case "two-removes":
			r1 := c.Handle("bar", mk("h1"))
			r2 := c.Handle("bar", mk("h2"))
			c.Handle("bar", mk("h3"))
			a = func() { r1.Remove() }
			b = func() { r2.Remove() }
		case "remove-only-vs-remove":
			r1 := c.Handle("bar", mk("h1"))
			r2 := c.Handle("bar", mk("h2"))
			a = func() { r1.Remove() }
			b = func() { r2.Remove() }
		}
		vx.StmtMode(true)
		done := vx.NewCounter("racers")
		env.Go("racerA", func() { a(); done.Add(1) })
		env.Go("racerB", func() { b(); done.Add(1) })
		done.WaitFor(2)
		vx.StmtMode(false)
		s.Feed(":o!u@h BAR :e1")
		s.End()
	}
	sc.Check = func(o *vx.Outcome) []explore.Finding {
		if fs := stdOutcome(o); fs != nil {
			return fs
		}
		ev := o.Log("ev")
		var fs []explore.Finding
		for _, r := range o.Races {
			if !c04RegistryField(r.Field) {
				continue // statement mode also covers Conn; C04 is about the handler registry
			}
			fs = append(fs, explore.Finding{Oracle: "data-race-on-handler-set", Msg: "unordered conflicting accesses to the handler registry: " + r.String()})
			break
		}
		runs := map[string]int{}
		for _, r := range ev {
			if f := strings.Fields(r); len(f) == 3 && f[0] == "run" {
				runs[f[1]]++
			}
		}
		for h, n := range want {
			if runs[h] != n {
				fs = append(fs, explore.Finding{Oracle: "invocation-count", Msg: fmt.Sprintf("after two racing registry calls had returned, handler %s ran %d times for the next event, expected %d :: %s", h, runs[h], n, strings.Join(ev, "; "))})
			}
		}
		return fs
	}
	return sc
}

// c04LifecycleScenario: the events the client generates itself (REGISTER, CONNECTED, DISCONNECTED) are dispatched
// through the same registry: three foreground and two background handlers on each, registered under different
// spellings; one foreground handler removes itself at its first event, one registers a further handler at its
// first event. Two connections; every handler's invocation count is compared with the model.
func c04LifecycleScenario() *explore.Scenario {
	sc := &explore.Scenario{
		Family: "handlers-lifecycle",
		Name:   "handlers-lifecycle/two-connections",
		Params: map[string]interface{}{"connections": 2},
		Opt:    vx.Options{MaxSteps: 100000},
	}
	events := []string{client.REGISTER, client.CONNECTED, client.DISCONNECTED}
	sc.Main = func(env *vx.Env) {
		c := NewClient("me", nil)
		for _, ev := range events {
			ev := ev
			note := func(id string) { vx.Observe("ev", "ran "+ev+" "+id) }
			c.HandleFunc(strings.ToLower(ev), func(*client.Conn, *client.Line) { note("fg-lower") })
			var self client.Remover
			self = c.HandleFunc(ev, func(*client.Conn, *client.Line) {
				note("fg-rmself")
				self.Remove()
			})
			added := false
			c.HandleFunc(ev, func(conn *client.Conn, _ *client.Line) {
				note("fg-adder")
				if !added {
					added = true
					conn.HandleFunc(ev, func(*client.Conn, *client.Line) { note("fg-added") })
				}
			})
			c.HandleBG(ev, client.HandlerFunc(func(*client.Conn, *client.Line) { note("bg-a") }))
			c.HandleBG(strings.Title(strings.ToLower(ev)), client.HandlerFunc(func(*client.Conn, *client.Line) { note("bg-title") }))
		}
		for cycle := 0; cycle < 2; cycle++ {
			var vc *vx.Conn
			env.ConnSetup = func(x *vx.Conn) { vc = x }
			if err := c.Connect(); err != nil {
				vx.Observe("ev", "connect-failed")
				return
			}
			vx.Quiesce()
			vc.SendLines(welcome)
			vx.Quiesce()
			vc.EOF()
			vx.Quiesce()
		}
	}
	sc.Check = func(o *vx.Outcome) []explore.Finding {
		if fs := stdOutcome(o); fs != nil {
			return fs
		}
		got := map[string]int{}
		for _, r := range o.Log("ev") {
			got[r]++
		}
		var fs []explore.Finding
		for _, ev := range events {
			for id, want := range map[string]int{"fg-lower": 2, "fg-rmself": 1, "fg-adder": 2, "fg-added": 1, "bg-a": 2, "bg-title": 2} {
				if n := got["ran "+ev+" "+id]; n != want {
					fs = append(fs, explore.Finding{Oracle: "invocation-count", Msg: fmt.Sprintf("handler %s on %s ran %d times over two connections, expected %d (removed itself at its first event: 1; added during the first event: from the second on) :: %v", id, ev, n, want, o.Log("ev"))})
				}
			}
		}
		if got["connect-failed"] > 0 {
			fs = append(fs, explore.Finding{Oracle: "deadlock", Msg: "the second connect failed"})
		}
		sort.Slice(fs, func(i, j int) bool { return fs[i].Msg < fs[j].Msg })
		if len(fs) > 1 {
			fs = fs[:1]
		}
		return fs
	}
	return sc
}

// overlapping dispatches: background handlers under two names, events arriving back to back (no quiescence in
// between), so that the background dispatch of one event is still running when the next one begins
func c04OverlapScenario(nbg, nev int) *explore.Scenario {
	sc := &explore.Scenario{
		Family: "handlers-overlap",
		Name:   fmt.Sprintf("handlers-overlap/bg=%d/events=%d", nbg, nev),
		Params: map[string]interface{}{"bg": nbg, "events": nev},
		Opt:    vx.Options{MaxSteps: 40000},
	}
	names := []string{"foo", "Quiz"}
	sc.Main = func(env *vx.Env) {
		s, err := StartSession(env, "me", nil, nil)
		if err != nil {
			return
		}
		for _, n := range names {
			n := n
			for i := 0; i < nbg; i++ {
				id := fmt.Sprintf("bg-%s-%d", n, i)
				s.C.HandleBG(n, client.HandlerFunc(func(conn *client.Conn, line *client.Line) {
					vx.Yield()
					vx.Observe("ev", fmt.Sprintf("run %s %s %s", id, strings.ToLower(line.Cmd), line.Text()))
				}))
			}
			id := "fg-" + n
			s.C.HandleFunc(n, func(conn *client.Conn, line *client.Line) {
				vx.Observe("ev", fmt.Sprintf("run %s %s %s", id, strings.ToLower(line.Cmd), line.Text()))
			})
		}
		var lines []string
		for e := 0; e < nev; e++ {
			lines = append(lines, fmt.Sprintf(":o!u@h %s :e%d", strings.ToUpper(names[e%2]), e))
		}
		s.VC.SendLines(lines...)
		vx.Quiesce()
		s.End()
	}
	sc.Check = func(o *vx.Outcome) []explore.Finding {
		if fs := stdOutcome(o); fs != nil {
			return fs
		}
		ev := o.Log("ev")
		runs := map[string]int{}
		var fs []explore.Finding
		for _, r := range ev {
			f := strings.Fields(r)
			// run <id> <event-name> <event-no>
			if !strings.Contains(strings.ToLower(f[1]), "-"+f[2]) {
				fs = append(fs, explore.Finding{Oracle: "wrong-name", Msg: fmt.Sprintf("handler %s, registered under another name, ran for event %s %s :: %s", f[1], f[2], f[3], strings.Join(ev, "; "))})
			}
			runs[f[1]+" "+f[3]]++
		}
		for e := 0; e < nev; e++ {
			n := names[e%2]
			ids := []string{"fg-" + n}
			for i := 0; i < nbg; i++ {
				ids = append(ids, fmt.Sprintf("bg-%s-%d", n, i))
			}
			for _, id := range ids {
				if c := runs[fmt.Sprintf("%s e%d", id, e)]; c != 1 {
					fs = append(fs, explore.Finding{Oracle: "invocation-count", Msg: fmt.Sprintf("handler %s ran %d times for event e%d, expected 1 :: %s", id, c, e, strings.Join(ev, "; "))})
				}
			}
		}
		return fs
	}
	return sc
}

// c04BusyScenario: n events SLOW whose one background handler takes ten minutes of virtual time, then, while all n are
// still running, one event NOTE with a foreground and a background handler: both run once, and so does every SLOW one.
func c04BusyScenario(n int) *explore.Scenario {
	sc := &explore.Scenario{
		Family: "handlers-busy",
		Name:   fmt.Sprintf("handlers-busy/slow-events=%d", n),
		Params: map[string]interface{}{"slow-events": n},
		Opt:    vx.Options{MaxSteps: 400000},
	}
	sc.Main = func(env *vx.Env) {
		s, err := StartSession(env, "me", nil, nil)
		if err != nil {
			return
		}
		s.C.HandleBG("slow", client.HandlerFunc(func(conn *client.Conn, line *client.Line) {
			vx.Observe("ev", "start slow "+line.Text())
			vx.Sleep(10 * time.Minute)
			vx.Observe("ev", "end slow "+line.Text())
		}))
		s.C.HandleBG("note", client.HandlerFunc(func(conn *client.Conn, line *client.Line) { vx.Observe("ev", "run bg-note") }))
		s.C.HandleFunc("note", func(conn *client.Conn, line *client.Line) { vx.Observe("ev", "run fg-note") })
		var lines []string
		for e := 0; e < n; e++ {
			lines = append(lines, fmt.Sprintf(":o!u@h SLOW :e%d", e))
		}
		lines = append(lines, ":o!u@h NOTE :x")
		s.VC.SendLines(lines...)
		vx.Quiesce()
		vx.Observe("ev", "quiet")
		vx.Sleep(20 * time.Minute)
		vx.Quiesce()
		s.End()
	}
	sc.Check = func(o *vx.Outcome) []explore.Finding {
		if fs := stdOutcome(o); fs != nil {
			return fs
		}
		ev := o.Log("ev")
		cnt := map[string]int{}
		quiet := false
		var fs []explore.Finding
		for _, r := range ev {
			if r == "quiet" {
				quiet = true
				for _, k := range []string{"run bg-note", "run fg-note"} {
					if cnt[k] != 1 {
						fs = append(fs, explore.Finding{Oracle: "invocation-count", Msg: fmt.Sprintf("%q seen %d times once the client had gone quiet behind %d events whose background handlers were still running, expected 1", k, cnt[k], n)})
					}
				}
				continue
			}
			cnt[r]++
		}
		if !quiet {
			return fs
		}
		for e := 0; e < n; e++ {
			for _, k := range []string{"start", "end"} {
				if c := cnt[fmt.Sprintf("%s slow e%d", k, e)]; c != 1 {
					fs = append(fs, explore.Finding{Oracle: "invocation-count", Msg: fmt.Sprintf("background handler of SLOW e%d: %q seen %d times, expected 1", e, k, c)})
					if len(fs) > 4 {
						return fs
					}
				}
			}
		}
		for _, k := range []string{"run bg-note", "run fg-note"} {
			if cnt[k] != 1 {
				fs = append(fs, explore.Finding{Oracle: "invocation-count", Msg: fmt.Sprintf("%q seen %d times in the whole session, expected 1", k, cnt[k])})
			}
		}
		return fs
	}
	return sc
}

func init() {
	Register(&Prop{
		ID:   "C04",
		Rule: "all histories up to depth 5 (quick) / 6 (thorough) that end in an event, over 20 letters = register fg/bg (Handle, HandleFunc, HandleBG) under foo/FOO/Foo/baz, 8 scripted handlers (remove self, remove previous sibling, add to own set, add to other set; in scripted histories also: remove a later sibling, and remove a later sibling and register under another name in the same call), Remove of the first/second/last registered handler, events FOO and BAZ; each history runs on a fresh real session and per-handler invocation counts are compared with the multiset model after every event; plus registry changes made by a slow foreground handler while the next line is already received and queued (add / remove / replace a fg / bg handler for it after 0, 1 ms, 1 s, 1 h of virtual time; also with forty other lines queued in between, more than the input queue holds); plus three foreground and two background handlers (other spellings, one removing itself, one adding a handler) on each of REGISTER, CONNECTED and DISCONNECTED over two connections; plus scripted histories, racing Handle/HandleBG/Remove calls from another goroutine (against a dispatch in flight, and two calls against each other: two first registrations of a name, registration against removal of the only handler, two removals), and back-to-back events whose background dispatches overlap, under K<=2 schedule deviations; plus a hundred events whose background handler is still running when the next arrives, then one more event (default schedules); distinct = distinct histories",
		Assumptions: []string{
			"sequential histories run under the default scheduler with quiescence between top-level operations; interleavings are the subject of the handlers-concurrent / handlers-race families",
			"each Remover is used at most once (guarded by the harness); a handler added to the other set during an event may or may not see that event",
		},
		Jobs: func(tier string) []Job {
			var jobs []Job
			depth := 5
			if tier == "thorough" {
				depth = 6
			}
			for i := range c04Letters {
				if c04Letters[i].Kind != "reg" {
					continue // a history that starts with a removal or an event of nothing adds little
				}
				for j := range c04Letters {
					jobs = append(jobs, c04SeqJob([]int{i, j}, depth))
				}
			}
			jobs = append(jobs, c04QueuedJob())
			jobs = append(jobs, ExploreJob("C04", ExploreSpec{Sc: c04LifecycleScenario(), Variants: []int{1, 2, 3}, Budgets: []explore.Budget{{0, 0}, {1, 0}}, Cache: true}, 30))
			R := func(set, via, name, script string) c04Op {
				return c04Op{Kind: "reg", Set: set, Via: via, Name: name, Script: script}
			}
			E := func(n string) c04Op { return c04Op{Kind: "ev", Name: n} }
			sel := map[string][]c04Op{
				"rmself+plain+addother": {R("fg", "Handle", "foo", "rmself"), R("fg", "Handle", "FOO", ""), R("bg", "HandleBG", "foo", "addother"), E("FOO"), E("foo")},
				"rmprev-middle":         {R("fg", "Handle", "foo", ""), R("fg", "Handle", "Foo", ""), R("fg", "Handle", "FOO", "rmprev"), R("bg", "HandleBG", "foo", ""), E("FOO"), E("FOO")},
				"addsame+bg-rmself":     {R("fg", "Handle", "foo", "addsame"), R("bg", "HandleBG", "foo", "rmself"), E("FOO"), E("FOO"), E("FOO")},
				"cross-adds":            {R("bg", "HandleBG", "foo", "addother"), R("fg", "Handle", "foo", "addother"), E("FOO"), E("FOO")},
				"remove-only":           {R("fg", "Handle", "foo", "rmself"), E("FOO"), E("FOO"), R("fg", "HandleFunc", "foo", ""), E("FOO")},
				"bg-rmprev+other-name":  {R("bg", "HandleBG", "foo", ""), R("bg", "HandleBG", "baz", ""), R("bg", "HandleBG", "Foo", "rmprev"), E("FOO"), E("BAZ"), E("FOO")},
				// a handler at the head of a longer list removes itself while the dispatcher is still starting its siblings
				"rmself-head-of-five":      {R("fg", "Handle", "foo", "rmself"), R("fg", "Handle", "foo", ""), R("fg", "Handle", "Foo", ""), R("fg", "HandleFunc", "foo", ""), R("fg", "Handle", "FOO", ""), E("FOO"), E("FOO")},
				"bg-rmself-second-of-five": {R("bg", "HandleBG", "foo", ""), R("bg", "HandleBG", "foo", "rmself"), R("bg", "HandleBG", "Foo", ""), R("bg", "HandleBG", "foo", ""), R("bg", "HandleBG", "FOO", ""), E("FOO"), E("FOO")},
				// a handler removes a later sibling of the same event (it still runs for this event, not for the next)
				"rmnext-of-four":        {R("fg", "Handle", "foo", "rmnext"), R("fg", "Handle", "foo", ""), R("fg", "Handle", "foo", ""), R("fg", "Handle", "foo", ""), E("FOO"), E("FOO"), E("FOO")},
				"bg-rmnext-of-four":     {R("bg", "HandleBG", "foo", ""), R("bg", "HandleBG", "foo", "rmnext"), R("bg", "HandleBG", "foo", ""), R("bg", "HandleBG", "foo", ""), E("FOO"), E("FOO")},
				"rmnextadd-of-three":    {R("fg", "Handle", "foo", "rmnextadd"), R("fg", "Handle", "foo", ""), R("fg", "Handle", "foo", ""), E("FOO"), E("BAZ"), E("FOO")},
				"bg-rmnextadd-of-three": {R("bg", "HandleBG", "foo", "rmnextadd"), R("bg", "HandleBG", "foo", ""), R("bg", "HandleBG", "foo", ""), E("FOO"), E("BAZ"), E("FOO")},
				"toplevel-remove-first": {R("fg", "Handle", "foo", ""), R("fg", "Handle", "foo", ""), R("fg", "Handle", "foo", ""), {Kind: "rm", Idx: 0}, E("FOO"), {Kind: "rm", Idx: -1}, E("FOO")},
			}
			for n, h := range sel {
				bs := []explore.Budget{{0, 0}, {1, 0}, {2, 0}}
				spec := ExploreSpec{Sc: c04ExploreScenario(n, h), Variants: []int{1, 2, 3}, Budgets: bs, Cache: true}
				if tier != "thorough" {
					spec.Shallow = []int{2, 3}
				}
				jobs = append(jobs, ExploreJob("C04", spec, 40))
			}
			// many background handlers make one dispatch long enough to overlap the next event's under the round-robin default
			jobs = append(jobs, ExploreJob("C04", ExploreSpec{Sc: c04OverlapScenario(12, 3), Variants: []int{1, 2, 3}, Budgets: []explore.Budget{{0, 0}, {1, 0}}, Cache: true}, 60))
			jobs = append(jobs, ExploreJob("C04", ExploreSpec{Sc: c04OverlapScenario(24, 4), Variants: []int{3}, Budgets: []explore.Budget{{0, 0}, {1, 0}}, Cache: true}, 60))
			// a hundred events whose background handler is still running (ten minutes of virtual time) when the next event arrives
			jobs = append(jobs, ExploreJob("C04", ExploreSpec{Sc: c04BusyScenario(100), Variants: []int{1, 2, 3}, Budgets: []explore.Budget{{0, 0}}, Cache: true}, 60))
			for _, cfg := range [][2]int{{2, 2}, {2, 3}, {3, 4}} {
				bs := []explore.Budget{{0, 0}, {1, 0}, {2, 0}}
				if tier == "thorough" {
					bs = append(bs, explore.Budget{K: 3})
				}
				jobs = append(jobs, ExploreJob("C04", ExploreSpec{Sc: c04OverlapScenario(cfg[0], cfg[1]), Variants: []int{1, 2, 3}, Budgets: bs, Cache: true}, 40))
			}
			for _, k := range []string{"add-fg", "add-bg", "remove-fg", "add-fg/fresh", "add-bg/fresh", "remove-fg/fresh"} {
				bs := []explore.Budget{{0, 0}, {1, 0}, {2, 0}}
				if tier == "thorough" {
					bs = append(bs, explore.Budget{K: 3})
				}
				spec := ExploreSpec{Sc: c04RaceScenario(k), Variants: []int{1, 2, 3}, Budgets: bs, Cache: true}
				if k == "remove-fg" {
					spec.CrossChk = &explore.Budget{K: 2}
				}
				jobs = append(jobs, ExploreJob("C04", spec, 40))
			}
			for _, k := range []string{"two-adds-new-name", "two-bg-adds-new-name", "fg-and-bg-add", "add-vs-remove-only", "two-removes", "remove-only-vs-remove"} {
				bs := []explore.Budget{{0, 0}, {1, 0}, {2, 0}}
				if tier == "thorough" {
					bs = append(bs, explore.Budget{K: 3})
				}
				jobs = append(jobs, ExploreJob("C04", ExploreSpec{Sc: c04Race2Scenario(k), Variants: []int{1, 2, 3}, Budgets: bs, Cache: true}, 30))
			}
			return jobs
		},
	})
}
