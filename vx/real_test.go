package vx

import "testing"

// Outside a controlled run the select shim behaves like a select.
func TestRealSelect(t *testing.T) {
	free := make(chan *int, 2)
	take := func() (*int, bool) {
		switch sc := free; Select(true, "t", CaseRecv(sc)) {
		case 0:
			v, ok := SelRecv2(sc)
			return v, ok
		default:
			return nil, false
		}
	}
	put := func(p *int) bool {
		switch sc, sv := free, p; Select(true, "t", CaseSend(sc, sv)) {
		case 0:
			SelSend(sc, sv)
			return true
		default:
			return false
		}
	}
	if _, ok := take(); ok {
		t.Fatal("took from an empty list")
	}
	a, b, c := new(int), new(int), new(int)
	*a, *b = 1, 2
	if !put(a) || !put(b) || put(c) {
		t.Fatal("put: want true, true, false")
	}
	if len(free) != 2 {
		t.Fatalf("len=%d, want 2 (each value sent once)", len(free))
	}
	if v, ok := take(); !ok || v != a {
		t.Fatal("first take")
	}
	if v, ok := take(); !ok || v != b {
		t.Fatal("second take")
	}
	close(free)
	if v, ok := SelRecv2(free); ok || v != nil {
		t.Fatal("closed")
	}
	switch Select(false, "t", CaseRecv(free)) {
	case 0:
		if v, ok := SelRecv2(free); ok || v != nil {
			t.Fatal("closed through select")
		}
	default:
		t.Fatal("closed channel not chosen")
	}
	var nilch chan int
	if Select(true, "t", CaseRecv(nilch), CaseSend(nilch, 1)) != 2 {
		t.Fatal("nil channels must never be ready")
	}
}
