package explore

// Shim fidelity tests (DESIGN.md Appendix A): small programs written directly
// against the vx primitives whose complete outcome sets under real Go semantics
// are known by hand, explored without a deviation bound; the set of observed
// outcomes must match exactly.

import (
	"fmt"
	"sort"
	"strings"
	"testing"
	"time"

	"verif/vx"
)

func outcomes(t *testing.T, name string, opt vx.Options, main func(env *vx.Env), obs func(o *vx.Outcome) string) []string {
	t.Helper()
	set := map[string]bool{}
	sc := &Scenario{Family: "shim", Name: name, Opt: opt, Main: main, Check: func(o *vx.Outcome) []Finding {
		set[o.Kind+":"+obs(o)] = true
		return nil
	}}
	for _, cache := range []bool{true, false} {
		res := Explore(sc, 1, Budget{K: -1, E: -1}, Config{Cache: cache, DetCheck: 5, MaxExecs: 2000000})
		if !res.Exhaustive || res.Nondet > 0 {
			t.Fatalf("%s: exploration incomplete (cache=%v): %+v", name, cache, res.CapsHit)
		}
	}
	var r []string
	for k := range set {
		r = append(r, k)
	}
	sort.Strings(r)
	return r
}

func expect(t *testing.T, got []string, want ...string) {
	t.Helper()
	sort.Strings(want)
	if strings.Join(got, " | ") != strings.Join(want, " | ") {
		t.Errorf("outcome sets differ:\n got  %v\n want %v", got, want)
	}
}

func join(tasks ...func()) func(env *vx.Env) {
	return func(env *vx.Env) {
		done := vx.NewCounter("done")
		for i, f := range tasks {
			f := f
			env.Go(fmt.Sprintf("t%d", i), func() { f(); done.Add(1) })
		}
		done.WaitFor(len(tasks))
	}
}

func TestLostUpdateWithoutLock(t *testing.T) {
	x := 0
	c := vx.NewCounter("x") // only used as the scheduling point between read and write
	inc := func() { v := x; c.Get(); x = v + 1 }
	got := outcomes(t, "lost-update", vx.Options{}, func(env *vx.Env) { x = 0; join(inc, inc)(env) }, func(o *vx.Outcome) string { return fmt.Sprint(x) })
	expect(t, got, "ok:1", "ok:2")
}

func TestMutexSerialises(t *testing.T) {
	x := 0
	var mu vx.Mutex
	c := vx.NewCounter("x")
	inc := func() { mu.Lock(); v := x; c.Get(); x = v + 1; mu.Unlock() }
	got := outcomes(t, "mutex", vx.Options{}, func(env *vx.Env) { x = 0; join(inc, inc, inc)(env) }, func(o *vx.Outcome) string { return fmt.Sprint(x) })
	expect(t, got, "ok:3")
}

func TestRecursiveRLockWithWriterDeadlocks(t *testing.T) {
	// reader holds RLock and takes it again; a writer in between makes that a deadlock in Go (writer preference)
	var mu vx.RWMutex
	got := outcomes(t, "rwmutex", vx.Options{}, join(
		func() { mu.RLock(); mu.RLock(); mu.RUnlock(); mu.RUnlock() },
		func() { mu.Lock(); mu.Unlock() },
	), func(o *vx.Outcome) string { return "" })
	expect(t, got, "ok:", "deadlock:")
}

func TestReadersShare(t *testing.T) {
	var mu vx.RWMutex
	inside, max := 0, 0
	c := vx.NewCounter("c")
	rd := func() {
		mu.RLock()
		inside++
		if inside > max {
			max = inside
		}
		c.Get()
		inside--
		mu.RUnlock()
	}
	got := outcomes(t, "readers", vx.Options{}, func(env *vx.Env) { inside, max = 0, 0; join(rd, rd)(env) }, func(o *vx.Outcome) string { return fmt.Sprint(max) })
	expect(t, got, "ok:1", "ok:2")
}

func TestSelectTwoReady(t *testing.T) {
	var which string
	got := outcomes(t, "select", vx.Options{}, func(env *vx.Env) {
		a := vx.MakeChan[int](1, "a")
		b := vx.MakeChan[int](1, "b")
		vx.Send(a, 1, "")
		vx.Send(b, 2, "")
		switch vx.Select(false, "", vx.CaseRecv(a), vx.CaseRecv(b)) {
		case 0:
			which = fmt.Sprint("a", vx.SelRecv(a))
		case 1:
			which = fmt.Sprint("b", vx.SelRecv(b))
		}
	}, func(o *vx.Outcome) string { return which })
	expect(t, got, "ok:a1", "ok:b2")
}

func TestBufferedTwoSenders(t *testing.T) {
	var order string
	got := outcomes(t, "buffered", vx.Options{}, func(env *vx.Env) {
		ch := vx.MakeChan[string](1, "ch")
		order = ""
		env.Go("s1", func() { vx.Send(ch, "x", "") })
		env.Go("s2", func() { vx.Send(ch, "y", "") })
		order = vx.Recv(ch, "") + vx.Recv(ch, "")
	}, func(o *vx.Outcome) string { return order })
	expect(t, got, "ok:xy", "ok:yx")
}

func TestUnbufferedRendezvous(t *testing.T) {
	// the sender cannot pass the send before the receiver has arrived
	var log []string
	got := outcomes(t, "unbuffered", vx.Options{}, func(env *vx.Env) {
		ch := vx.MakeChan[int](0, "ch")
		log = nil
		done := vx.NewEvent("d")
		env.Go("sender", func() { vx.Send(ch, 7, ""); log = append(log, "sent"); done.Set() })
		log = append(log, "before-recv")
		v := vx.Recv(ch, "")
		log = append(log, fmt.Sprint("got", v))
		done.Wait()
	}, func(o *vx.Outcome) string {
		s := append([]string{}, log...)
		return strings.Join(s, ",")
	})
	// "sent" can never precede "before-recv"; after the rendezvous both orders of the two appends are possible
	expect(t, got, "ok:before-recv,got7,sent", "ok:before-recv,sent,got7")
}

func TestUnbufferedSelectSendOrDefault(t *testing.T) {
	var r string
	got := outcomes(t, "unbuffered-select", vx.Options{}, func(env *vx.Env) {
		ch := vx.MakeChan[int](0, "ch")
		r = ""
		done := vx.NewEvent("d")
		env.Go("recv", func() {
			switch vx.Select(true, "", vx.CaseRecv(ch)) {
			case 0:
				r = fmt.Sprint("got", vx.SelRecv(ch))
			default:
				r = "default"
			}
			done.Set()
		})
		switch vx.Select(true, "", vx.CaseSend(ch, 5)) {
		case 0:
			vx.SelSend(ch, 5)
			r += "+sent"
		default:
			r += "+nosend"
		}
		done.Wait()
	}, func(o *vx.Outcome) string { return r })
	// both use default: a rendezvous needs one side to be waiting, and neither ever waits
	expect(t, got, "ok:default", "ok:default+nosend")
}

func TestCloseWakesReceivers(t *testing.T) {
	n := 0
	got := outcomes(t, "close", vx.Options{}, func(env *vx.Env) {
		ch := vx.MakeChan[int](0, "ch")
		n = 0
		done := vx.NewCounter("d")
		for i := 0; i < 2; i++ {
			env.Go("r", func() {
				if _, ok := vx.Recv2(ch, ""); !ok {
					n++
				}
				done.Add(1)
			})
		}
		vx.Close(ch)
		done.WaitFor(2)
	}, func(o *vx.Outcome) string { return fmt.Sprint(n) })
	expect(t, got, "ok:2")
}

func TestWaitGroup(t *testing.T) {
	sum := 0
	got := outcomes(t, "waitgroup", vx.Options{}, func(env *vx.Env) {
		var wg vx.WaitGroup
		var mu vx.Mutex
		sum = 0
		for i := 1; i <= 3; i++ {
			i := i
			wg.Add(1)
			env.Go("w", func() { mu.Lock(); sum += i; mu.Unlock(); wg.Done() })
		}
		wg.Wait()
		sum *= 10
	}, func(o *vx.Outcome) string { return fmt.Sprint(sum) })
	expect(t, got, "ok:60")
}

func TestTimersAndVirtualTime(t *testing.T) {
	var seq []string
	got := outcomes(t, "timers", vx.Options{Horizon: time.Hour}, func(env *vx.Env) {
		seq = nil
		done := vx.NewCounter("d")
		env.Go("a", func() { vx.Sleep(2 * time.Second); seq = append(seq, fmt.Sprint("a@", env.Now())); done.Add(1) })
		env.Go("b", func() {
			vx.Recv(vx.After(time.Second), "")
			seq = append(seq, fmt.Sprint("b@", env.Now()))
			done.Add(1)
		})
		done.WaitFor(2)
	}, func(o *vx.Outcome) string { return strings.Join(seq, ",") })
	expect(t, got, "ok:b@1s,a@2s")
}

func TestOnce(t *testing.T) {
	n := 0
	got := outcomes(t, "once", vx.Options{}, func(env *vx.Env) {
		var once vx.Once
		n = 0
		f := func() { once.Do(func() { vx.Yield(); n++ }) }
		join(f, f, f)(env)
	}, func(o *vx.Outcome) string { return fmt.Sprint(n) })
	expect(t, got, "ok:1")
}

func TestDeadlockDetected(t *testing.T) {
	got := outcomes(t, "abba", vx.Options{}, func(env *vx.Env) {
		var a, b vx.Mutex
		join(
			func() { a.Lock(); b.Lock(); b.Unlock(); a.Unlock() },
			func() { b.Lock(); a.Lock(); a.Unlock(); b.Unlock() },
		)(env)
	}, func(o *vx.Outcome) string { return "" })
	expect(t, got, "ok:", "deadlock:")
}

func TestDeviationBoundIsMonotone(t *testing.T) {
	// the executions within K deviations are a subset of those within K+1, and K=inf covers them all
	sc := &Scenario{Family: "shim", Name: "mono", Main: func(env *vx.Env) {
		var mu vx.Mutex
		x := 0
		join(func() { mu.Lock(); x++; mu.Unlock(); vx.Observe("l", "a") }, func() { mu.Lock(); x += 2; mu.Unlock(); vx.Observe("l", "b") }, func() { vx.Observe("l", "c") })(env)
	}, Check: func(o *vx.Outcome) []Finding { return nil }}
	prev := 0
	for _, k := range []int{0, 1, 2, 3, -1} {
		res := Explore(sc, 1, Budget{K: k}, Config{Cache: false})
		if len(res.Outcomes) < prev {
			t.Errorf("K=%d found %d outcomes, fewer than the smaller bound (%d)", k, len(res.Outcomes), prev)
		}
		prev = len(res.Outcomes)
	}
	if prev != 6 {
		t.Errorf("unbounded exploration found %d log orders, want all 6 permutations", prev)
	}
}

func TestChanLenSeesBothOrders(t *testing.T) {
	// the answer of len(ch) depends on its order against a concurrent send, and what the task does next
	// depends on the answer: both futures must be explored, with and without the state cache
	var r string
	got := outcomes(t, "chanlen", vx.Options{}, func(env *vx.Env) {
		ch := vx.MakeChan[int](2, "ch")
		r = ""
		done := vx.NewEvent("d")
		env.Go("sender", func() { vx.Send(ch, 1, ""); done.Set() })
		if vx.Len(ch, "") == 0 {
			r = "empty"
		} else {
			r = fmt.Sprint("got", vx.Recv(ch, ""))
		}
		done.Wait()
	}, func(o *vx.Outcome) string { return r })
	expect(t, got, "ok:empty", "ok:got1")
}

func TestTryLockCanBarge(t *testing.T) {
	// a task blocked in Lock does not own the mutex when it is released: a TryLock arriving then may win
	var log string
	got := outcomes(t, "trylock", vx.Options{}, func(env *vx.Env) {
		var mu vx.Mutex
		log = ""
		mu.Lock()
		done := vx.NewCounter("d")
		env.Go("waiter", func() { mu.Lock(); log += "W"; mu.Unlock(); done.Add(1) })
		env.Go("barger", func() {
			if mu.TryLock() {
				log += "B"
				mu.Unlock()
			} else {
				log += "b"
			}
			done.Add(1)
		})
		vx.Yield()
		mu.Unlock()
		done.WaitFor(2)
	}, func(o *vx.Outcome) string { return log })
	expect(t, got, "ok:BW", "ok:WB", "ok:Wb", "ok:bW")
}

func TestUnbufferedTwoReceiversBothCanWin(t *testing.T) {
	// two tasks wait on one unbuffered channel; which of them gets the single value is a choice, and both
	// alternatives must survive the state cache
	var who string
	got := outcomes(t, "two-receivers", vx.Options{}, func(env *vx.Env) {
		ch := vx.MakeChan[int](0, "ch")
		who = ""
		won := vx.NewEvent("won")
		for _, n := range []string{"r1", "r2"} {
			n := n
			env.GoBlocked(n, func() {
				vx.Recv(ch, "")
				who = n
				won.Set()
			})
		}
		vx.Yield()
		vx.Yield()
		vx.Send(ch, 1, "")
		won.Wait()
	}, func(o *vx.Outcome) string { return who })
	expect(t, got, "ok:r1", "ok:r2")
}
