package vinstr

import (
	"os"
	"os/exec"
	"path/filepath"
	"strings"
	"testing"
)

// TestInstrumentConstructs instruments a synthetic tree that uses every construct the rewriter handles (and a
// few it leaves alone) and builds the result against the vx runtime.
func TestInstrumentConstructs(t *testing.T) {
	src := t.TempDir()
	out := t.TempDir()
	root := "testdata/fake"
	filepath.Walk(root, func(p string, fi os.FileInfo, err error) error {
		if err != nil || fi.IsDir() {
			return err
		}
		rel, _ := filepath.Rel(root, p)
		dst := filepath.Join(src, strings.TrimSuffix(rel, ".txt"))
		os.MkdirAll(filepath.Dir(dst), 0o755)
		b, _ := os.ReadFile(p)
		return os.WriteFile(dst, b, 0o644)
	})
	if err := Instrument(Options{RepoDir: src, OutDir: filepath.Join(out, "goirc"), StmtPkg: "state"}); err != nil {
		t.Fatalf("instrument: %v", err)
	}
	verifDir, _ := filepath.Abs("../..")
	os.MkdirAll(filepath.Join(out, "build"), 0o755)
	gomod := "module verifbuild\n\ngo 1.21\n\nrequire (\n\tgithub.com/fluffle/goirc v0.0.0\n\tverif v0.0.0\n)\n\nreplace verif => " + verifDir + "\n\nreplace github.com/fluffle/goirc => ../goirc\n"
	os.WriteFile(filepath.Join(out, "build", "go.mod"), []byte(gomod), 0o644)
	sum, _ := os.ReadFile(filepath.Join(verifDir, "go.sum"))
	os.WriteFile(filepath.Join(out, "build", "go.sum"), sum, 0o644)
	cmd := exec.Command("go", "build", "github.com/fluffle/goirc/client", "github.com/fluffle/goirc/state")
	cmd.Dir = filepath.Join(out, "build")
	cmd.Env = append(os.Environ(), "GOFLAGS=-mod=mod", "GOPROXY=off", "GOSUMDB=off", "GOTOOLCHAIN=local")
	if b, err := cmd.CombinedOutput(); err != nil {
		c, _ := os.ReadFile(filepath.Join(out, "goirc", "client", "constructs.go"))
		t.Fatalf("instrumented tree does not build: %v\n%s\n---- instrumented constructs.go\n%s", err, b, c)
	}
}
