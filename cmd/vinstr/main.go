// Command vinstr instruments a goirc tree into a scratch directory (debug helper).
package main

import (
	"flag"
	"fmt"
	"os"

	"verif/engine/vinstr"
)

func main() {
	repo := flag.String("repo", "/repo", "source tree")
	out := flag.String("out", "", "output dir")
	stmt := flag.String("stmt", "", "package with statement-level points")
	flag.Parse()
	if *out == "" {
		fmt.Fprintln(os.Stderr, "need -out")
		os.Exit(2)
	}
	if err := vinstr.Instrument(vinstr.Options{RepoDir: *repo, OutDir: *out, StmtPkg: *stmt, StmtTypes: map[string][]string{"client": {"hSet", "hList", "hNode"}}, Exports: true}); err != nil {
		fmt.Fprintln(os.Stderr, "vinstr:", err)
		os.Exit(1)
	}
}
