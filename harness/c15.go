package harness

import (
	"fmt"
	"sort"
	"strings"
	"time"

	"github.com/fluffle/goirc/client"

	"verif/explore"
	"verif/vx"
)

// C15: each handler invocation gets its own copy of the line.

func lineImage(l *client.Line) string {
	var tags []string
	for k, v := range l.Tags {
		tags = append(tags, k+"="+v)
	}
	sort.Strings(tags)
	t := "nil"
	if l.Tags != nil {
		t = "{" + strings.Join(tags, ";") + "}"
	}
	return fmt.Sprintf("tags=%s nick=%q ident=%q host=%q src=%q cmd=%q raw=%q args=%s", t, l.Nick, l.Ident, l.Host, l.Src, l.Cmd, l.Raw, joinQ(l.Args))
}

func scribble(l *client.Line, id string) {
	for i := range l.Args {
		l.Args[i] = fmt.Sprintf("%s-arg%d", id, i)
	}
	l.Args = append(l.Args, id+"-extra")
	if l.Tags != nil {
		first := true
		for k := range l.Tags {
			if first {
				delete(l.Tags, k)
				first = false
			} else {
				l.Tags[k] = id + "-tag"
			}
		}
		l.Tags[id] = "added"
	}
	l.Cmd = id + "-cmd"
	l.Nick = id + "-nick"
	l.Ident, l.Host, l.Src, l.Raw = id, id, id, id
}

type c15Params struct {
	Shape    string
	FG, BG   int
	Tracking bool
	Int      int // extra handlers in the internal set (they run before the foreground handlers and edit their line too)
}

var c15Shapes = map[string][2]string{
	"ping":    {"PING :token-one", "PING :token-two"},
	"tags":    {"@a=b;c;d=e\\sf :o!u@h PRIVMSG #c :hello world", "@x=y :o!u@h PRIVMSG #c :second"},
	"noargs":  {":o!u@h FOO", ":p!u@h FOO"},
	"onearg":  {":o!u@h FOO a", ":o!u@h FOO b"},
	"twoargs": {":o!u@h FOO a :b c", ":o!u@h FOO d :e f"},
	"fifteen": {":irc.example 005 a1 a2 a3 a4 a5 a6 a7 a8 a9 a10 a11 a12 a13 a14 :are supported", ":irc.example 005 b1 b2 b3 b4 b5 b6 b7 b8 b9 b10 b11 b12 b13 b14 :are supported"},
	"ctcp":    {":o!u@h PRIVMSG me :\x01VERSION\x01", ":o!u@h PRIVMSG me :\x01PING 12345\x01"},
	"join":    {":me!ident@host JOIN #x", ":a!u@h JOIN #x"},
	// an empty tag section (a non-nil, empty tag map), and 15 parameters of which the second is a CTCP payload
	// (the parser prepends the CTCP verb: 16 arguments)
	"emptytags": {"@ :o!u@h PRIVMSG #c :hi", "@ :o!u@h PRIVMSG #c :again"},
	// tags but no argument at all
	"tagsnoargs": {"@a=b;c=d;e :o!u@h FOO", "@x=y :p!u@h FOO"},
	"sixteen":    {":o!u@h PRIVMSG me \x01VERSION\x01 a3 a4 a5 a6 a7 a8 a9 a10 a11 a12 a13 a14 :last one", ":o!u@h PRIVMSG me \x01FINGER\x01 b3 b4 b5 b6 b7 b8 b9 b10 b11 b12 b13 b14 :last two"},
}

func c15Scenario(p c15Params) *explore.Scenario {
	raws := c15Shapes[p.Shape]
	sc := &explore.Scenario{
		Family: "line-copy",
		Name:   fmt.Sprintf("line-copy/%s/fg=%d/bg=%d/track=%v", p.Shape, p.FG, p.BG, p.Tracking),
		Params: map[string]interface{}{"shape": p.Shape, "fg": p.FG, "bg": p.BG, "tracking": p.Tracking, "internal": p.Int},
		Opt:    vx.Options{MaxSteps: 40000},
	}
	if p.Int > 0 {
		sc.Name += fmt.Sprintf("/int=%d", p.Int)
	}
	nInt := p.Int
	if !c15HaveInternal {
		nInt = 0
	}
	expect := map[string]string{}
	var verb string
	for _, r := range raws {
		l := client.ParseLine(r)
		expect[r] = lineImage(l)
		verb = l.Cmd
	}
	sc.Main = func(env *vx.Env) {
		type kept struct {
			hid  string
			line *client.Line
			mine string
		}
		var retained []kept // lines handlers keep after returning: a later invocation must not touch them either
		c := NewClient("me", func(cfg *client.Config) { cfg.Version = "verif-test 1.0" })
		if p.Tracking {
			c.EnableStateTracking()
		}
		mk := func(id string) client.HandlerFunc {
			return func(conn *client.Conn, line *client.Line) {
				raw := line.Raw
				ev := 0
				if raw == raws[1] {
					ev = 1
				}
				hid := fmt.Sprintf("%s.e%d", id, ev)
				vx.Observe("ev", fmt.Sprintf("entry %s %s", hid, lineImage(line)))
				vx.Yield()
				scribble(line, hid)
				mine := lineImage(line)
				vx.Yield()
				again := lineImage(line)
				vx.Observe("ev", fmt.Sprintf("reread %s same=%v", hid, mine == again))
				retained = append(retained, kept{hid, line, mine})
			}
		}
		for i := 0; i < p.FG; i++ {
			c.HandleFunc(verb, mk(fmt.Sprintf("fg%d", i)))
		}
		for i := 0; i < p.BG; i++ {
			c.HandleBG(verb, mk(fmt.Sprintf("bg%d", i)))
		}
		for i := 0; i < nInt; i++ {
			c15HandleInternal(c, verb, mk(fmt.Sprintf("int%d", i)))
		}
		var vc *vx.Conn
		env.ConnSetup = func(x *vx.Conn) { vc = x }
		if err := c.Connect(); err != nil {
			return
		}
		vx.Quiesce()
		vc.SendLines(raws[0], raws[1])
		vx.Quiesce()
		// a third event of the same kind after everybody has returned, then look at the retained lines again
		vc.SendLines(raws[0])
		vx.Quiesce()
		for _, k := range retained {
			if lineImage(k.line) != k.mine {
				vx.Observe("ev", fmt.Sprintf("late %s changed-after-return", k.hid))
			}
		}
		vc.EOF()
		vx.Quiesce()
	}
	sc.Check = func(o *vx.Outcome) []explore.Finding {
		if fs := stdOutcome(o); fs != nil {
			return fs
		}
		var fs []explore.Finding
		entries := 0
		perHandler := map[string]int{}
		for _, r := range o.Log("ev") {
			f := strings.SplitN(r, " ", 3)
			switch f[0] {
			case "entry":
				entries++
				perHandler[f[1]]++
				ev := 0
				if strings.HasSuffix(f[1], ".e1") {
					ev = 1
				}
				if f[2] != expect[raws[ev]] {
					fs = append(fs, explore.Finding{Oracle: "line-differs-at-entry", Msg: fmt.Sprintf("handler %s received a line that differs from the parsed event: got %s, expected %s", f[1], f[2], expect[raws[ev]])})
				}
			case "late":
				fs = append(fs, explore.Finding{Oracle: "line-changed-after-handler-returned", Msg: fmt.Sprintf("handler %s kept its line; a later invocation changed it", f[1])})
			case "reread":
				if f[2] != "same=true" {
					fs = append(fs, explore.Finding{Oracle: "line-changed-under-handler", Msg: fmt.Sprintf("handler %s: the line it had edited changed while it was not looking (shared storage)", f[1])})
				}
			}
		}
		// the first event is sent twice (second time after everybody has returned), the second once: every handler
		// must have been given each of them that often (a handler that gets another event's line shows up here)
		for hid, n := range perHandler {
			want := 2
			if strings.HasSuffix(hid, ".e1") {
				want = 1
			}
			if n != want {
				fs = append(fs, explore.Finding{Oracle: "wrong-event-line", Msg: fmt.Sprintf("handler invocation %s: received that event's line %d times, expected %d (some invocation was handed the line of another event)", hid, n, want)})
				break
			}
		}
		if want := 3 * (p.FG + p.BG + nInt); entries != want {
			fs = append(fs, explore.Finding{Oracle: "delivery-count", Msg: fmt.Sprintf("%d handler invocations, expected %d", entries, want)})
		}
		// built-in handlers must have acted on the original line
		wire := strings.Join(o.Conns[0].Lines(), "\n")
		switch p.Shape {
		case "ping":
			if !HasLine(o.Conns[0].Lines(), "PONG :token-one") || !HasLine(o.Conns[0].Lines(), "PONG :token-two") {
				fs = append(fs, explore.Finding{Oracle: "builtin-saw-edited-line", Msg: "PING was not answered with its own token: " + Q(wire)})
			}
		case "ctcp":
			if !strings.Contains(wire, "NOTICE o :\x01VERSION verif-test 1.0\x01") || !strings.Contains(wire, "NOTICE o :\x01PING 12345\x01") {
				fs = append(fs, explore.Finding{Oracle: "builtin-saw-edited-line", Msg: "CTCP VERSION/PING not answered as for the original line: " + Q(wire)})
			}
		}
		return fs
	}
	return sc
}

// c15StreamScenario: a burst of n distinct lines (more than the input queue holds) to fg foreground and bg
// background handlers. Every handler records a deep image of what it is given and then edits it; per handler the
// images must be exactly the n parsed events, each once - whichever goroutine copies the line and whenever.
func c15StreamScenario(n, fg, bg int) *explore.Scenario {
	sc := &explore.Scenario{
		Family: "line-copy",
		Name:   fmt.Sprintf("line-copy/stream=%d/fg=%d/bg=%d", n, fg, bg),
		Params: map[string]interface{}{"stream": n, "fg": fg, "bg": bg},
		Opt:    vx.Options{MaxSteps: 200000},
	}
	var raws, images []string
	for i := 0; i < n; i++ {
		r := fmt.Sprintf("@n=%d;k :o%d!u@h FOO a%d :text %d", i, i, i, i)
		raws = append(raws, r)
		images = append(images, lineImage(client.ParseLine(r)))
	}
	sc.Main = func(env *vx.Env) {
		c := NewClient("me", nil)
		mk := func(id string) client.HandlerFunc {
			return func(conn *client.Conn, line *client.Line) {
				vx.Observe("ev", fmt.Sprintf("entry %s %s", id, lineImage(line)))
				scribble(line, id)
			}
		}
		for i := 0; i < fg; i++ {
			c.HandleFunc("FOO", mk(fmt.Sprintf("fg%d", i)))
		}
		for i := 0; i < bg; i++ {
			c.HandleBG("FOO", mk(fmt.Sprintf("bg%d", i)))
		}
		var vc *vx.Conn
		env.ConnSetup = func(x *vx.Conn) { vc = x }
		if err := c.Connect(); err != nil {
			return
		}
		vx.Quiesce()
		vc.SendLines(raws...)
		vx.Quiesce()
		vc.EOF()
		vx.Quiesce()
	}
	sc.Check = func(o *vx.Outcome) []explore.Finding {
		if fs := stdOutcome(o); fs != nil {
			return fs
		}
		got := map[string]map[string]int{}
		for _, r := range o.Log("ev") {
			f := strings.SplitN(r, " ", 3)
			if got[f[1]] == nil {
				got[f[1]] = map[string]int{}
			}
			got[f[1]][f[2]]++
		}
		var fs []explore.Finding
		var ids []string
		for i := 0; i < fg; i++ {
			ids = append(ids, fmt.Sprintf("fg%d", i))
		}
		for i := 0; i < bg; i++ {
			ids = append(ids, fmt.Sprintf("bg%d", i))
		}
		for _, id := range ids {
			for i, im := range images {
				if k := got[id][im]; k != 1 {
					var other string
					for x := range got[id] {
						known := false
						for _, y := range images {
							known = known || x == y
						}
						if !known {
							other = "; it was given " + x
							break
						}
					}
					fs = append(fs, explore.Finding{Oracle: "wrong-event-line", Msg: fmt.Sprintf("handler %s was given the parsed line of event %d of %d (%s) %d times, expected once%s", id, i, n, raws[i], k, other)})
					return fs
				}
			}
			for x, k := range got[id] {
				known := false
				for _, y := range images {
					known = known || x == y
				}
				if !known {
					fs = append(fs, explore.Finding{Oracle: "line-differs-at-entry", Msg: fmt.Sprintf("handler %s was given a line that is none of the parsed events (%d times): %s", id, k, x)})
					return fs
				}
			}
		}
		return fs
	}
	return sc
}

// c15LoneAdderScenario: an event with exactly one handler, which edits its line and (at its first event) registers
// a handler for the same event in the OTHER set. If the newcomer is given the event that is being dispatched, it
// must be given a line equal to the parsed event like anybody else.
func c15LoneAdderScenario(first string) *explore.Scenario {
	sc := &explore.Scenario{
		Family: "line-copy",
		Name:   "line-copy/lone-" + first + "-handler-adds-one-in-the-other-set",
		Params: map[string]interface{}{"lone": first},
		Opt:    vx.Options{MaxSteps: 40000},
	}
	raws := []string{"@a=b :o!u@h FOO x :first one", "@c=d :p!u@h FOO y :second one"}
	want := map[string]bool{}
	for _, r := range raws {
		want[lineImage(client.ParseLine(r))] = true
	}
	sc.Main = func(env *vx.Env) {
		c := NewClient("me", nil)
		added := false
		newcomer := client.HandlerFunc(func(conn *client.Conn, line *client.Line) {
			vx.Observe("ev", "entry newcomer "+lineImage(line))
			scribble(line, "newcomer")
		})
		lone := client.HandlerFunc(func(conn *client.Conn, line *client.Line) {
			vx.Observe("ev", "entry lone "+lineImage(line))
			scribble(line, "lone")
			if !added {
				added = true
				if first == "fg" {
					conn.HandleBG("FOO", newcomer)
				} else {
					conn.Handle("FOO", newcomer)
				}
			}
			vx.Yield()
		})
		if first == "fg" {
			c.Handle("FOO", lone)
		} else {
			c.HandleBG("FOO", lone)
		}
		var vc *vx.Conn
		env.ConnSetup = func(x *vx.Conn) { vc = x }
		if err := c.Connect(); err != nil {
			return
		}
		vx.Quiesce()
		vc.SendLines(raws...)
		vx.Quiesce()
		vc.EOF()
		vx.Quiesce()
	}
	sc.Check = func(o *vx.Outcome) []explore.Finding {
		if fs := stdOutcome(o); fs != nil {
			return fs
		}
		var fs []explore.Finding
		n := map[string]int{}
		for _, r := range o.Log("ev") {
			f := strings.SplitN(r, " ", 3)
			n[f[1]]++
			if !want[f[2]] {
				fs = append(fs, explore.Finding{Oracle: "line-differs-at-entry", Msg: fmt.Sprintf("handler %s was given a line that is neither of the two parsed events: %s", f[1], f[2])})
				break
			}
		}
		// a lone foreground handler has registered the newcomer before the second event is dispatched; a lone
		// background handler may run after both events have been dispatched
		min := 1
		if first == "bg" {
			min = 0
		}
		if n["lone"] != 2 || n["newcomer"] < min || n["newcomer"] > 2 {
			fs = append(fs, explore.Finding{Oracle: "delivery-count", Msg: fmt.Sprintf("the lone handler ran %d times (expected 2), the one it registered %d times (expected %d to 2)", n["lone"], n["newcomer"], min)})
		}
		return fs
	}
	return sc
}

// c15LifecycleScenario: the events the client makes itself (REGISTER, CONNECTED, DISCONNECTED) are lines too. A
// handler in the internal set takes a second of virtual time; the foreground and background handlers that run
// after it must be given the same event: same Cmd, no arguments, and the same Time.
func c15LifecycleScenario() *explore.Scenario {
	sc := &explore.Scenario{
		Family: "line-copy",
		Name:   "line-copy/lifecycle-events",
		Params: map[string]interface{}{"events": "REGISTER,CONNECTED,DISCONNECTED"},
		Opt:    vx.Options{MaxSteps: 40000, Horizon: time.Hour},
	}
	events := []string{client.REGISTER, client.CONNECTED, client.DISCONNECTED}
	sc.Main = func(env *vx.Env) {
		c := NewClient("me", nil)
		for _, ev := range events {
			ev := ev
			mk := func(id string, slow bool) client.HandlerFunc {
				return func(conn *client.Conn, line *client.Line) {
					vx.Observe("ev", fmt.Sprintf("entry %s %s cmd=%s args=%d time=%d", ev, id, line.Cmd, len(line.Args), line.Time.UnixNano()))
					if slow {
						vx.Sleep(time.Second)
					}
					line.Time = line.Time.Add(time.Hour)
					line.Cmd = id
				}
			}
			if c15HaveInternal {
				c15HandleInternal(c, ev, mk("int", true))
			}
			c.HandleFunc(ev, mk("fg0", true))
			c.HandleFunc(ev, mk("fg1", false))
			c.HandleBG(ev, mk("bg0", false))
		}
		var vc *vx.Conn
		env.ConnSetup = func(x *vx.Conn) { vc = x }
		if err := c.Connect(); err != nil {
			return
		}
		vx.Sleep(5 * time.Second)
		vx.Quiesce()
		vc.SendLines(welcome)
		vx.Sleep(5 * time.Second)
		vx.Quiesce()
		vc.EOF()
		vx.Sleep(5 * time.Second)
		vx.Quiesce()
	}
	sc.Check = func(o *vx.Outcome) []explore.Finding {
		if fs := stdOutcome(o); fs != nil {
			return fs
		}
		var fs []explore.Finding
		seen := map[string]map[string]string{}
		for _, r := range o.Log("ev") {
			f := strings.SplitN(r, " ", 4)
			if seen[f[1]] == nil {
				seen[f[1]] = map[string]string{}
			}
			seen[f[1]][f[2]] = f[3]
		}
		for _, ev := range events {
			want := 3
			if c15HaveInternal {
				want = 4
			}
			if len(seen[ev]) != want {
				fs = append(fs, explore.Finding{Oracle: "delivery-count", Msg: fmt.Sprintf("%s reached %d of %d handlers", ev, len(seen[ev]), want)})
				continue
			}
			ref := ""
			for _, id := range []string{"int", "fg0", "fg1", "bg0"} {
				img, ok := seen[ev][id]
				if !ok {
					continue
				}
				if !strings.HasPrefix(img, "cmd="+ev+" args=0 ") {
					fs = append(fs, explore.Finding{Oracle: "line-differs-at-entry", Msg: fmt.Sprintf("handler %s of %s was given %s", id, ev, img)})
				}
				if ref == "" {
					ref = img
				} else if img != ref {
					fs = append(fs, explore.Finding{Oracle: "line-differs-at-entry", Msg: fmt.Sprintf("the handlers of one %s event were given different lines: %s was given {%s}, an earlier one {%s}", ev, id, img, ref)})
				}
			}
		}
		if len(fs) > 1 {
			fs = fs[:1]
		}
		return fs
	}
	return sc
}

func init() {
	Register(&Prop{
		ID:   "C15",
		Rule: "two consecutive events of each line shape {PING, tagged PRIVMSG, 0/1/2/15 arguments, tags without arguments, CTCP, JOIN with tracking} delivered to 1-3 foreground and 0-2 background handlers (two shapes also to 10 and 17 foreground / 9 background handlers; and, for five shapes, two more handlers registered in the internal set next to the built-in ones); every handler records a deep image at entry, edits every argument, tag and field with handler-unique values, and re-reads after yielding; plus REGISTER / CONNECTED / DISCONNECTED delivered to an internal, two foreground and a background handler of which two take a second of virtual time (same Cmd, no arguments, same Time for all); plus an event with one single handler that edits its line and registers a handler for the same event in the other set; plus a burst of 40 distinct tagged lines (more than the input queue holds) to 1+2 and 0+3 handlers, each handler's images compared with the 40 parsed events; every execution within the deviation budgets; distinct = distinct canonical observation per scenario",
		Assumptions: []string{
			"interleavings at synchronisation/channel/socket granularity plus explicit yields inside handlers (DESIGN.md 3.8)",
			"'equal to the parsed event' is judged against ParseLine of the wire text (C01 judges the parser itself)",
		},
		Jobs: func(tier string) []Job {
			var jobs []Job
			type hc struct{ fg, bg int }
			hcs := []hc{{1, 0}, {2, 0}, {2, 1}, {1, 2}, {3, 2}}
			shapes := []string{"ping", "tags", "noargs", "onearg", "twoargs", "fifteen", "ctcp", "join", "emptytags", "sixteen", "tagsnoargs"}
			for _, sh := range shapes {
				for _, h := range hcs {
					if tier != "thorough" && h.fg+h.bg >= 5 && sh != "tags" && sh != "ping" {
						continue
					}
					bs := []explore.Budget{{0, 0}, {1, 0}, {2, 0}}
					if tier == "thorough" && h.fg+h.bg <= 3 {
						bs = append(bs, explore.Budget{K: 3})
					}
					spec := ExploreSpec{Sc: c15Scenario(c15Params{Shape: sh, FG: h.fg, BG: h.bg, Tracking: sh == "join"}), Variants: []int{1, 2, 3}, Budgets: bs, Cache: true}
					if tier != "thorough" {
						spec.Shallow = []int{2}
					}
					if len(jobs) == 1 {
						spec.CrossChk = &explore.Budget{K: 2}
					}
					jobs = append(jobs, ExploreJob("C15", spec, 10*(h.fg+h.bg)))
				}
			}
			// many background handlers: the background dispatch of one event is still starting handlers when the
			// next event's begins (round-robin default)
			for _, sh := range []string{"noargs", "tags"} {
				jobs = append(jobs, ExploreJob("C15", ExploreSpec{Sc: c15Scenario(c15Params{Shape: sh, FG: 0, BG: 24}), Variants: []int{3, 1}, Budgets: []explore.Budget{{0, 0}, {1, 0}}, Cache: true}, 60))
			}
			// many handlers in one set (more than any fixed-size worker pool or buffer a dispatcher might use)
			for _, sh := range []string{"tags", "noargs"} {
				for _, h := range []hc{{10, 0}, {1, 9}, {17, 0}} {
					spec := ExploreSpec{Sc: c15Scenario(c15Params{Shape: sh, FG: h.fg, BG: h.bg}), Variants: []int{1, 2, 3}, Budgets: []explore.Budget{{0, 0}, {1, 0}}, Cache: true}
					jobs = append(jobs, ExploreJob("C15", spec, 60))
				}
			}
			// a burst of distinct lines longer than the input queue: whatever storage a line is parsed into must not be
			// reused while a handler invocation for it is still to come
			for _, h := range []hc{{1, 2}, {0, 3}} {
				bs := []explore.Budget{{0, 0}}
				if tier == "thorough" {
					bs = append(bs, explore.Budget{K: 1})
				}
				jobs = append(jobs, ExploreJob("C15", ExploreSpec{Sc: c15StreamScenario(40, h.fg, h.bg), Variants: []int{1, 2, 3}, Budgets: bs, Cache: true}, 60))
			}
			jobs = append(jobs, ExploreJob("C15", ExploreSpec{Sc: c15LifecycleScenario(), Variants: []int{1, 2, 3}, Budgets: []explore.Budget{{0, 0}, {1, 0}}, Cache: true}, 20))
			// an event with one single handler, which registers another one in the other set while it runs
			for _, first := range []string{"fg", "bg"} {
				jobs = append(jobs, ExploreJob("C15", ExploreSpec{Sc: c15LoneAdderScenario(first), Variants: []int{1, 2, 3}, Budgets: []explore.Budget{{0, 0}, {1, 0}, {2, 0}}, Cache: true}, 20))
			}
			// extra handlers in the internal set (next to the built-in ones), which edit their lines like the others
			for _, sh := range []string{"ping", "tags", "ctcp", "join", "noargs"} {
				spec := ExploreSpec{Sc: c15Scenario(c15Params{Shape: sh, FG: 1, BG: 1, Int: 2, Tracking: sh == "join"}), Variants: []int{1, 2, 3}, Budgets: []explore.Budget{{0, 0}, {1, 0}, {2, 0}}, Cache: true}
				if tier != "thorough" {
					spec.Shallow = []int{2}
				}
				jobs = append(jobs, ExploreJob("C15", spec, 30))
			}
			return jobs
		},
	})
}
