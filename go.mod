module verif

go 1.22.0

toolchain go1.23.5

require golang.org/x/tools v0.29.0

replace github.com/fluffle/goirc => /repo
