package harness

// Reference model for C10 (flood protection follows Hybrid's penalty rule),
// written from the property statement and DESIGN.md Appendix D, in exact
// integer nanoseconds. It never looks at the client's internals.
//
//   charge of a line of n bytes (without CRLF):  L = 2 s + floor(n * 1 s / 120)
//   state (B, t0), initially (0, client creation time)
//   accounting at time a:  B := max(0, B + L - (a - t0));  t0 := a
//   hold s = L if B > 10 s (strictly), else 0
//   the line is written at a + s (or later, if the socket does not accept it)
//
// The send path is one goroutine: the accounting of a line happens when the
// line is dequeued, i.e. at max(time it was issued, time the previous line's
// write completed).

const (
	c10Sec       int64 = 1000000000
	c10Threshold int64 = 10 * c10Sec
)

// c10Charge is the charge of a line of n bytes, in ns.
func c10Charge(n int) int64 { return 2*c10Sec + int64(n)*c10Sec/120 }

// c10Model is the penalty state.
type c10Model struct {
	B  int64 // penalty after the last accounting, ns
	T0 int64 // time of the last accounting (initially: creation time), ns
}

// Account charges one line of n bytes at time a and returns the hold.
func (m *c10Model) Account(a int64, n int) (hold int64) {
	L := c10Charge(n)
	b := m.B + L - (a - m.T0)
	if b < 0 {
		b = 0
	}
	m.B = b
	m.T0 = a
	if b > c10Threshold {
		return L
	}
	return 0
}

// c10In is one line offered to the send path.
type c10In struct {
	Issue int64 // time the line was handed to the client (ns since creation)
	N     int   // its length in bytes, without CRLF
	// Release is the earliest time the socket accepts this line (0 = always):
	// used by the back-pressure pass, where the write of a line cannot
	// complete before the server has drained the previous one.
	Release int64
	// Unprotected: the line is dequeued while Flood is set; it is neither
	// charged nor held.
	Unprotected bool
}

// c10Step is the model's account of one line.
type c10Step struct {
	A    int64 // time of dequeue = time of accounting
	L    int64 // charge
	B    int64 // penalty right after the accounting
	Hold int64 // hold applied
	W    int64 // predicted time the write completes
}

// c10Sim is the model of the whole send path: the penalty state plus the
// completion time of the previous write.
type c10Sim struct {
	M     c10Model
	PrevW int64
	Any   bool // a line has been sent
}

// Step offers the next line and returns the model's account of it.
func (s *c10Sim) Step(x c10In) c10Step {
	a := x.Issue
	if s.Any && s.PrevW > a {
		a = s.PrevW
	}
	st := c10Step{A: a, L: c10Charge(x.N)}
	if x.Unprotected {
		st.L = 0
	} else {
		st.Hold = s.M.Account(a, x.N)
	}
	st.B = s.M.B
	st.W = a + st.Hold
	if x.Release > st.W {
		st.W = x.Release
	}
	s.PrevW = st.W
	s.Any = true
	return st
}

// c10Predict runs the model over a whole history, created at time 0.
func c10Predict(in []c10In) []c10Step {
	var s c10Sim
	out := make([]c10Step, len(in))
	for k, x := range in {
		out[k] = s.Step(x)
	}
	return out
}

// c10Window checks the delay-independent window bound of the statement on
// observed write times w (ns) of consecutive lines with byte lengths n:
// for every run i..j,  sum(charges i..j) <= (w_j - w_i) + 10 s + the two
// largest charges of the run. It returns the first violated run, or ok.
func c10Window(w []int64, n []int) (i, j int, excess int64, ok bool) {
	for i = 0; i < len(w); i++ {
		var sum, max1, max2 int64
		for j = i; j < len(w); j++ {
			L := c10Charge(n[j])
			sum += L
			if L > max1 {
				max1, max2 = L, max1
			} else if L > max2 {
				max2 = L
			}
			if ex := sum - (w[j] - w[i]) - c10Threshold - max1 - max2; ex > 0 {
				return i, j, ex, false
			}
		}
	}
	return 0, 0, 0, true
}
