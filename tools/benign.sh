#!/bin/bash
# usage: tools/benign.sh [refactorNN ...]
# Applies each behaviour-preserving refactoring of benign/ to a scratch copy of /repo HEAD (never to /repo)
# and runs every quick check against it. Prints one line per (refactoring, check) that is not a clean pass:
# a VIOLATION there is a false alarm of the machinery.
export GOFLAGS=-mod=mod GOPROXY=off GOSUMDB=off GOTOOLCHAIN=local
V=$(cd "$(dirname "$0")/.." && pwd)
list=("$@"); [ ${#list[@]} -eq 0 ] && list=($(cd $V/benign && ls refactor*.diff | sed 's/.diff$//'))
for n in "${list[@]}"; do
  d=$V/benign/$n.diff
  sc=/root/scratch-mut/benign-$n; rm -rf $sc; mkdir -p $sc
  git -C /repo archive HEAD | tar -x -C $sc
  (cd $sc && patch -p1 -s < $d) || { echo "$n: PATCH FAILED"; rm -rf $sc; continue; }
  (cd $sc && go build ./... ) || { echo "$n: BUILD FAILED"; rm -rf $sc; continue; }
  echo "=== $n"
  cd $V
  for p in C01 C02 C03 C04 C05 C06 C07 C08 C09 C10 C11 C12 C13 C14 C15 C16 C17 C18 C19 C20; do
    ev=$(mktemp -d)
    out=$(VERIF_REPO=$sc VERIF_EVIDENCE_DIR=$ev VERIF_REPLAY_DIR=$ev ./bin/verif check $p 2>&1); rc=$?
    if [ $rc -ne 0 ] || echo "$out" | grep -q "INCONCLUSIVE\|exhaustive=false"; then
      echo "$n $p rc=$rc :: $(echo "$out" | grep -E '^(VIOLATION|INCONCLUSIVE|  oracle)' | head -4 | cut -c1-300 | tr '\n' ' ') :: $(echo "$out" | tail -1 | cut -c1-160)"
    fi
    rm -rf $ev
  done
  echo "$n done"
  rm -rf $sc
done
