package harness

// Reference model of the state tracker (DESIGN.md Appendix B), used by C12
// (oracle), C14 (image of returned values, linearizability oracle) and as the
// "what should the tracker say" oracle elsewhere.
//
// Written from the C12 statement, Appendix B and the doc comments of the
// Tracker methods -- not from the implementation. State is three plain maps of
// values plus the name of the client's own nick; every answer is built fresh,
// by value, so nothing the model hands out can alias its state.
//
// What the statement fixes: rename carries memberships and privileges and `me`
// follows a rename of me; removing me from a channel or deleting a channel
// forgets the channel and every other nick thereby left on no channel; deleting
// a nick removes its memberships; me can never be deleted; Wipe forgets every
// channel. What it does not fix is taken from the method comments: unknown
// names answer nil / false, NewNick / NewChannel of a tracked or empty name
// answer nil, a rename onto a tracked name is refused, DelNick / DelChannel
// answer the snapshot taken after the removal.
//
// Left unspecified by the property (see trackerModel.Unspecified): which mode
// argument is consumed by a privilege letter naming a non-member, or by "-k",
// when further argument-taking letters follow.

import (
	"sort"
	"strconv"
)

// ---------------------------------------------------------------- operations

const (
	opNewNick = iota
	opGetNick
	opReNick
	opDelNick
	opNickInfo
	opNickModes
	opNewChannel
	opGetChannel
	opDelChannel
	opTopic
	opChannelModes
	opMe
	opIsOn
	opAssociate
	opDissociate
	opWipe
	opString
)

var trackerOpNames = [...]string{"NewNick", "GetNick", "ReNick", "DelNick", "NickInfo", "NickModes",
	"NewChannel", "GetChannel", "DelChannel", "Topic", "ChannelModes", "Me", "IsOn", "Associate", "Dissociate", "Wipe", "String"}

// trackerOp is one call of the Tracker interface. A and B are the name
// arguments in call order (nick | old,new | channel | channel,nick); X holds
// the remaining arguments (ident,host,name | modestr | topic | modestr,args...).
type trackerOp struct {
	Kind int
	A, B string
	X    []string
}

func (o trackerOp) nameArgs() int {
	switch o.Kind {
	case opMe, opWipe, opString:
		return 0
	case opReNick, opIsOn, opAssociate, opDissociate:
		return 2
	}
	return 1
}

// String renders the call as Go source, enough to replay it by hand.
func (o trackerOp) String() string {
	s := trackerOpNames[o.Kind] + "("
	var args []string
	switch o.nameArgs() {
	case 1:
		args = append(args, o.A)
	case 2:
		args = append(args, o.A, o.B)
	}
	args = append(args, o.X...)
	for i, a := range args {
		if i > 0 {
			s += ","
		}
		s += Q(a)
	}
	return s + ")"
}

// returnsValue: the operation has a result (everything but Dissociate, Wipe; String's is not compared).
func (o trackerOp) returnsValue() bool {
	return o.Kind != opDissociate && o.Kind != opWipe && o.Kind != opString
}

func histText(h []trackerOp) string {
	s := ""
	for i, o := range h {
		if i > 0 {
			s += "; "
		}
		s += o.String()
	}
	if s == "" {
		return "(empty history)"
	}
	return s
}

// ---------------------------------------------------------------- model state

type mNickMode struct{ Bot, Invisible, Oper, WallOps, HiddenHost, SSL bool }

type mChanMode struct {
	Private, Secret, ProtectedTopic, NoExternalMsg, Moderated bool
	InviteOnly, OperOnly, SSLOnly                             bool
	Registered, AllSSL                                        bool
	Key                                                       string
	Limit                                                     int
}

type mPrivs struct{ Owner, Admin, Op, HalfOp, Voice bool }

type mNick struct {
	ident, host, name string
	modes             mNickMode
}

type mChan struct {
	topic string
	modes mChanMode
}

type mPair struct{ c, n string }

type trackerModel struct {
	me    string
	nicks map[string]mNick
	chans map[string]mChan
	on    map[mPair]mPrivs
	// quiet: answers are not built (every operation answers nil); used only
	// when a history is replayed for its effect, e.g. while enumerating states
	quiet bool
}

// Snapshots handed out by the model: plain values, maps built per answer.
type mNickSnap struct {
	Nick, Ident, Host, Name string
	Modes                   mNickMode
	Channels                map[string]mPrivs
}

type mChanSnap struct {
	Name, Topic string
	Modes       mChanMode
	Nicks       map[string]mPrivs
}

func newTrackerModel(me string) *trackerModel {
	return &trackerModel{me: me, nicks: map[string]mNick{me: {}}, chans: map[string]mChan{}, on: map[mPair]mPrivs{}}
}

func (m *trackerModel) Clone() *trackerModel {
	c := &trackerModel{me: m.me, nicks: make(map[string]mNick, len(m.nicks)), chans: make(map[string]mChan, len(m.chans)), on: make(map[mPair]mPrivs, len(m.on))}
	for k, v := range m.nicks {
		c.nicks[k] = v
	}
	for k, v := range m.chans {
		c.chans[k] = v
	}
	for k, v := range m.on {
		c.on[k] = v
	}
	return c
}

// copyFrom makes m an independent copy of src (reusing m's maps).
func (m *trackerModel) copyFrom(src *trackerModel) {
	m.me = src.me
	clear(m.nicks)
	clear(m.chans)
	clear(m.on)
	for k, v := range src.nicks {
		m.nicks[k] = v
	}
	for k, v := range src.chans {
		m.chans[k] = v
	}
	for k, v := range src.on {
		m.on[k] = v
	}
}

func (m *trackerModel) nickSnap(n string) *mNickSnap {
	nk, ok := m.nicks[n]
	if !ok || m.quiet {
		return nil
	}
	s := &mNickSnap{Nick: n, Ident: nk.ident, Host: nk.host, Name: nk.name, Modes: nk.modes, Channels: map[string]mPrivs{}}
	for p, pr := range m.on {
		if p.n == n {
			s.Channels[p.c] = pr
		}
	}
	return s
}

func (m *trackerModel) chanSnap(c string) *mChanSnap {
	ch, ok := m.chans[c]
	if !ok || m.quiet {
		return nil
	}
	s := &mChanSnap{Name: c, Topic: ch.topic, Modes: ch.modes, Nicks: map[string]mPrivs{}}
	for p, pr := range m.on {
		if p.c == c {
			s.Nicks[p.n] = pr
		}
	}
	return s
}

// forget drops channel c with its memberships and every nick other than me
// that is thereby left on no channel.
func (m *trackerModel) forget(c string) {
	var members []string
	for p := range m.on {
		if p.c == c {
			members = append(members, p.n)
		}
	}
	delete(m.chans, c)
	for _, n := range members {
		delete(m.on, mPair{c, n})
	}
	for _, n := range members {
		if n != m.me && !m.onAny(n) {
			delete(m.nicks, n)
		}
	}
}

func (m *trackerModel) onAny(n string) bool {
	for p := range m.on {
		if p.n == n {
			return true
		}
	}
	return false
}

// ---------------------------------------------------------------- the Tracker interface, on the model

func (m *trackerModel) Me() *mNickSnap { return m.nickSnap(m.me) }

func (m *trackerModel) NewNick(n string) *mNickSnap {
	if n == "" {
		return nil
	}
	if _, ok := m.nicks[n]; ok {
		return nil
	}
	m.nicks[n] = mNick{}
	return m.nickSnap(n)
}

func (m *trackerModel) GetNick(n string) *mNickSnap { return m.nickSnap(n) }

func (m *trackerModel) ReNick(old, neu string) *mNickSnap {
	nk, ok := m.nicks[old]
	if !ok {
		return nil
	}
	if _, taken := m.nicks[neu]; taken {
		return nil
	}
	delete(m.nicks, old)
	m.nicks[neu] = nk
	var moved []mPair
	for p := range m.on {
		if p.n == old {
			moved = append(moved, p)
		}
	}
	for _, p := range moved {
		pr := m.on[p]
		delete(m.on, p)
		m.on[mPair{p.c, neu}] = pr
	}
	if m.me == old {
		m.me = neu
	}
	return m.nickSnap(neu)
}

func (m *trackerModel) DelNick(n string) *mNickSnap {
	nk, ok := m.nicks[n]
	if !ok || n == m.me {
		return nil
	}
	for p := range m.on {
		if p.n == n {
			delete(m.on, p)
		}
	}
	delete(m.nicks, n)
	if m.quiet {
		return nil
	}
	// the answer is the nick as it is after the removal: attributes, no channels
	return &mNickSnap{Nick: n, Ident: nk.ident, Host: nk.host, Name: nk.name, Modes: nk.modes, Channels: map[string]mPrivs{}}
}

func (m *trackerModel) NickInfo(n, ident, host, name string) *mNickSnap {
	nk, ok := m.nicks[n]
	if !ok {
		return nil
	}
	nk.ident, nk.host, nk.name = ident, host, name
	m.nicks[n] = nk
	return m.nickSnap(n)
}

func (m *trackerModel) NickModes(n, modes string) *mNickSnap {
	nk, ok := m.nicks[n]
	if !ok {
		return nil
	}
	add := false
	for i := 0; i < len(modes); i++ {
		switch modes[i] {
		case '+':
			add = true
		case '-':
			add = false
		case 'B':
			nk.modes.Bot = add
		case 'i':
			nk.modes.Invisible = add
		case 'o':
			nk.modes.Oper = add
		case 'w':
			nk.modes.WallOps = add
		case 'x':
			nk.modes.HiddenHost = add
		case 'z':
			nk.modes.SSL = add
		}
	}
	m.nicks[n] = nk
	return m.nickSnap(n)
}

func (m *trackerModel) NewChannel(c string) *mChanSnap {
	if c == "" {
		return nil
	}
	if _, ok := m.chans[c]; ok {
		return nil
	}
	m.chans[c] = mChan{}
	return m.chanSnap(c)
}

func (m *trackerModel) GetChannel(c string) *mChanSnap { return m.chanSnap(c) }

func (m *trackerModel) DelChannel(c string) *mChanSnap {
	ch, ok := m.chans[c]
	if !ok {
		return nil
	}
	m.forget(c)
	if m.quiet {
		return nil
	}
	// the answer is the channel as it is after the removal: attributes, no members
	return &mChanSnap{Name: c, Topic: ch.topic, Modes: ch.modes, Nicks: map[string]mPrivs{}}
}

func (m *trackerModel) Topic(c, topic string) *mChanSnap {
	ch, ok := m.chans[c]
	if !ok {
		return nil
	}
	ch.topic = topic
	m.chans[c] = ch
	return m.chanSnap(c)
}

func isPrivLetter(b byte) bool { return b == 'q' || b == 'a' || b == 'o' || b == 'h' || b == 'v' }

func (m *trackerModel) ChannelModes(c, modes string, args ...string) *mChanSnap {
	ch, ok := m.chans[c]
	if !ok {
		return nil
	}
	add := false
	for i := 0; i < len(modes); i++ {
		switch l := modes[i]; l {
		case '+':
			add = true
		case '-':
			add = false
		case 'i':
			ch.modes.InviteOnly = add
		case 'm':
			ch.modes.Moderated = add
		case 'n':
			ch.modes.NoExternalMsg = add
		case 'p':
			ch.modes.Private = add
		case 'r':
			ch.modes.Registered = add
		case 's':
			ch.modes.Secret = add
		case 't':
			ch.modes.ProtectedTopic = add
		case 'z':
			ch.modes.SSLOnly = add
		case 'Z':
			ch.modes.AllSSL = add
		case 'O':
			ch.modes.OperOnly = add
		case 'k':
			if !add {
				ch.modes.Key = ""
			} else if len(args) > 0 {
				ch.modes.Key, args = args[0], args[1:]
			}
		case 'l':
			if !add {
				ch.modes.Limit = 0
			} else if len(args) > 0 {
				ch.modes.Limit, args = decimalOrZero(args[0]), args[1:]
			}
		case 'q', 'a', 'o', 'h', 'v':
			if len(args) == 0 {
				break
			}
			pr, member := m.on[mPair{c, args[0]}]
			if !member {
				break // not consumed (unspecified when argument-taking letters follow: never asked)
			}
			switch l {
			case 'q':
				pr.Owner = add
			case 'a':
				pr.Admin = add
			case 'o':
				pr.Op = add
			case 'h':
				pr.HalfOp = add
			case 'v':
				pr.Voice = add
			}
			m.on[mPair{c, args[0]}] = pr
			args = args[1:]
		}
	}
	m.chans[c] = ch
	return m.chanSnap(c)
}

// decimalOrZero: a limit argument that is not a plain decimal number counts as 0.
// (Only plain digit strings and obviously non-numeric strings are ever asked.)
func decimalOrZero(s string) int {
	if s == "" {
		return 0
	}
	for i := 0; i < len(s); i++ {
		if s[i] < '0' || s[i] > '9' {
			return 0
		}
	}
	v, err := strconv.Atoi(s)
	if err != nil {
		return 0
	}
	return v
}

func (m *trackerModel) IsOn(c, n string) (mPrivs, bool) {
	_, nok := m.nicks[n]
	_, cok := m.chans[c]
	if !nok || !cok {
		return mPrivs{}, false
	}
	pr, ok := m.on[mPair{c, n}]
	return pr, ok
}

func (m *trackerModel) Associate(c, n string) (mPrivs, bool) {
	_, nok := m.nicks[n]
	_, cok := m.chans[c]
	if !nok || !cok {
		return mPrivs{}, false
	}
	if _, already := m.on[mPair{c, n}]; already {
		return mPrivs{}, false
	}
	m.on[mPair{c, n}] = mPrivs{}
	return mPrivs{}, true
}

func (m *trackerModel) Dissociate(c, n string) {
	_, nok := m.nicks[n]
	_, cok := m.chans[c]
	if !nok || !cok {
		return
	}
	if _, member := m.on[mPair{c, n}]; !member {
		return
	}
	if n == m.me {
		m.forget(c)
		return
	}
	delete(m.on, mPair{c, n})
	if !m.onAny(n) {
		delete(m.nicks, n)
	}
}

func (m *trackerModel) Wipe() {
	var cs []string
	for c := range m.chans {
		cs = append(cs, c)
	}
	for _, c := range cs {
		m.forget(c)
	}
}

// Unspecified reports whether the result of op in the current state is left
// open by the property: a ChannelModes call on a tracked channel in which
// (a) a privilege letter finds an argument that does not name a member, or
// (b) a key is removed ("-k"), and a later letter of the same mode string can
// take an argument (k, l, q, a, o, h, v -- regardless of sign, to stay on the
// safe side). Such (state, call) pairs are never executed by the harnesses.
func (m *trackerModel) Unspecified(op trackerOp) bool {
	if op.Kind != opChannelModes || len(op.X) == 0 {
		return false
	}
	if _, ok := m.chans[op.A]; !ok {
		return false
	}
	modes, args := op.X[0], op.X[1:]
	laterTakesArg := func(i int) bool {
		for j := i + 1; j < len(modes); j++ {
			if l := modes[j]; l == 'k' || l == 'l' || isPrivLetter(l) {
				return true
			}
		}
		return false
	}
	// membership as it evolves is not affected by a mode string, so the
	// current relation decides
	add := false
	for i := 0; i < len(modes); i++ {
		switch l := modes[i]; l {
		case '+':
			add = true
		case '-':
			add = false
		case 'k':
			if !add {
				if laterTakesArg(i) {
					return true
				}
			} else if len(args) > 0 {
				args = args[1:]
			}
		case 'l':
			if add && len(args) > 0 {
				args = args[1:]
			}
		case 'q', 'a', 'o', 'h', 'v':
			if len(args) == 0 {
				break
			}
			if _, member := m.on[mPair{op.A, args[0]}]; member {
				args = args[1:]
			} else if laterTakesArg(i) {
				return true
			}
		}
	}
	return false
}

// ---------------------------------------------------------------- canonical text (model side)
//
// The same format is produced from the implementation's values by the
// functions in c12.go (appendImplNick, ...); keys sorted, every field shown.

func appendBoolLetters(b []byte, letters string, vals ...bool) []byte {
	n := 0
	for i, v := range vals {
		if v {
			b = append(b, letters[i])
			n++
		}
	}
	if n == 0 {
		b = append(b, '-')
	}
	return b
}

func appendQ(b []byte, s string) []byte { return strconv.AppendQuote(b, s) }

func (p mPrivs) appendTo(b []byte) []byte {
	b = append(b, '+')
	return appendBoolLetters(b, "qaohv", p.Owner, p.Admin, p.Op, p.HalfOp, p.Voice)
}

func (nm mNickMode) appendTo(b []byte) []byte {
	b = append(b, '+')
	return appendBoolLetters(b, "Biowxz", nm.Bot, nm.Invisible, nm.Oper, nm.WallOps, nm.HiddenHost, nm.SSL)
}

func (cm mChanMode) appendTo(b []byte) []byte {
	b = append(b, '+')
	b = appendBoolLetters(b, "pstnmiOzrZ", cm.Private, cm.Secret, cm.ProtectedTopic, cm.NoExternalMsg, cm.Moderated,
		cm.InviteOnly, cm.OperOnly, cm.SSLOnly, cm.Registered, cm.AllSSL)
	b = append(b, " k="...)
	b = appendQ(b, cm.Key)
	b = append(b, " l="...)
	b = strconv.AppendInt(b, int64(cm.Limit), 10)
	return b
}

func appendModelPrivMap(b []byte, mp map[string]mPrivs) []byte {
	keys := make([]string, 0, len(mp))
	for k := range mp {
		keys = append(keys, k)
	}
	sort.Strings(keys)
	b = append(b, '[')
	for i, k := range keys {
		if i > 0 {
			b = append(b, ' ')
		}
		b = appendQ(b, k)
		b = append(b, ':')
		b = mp[k].appendTo(b)
	}
	return append(b, ']')
}

func (s *mNickSnap) appendTo(b []byte) []byte {
	if s == nil {
		return append(b, "nil"...)
	}
	b = append(b, "Nick{"...)
	b = appendQ(b, s.Nick)
	b = append(b, ' ')
	b = appendQ(b, s.Ident)
	b = append(b, '@')
	b = appendQ(b, s.Host)
	b = append(b, ' ')
	b = appendQ(b, s.Name)
	b = append(b, " modes="...)
	b = s.Modes.appendTo(b)
	b = append(b, " chans="...)
	b = appendModelPrivMap(b, s.Channels)
	return append(b, '}')
}

func (s *mChanSnap) appendTo(b []byte) []byte {
	if s == nil {
		return append(b, "nil"...)
	}
	b = append(b, "Channel{"...)
	b = appendQ(b, s.Name)
	b = append(b, " topic="...)
	b = appendQ(b, s.Topic)
	b = append(b, " modes="...)
	b = s.Modes.appendTo(b)
	b = append(b, " nicks="...)
	b = appendModelPrivMap(b, s.Nicks)
	return append(b, '}')
}

func appendModelPrivsOK(b []byte, p mPrivs, ok bool) []byte {
	if !ok {
		return append(b, "nil"...)
	}
	b = append(b, "Privs{"...)
	b = p.appendTo(b)
	return append(b, '}')
}

// Apply executes op on the model and returns the canonical text of its result
// ("" for operations without a compared result). IsOn renders as
// "Privs{...},true" / "nil,false".
func (m *trackerModel) Apply(op trackerOp) string {
	return string(m.AppendApply(nil, op))
}

func (m *trackerModel) AppendApply(b []byte, op trackerOp) []byte {
	x := func(i int) string {
		if i < len(op.X) {
			return op.X[i]
		}
		return ""
	}
	switch op.Kind {
	case opNewNick:
		return m.NewNick(op.A).appendTo(b)
	case opGetNick:
		return m.GetNick(op.A).appendTo(b)
	case opReNick:
		return m.ReNick(op.A, op.B).appendTo(b)
	case opDelNick:
		return m.DelNick(op.A).appendTo(b)
	case opNickInfo:
		return m.NickInfo(op.A, x(0), x(1), x(2)).appendTo(b)
	case opNickModes:
		return m.NickModes(op.A, x(0)).appendTo(b)
	case opNewChannel:
		return m.NewChannel(op.A).appendTo(b)
	case opGetChannel:
		return m.GetChannel(op.A).appendTo(b)
	case opDelChannel:
		return m.DelChannel(op.A).appendTo(b)
	case opTopic:
		return m.Topic(op.A, x(0)).appendTo(b)
	case opChannelModes:
		var args []string
		if len(op.X) > 1 {
			args = op.X[1:]
		}
		return m.ChannelModes(op.A, x(0), args...).appendTo(b)
	case opMe:
		return m.Me().appendTo(b)
	case opIsOn:
		p, ok := m.IsOn(op.A, op.B)
		b = appendModelPrivsOK(b, p, ok)
		if ok {
			return append(b, ",true"...)
		}
		return append(b, ",false"...)
	case opAssociate:
		p, ok := m.Associate(op.A, op.B)
		return appendModelPrivsOK(b, p, ok)
	case opDissociate:
		m.Dissociate(op.A, op.B)
	case opWipe:
		m.Wipe()
	case opString:
	}
	return b
}

// Do executes op for its effect only.
func (m *trackerModel) Do(op trackerOp) {
	q := m.quiet
	m.quiet = true
	m.AppendApply(nil, op)
	m.quiet = q
}

// trackerNames is the set of names over which the observable state is taken.
type trackerNames struct {
	Nicks, Chans []string
}

// AppendObserve renders what Me, GetNick, GetChannel and IsOn answer for every
// name and pair of u.
func (m *trackerModel) AppendObserve(b []byte, u *trackerNames) []byte {
	b = append(b, "me="...)
	b = m.Me().appendTo(b)
	for _, n := range u.Nicks {
		b = append(b, "\nnick "...)
		b = appendQ(b, n)
		b = append(b, '=')
		b = m.GetNick(n).appendTo(b)
	}
	for _, c := range u.Chans {
		b = append(b, "\nchan "...)
		b = appendQ(b, c)
		b = append(b, '=')
		b = m.GetChannel(c).appendTo(b)
	}
	for _, c := range u.Chans {
		for _, n := range u.Nicks {
			b = append(b, "\non "...)
			b = appendQ(b, c)
			b = append(b, ',')
			b = appendQ(b, n)
			b = append(b, '=')
			p, ok := m.IsOn(c, n)
			b = appendModelPrivsOK(b, p, ok)
			if ok {
				b = append(b, ",true"...)
			} else {
				b = append(b, ",false"...)
			}
		}
	}
	return b
}

func (m *trackerModel) Observe(u *trackerNames) string { return string(m.AppendObserve(nil, u)) }

// AppendStateKey appends an injective binary encoding of the model state
// (used only to deduplicate model states during the breadth-first closure).
func (m *trackerModel) AppendStateKey(b []byte) []byte {
	str := func(s string) {
		b = append(b, byte(len(s)>>8), byte(len(s)))
		b = append(b, s...)
	}
	bits := func(vs ...bool) {
		var x, n byte
		for _, v := range vs {
			if n == 8 {
				b = append(b, x)
				x, n = 0, 0
			}
			x <<= 1
			if v {
				x |= 1
			}
			n++
		}
		b = append(b, x)
	}
	str(m.me)
	var nbuf, cbuf [8]string
	ns := nbuf[:0]
	for n := range m.nicks {
		ns = append(ns, n)
	}
	sortFewStrings(ns)
	b = append(b, byte(len(ns)))
	for _, n := range ns {
		nk := m.nicks[n]
		str(n)
		str(nk.ident)
		str(nk.host)
		str(nk.name)
		bits(nk.modes.Bot, nk.modes.Invisible, nk.modes.Oper, nk.modes.WallOps, nk.modes.HiddenHost, nk.modes.SSL)
	}
	cs := cbuf[:0]
	for c := range m.chans {
		cs = append(cs, c)
	}
	sortFewStrings(cs)
	b = append(b, byte(len(cs)))
	for _, c := range cs {
		ch := m.chans[c]
		str(c)
		str(ch.topic)
		cm := ch.modes
		bits(cm.Private, cm.Secret, cm.ProtectedTopic, cm.NoExternalMsg, cm.Moderated, cm.InviteOnly, cm.OperOnly, cm.SSLOnly, cm.Registered, cm.AllSSL)
		str(cm.Key)
		b = strconv.AppendInt(b, int64(cm.Limit), 10)
		b = append(b, 0)
	}
	var pbuf [16]mPair
	ps := pbuf[:0]
	for p := range m.on {
		ps = append(ps, p)
	}
	for i := 1; i < len(ps); i++ {
		for j := i; j > 0 && (ps[j].c < ps[j-1].c || (ps[j].c == ps[j-1].c && ps[j].n < ps[j-1].n)); j-- {
			ps[j], ps[j-1] = ps[j-1], ps[j]
		}
	}
	b = append(b, byte(len(ps)))
	for _, p := range ps {
		pr := m.on[p]
		str(p.c)
		str(p.n)
		bits(pr.Owner, pr.Admin, pr.Op, pr.HalfOp, pr.Voice)
	}
	return b
}

// sortFewStrings: insertion sort (the slices here have a handful of elements).
func sortFewStrings(a []string) {
	for i := 1; i < len(a); i++ {
		for j := i; j > 0 && a[j] < a[j-1]; j-- {
			a[j], a[j-1] = a[j-1], a[j]
		}
	}
}
