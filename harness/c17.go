package harness

import (
	"fmt"
	"strings"

	"github.com/fluffle/goirc/client"

	"verif/explore"
	"verif/vx"
)

// C17: the client always knows its own current nick.
//
// The reference model is the SERVER's view of the client's nick, written from
// the statement:
//
//   - before the welcome the server's view is the last NICK the client put on
//     the wire that the server has not refused. A 433 naming that nick makes the
//     client request generator(nick); the model follows what the client sent
//     (which must be exactly "NICK <generator(refused)>").
//   - a 433 that names some other nick (one the client does not hold) changes
//     nothing in the server's view; the client must still answer it with
//     "NICK <generator(refused)>" (that request stays outstanding, exactly like
//     a request after the welcome that the server has not confirmed).
//   - the welcome fixes the view to the nick 001 is addressed to.
//   - afterwards only NICK lines whose source nick is the client's current nick
//     change the view (confirmation of a request, or a forced rename).
//
// Nothing is demanded of Config().Me beyond "not nil", nothing of ident/host.

type c17Cfg struct {
	Track bool   // state tracking enabled before connecting
	Gen   string // default | caret | const
	Nick  string // nick the client is configured with
	Peek  bool   // true: only Config().Me is read at intermediate steps, Me() only after the last step
}

func (c c17Cfg) String() string {
	return fmt.Sprintf("track=%v gen=%s nick=%s observe=%s", c.Track, c.Gen, c.Nick, map[bool]string{false: "every-step", true: "last-step"}[c.Peek])
}

func c17Gen(name string) func(string) string {
	switch name {
	case "caret", "caret-late":
		return func(s string) string { return s + "^" }
	case "const":
		return func(string) string { return "zed" }
	}
	return client.DefaultNewNick
}

// c17Model is the server's view plus what is needed to derive the next symbols.
type c17Model struct {
	Post bool   // welcome sent
	Cur  string // the nick the server uses for the client
	Prev string // the nick before that ("" = none)
	Sent string // before the welcome: the last NICK the client put on the wire
	Coll int    // 433s sent before the welcome
}

func (m c17Model) key() string {
	if m.Post {
		return fmt.Sprintf("post|%s|%s", m.Cur, m.Prev)
	}
	return fmt.Sprintf("pre|%s|%s|%s|%d", m.Cur, m.Prev, m.Sent, m.Coll)
}

type c17Step struct {
	Kind string // 433req 433other 001same 001diff nick-ok nick-refused nick-refused-then-ok forced other
	A, B string
}

const c17InUse = " :Nickname is already in use"

// text renders the step for a human replay: S = line sent by the server,
// C = call made on the client.
func (st c17Step) text(cur string) string {
	switch st.Kind {
	case "433req", "433other":
		return "S " + Q(":srv 433 * "+st.A+c17InUse)
	case "001same", "001diff":
		return "S " + Q(c17Welcome(st.A))
	case "nick-ok":
		return "C Nick(" + Q(st.A) + ") S " + Q(":"+cur+"!ident@host NICK "+st.A)
	case "nick-refused":
		return "C Nick(" + Q(st.A) + ") S " + Q(":srv 433 "+cur+" "+st.A+c17InUse)
	case "nick-refused-then-ok":
		return "C Nick(" + Q(st.A) + ") S " + Q(":srv 433 "+cur+" "+st.A+c17InUse) + " S " + Q(":"+cur+"!ident@host NICK "+st.B)
	case "forced":
		return "S " + Q(":"+cur+"!ident@host NICK :"+st.A)
	case "other":
		return "S " + Q(":"+st.A+"!u@h NICK "+st.B)
	}
	return "?"
}

// c17Class groups step kinds for oracle ids.
func c17Class(kind string) string {
	switch kind {
	case "433req", "433other":
		return "collision"
	case "001same", "001diff":
		return "welcome"
	case "other":
		return "other-users-nick"
	}
	return "rename"
}

// c17BareWelcome: the welcome of the session being run ends in free text instead of the client's mask (the mask is
// a courtesy of some servers, not part of the numeric). Set per run from the configuration: sessions of the nick
// "w9" get the bare wording, sessions of "bob" the one with the mask.
var c17BareWelcome bool

func c17Welcome(nick string) string {
	if c17BareWelcome {
		return ":srv 001 " + nick + " :Welcome to the Example Internet Relay Chat Network"
	}
	return ":srv 001 " + nick + " :Welcome " + nick + "!ident@host"
}

func c17Prefix(s string) string {
	if len(s) <= 1 {
		return ""
	}
	return s[:len(s)-1]
}

// c17Alt is s with its last character replaced (one character from s).
func c17Alt(s string) string {
	if s == "" {
		return ""
	}
	c := "x"
	if s[len(s)-1] == 'x' {
		c = "y"
	}
	return s[:len(s)-1] + c
}

// c17Case is s with the letter case of its first character flipped ("" if that changes nothing).
func c17Case(s string) string {
	if s == "" {
		return ""
	}
	c := s[0]
	switch {
	case c >= 'a' && c <= 'z':
		c -= 32
	case c >= 'A' && c <= 'Z':
		c += 32
	default:
		return ""
	}
	return string(c) + s[1:]
}

// uniq keeps the first occurrence of every name that is non-empty and not excluded.
func c17Uniq(names []string, exclude ...string) []string {
	var out []string
next:
	for _, n := range names {
		if n == "" {
			continue
		}
		for _, x := range exclude {
			if n == x {
				continue next
			}
		}
		for _, o := range out {
			if n == o {
				continue next
			}
		}
		out = append(out, n)
	}
	return out
}

// c17Steps lists the alphabet available in model state m.
func c17Steps(m c17Model, gen func(string) string) []c17Step {
	var st []c17Step
	if !m.Post {
		if m.Coll < 3 {
			st = append(st, c17Step{Kind: "433req", A: m.Cur})
			for _, o := range c17Uniq([]string{c17Alt(m.Cur), "qux", m.Sent, c17Prefix(m.Cur)}, m.Cur) {
				st = append(st, c17Step{Kind: "433other", A: o})
			}
		}
		st = append(st, c17Step{Kind: "001same", A: m.Cur})
		for _, n := range c17Uniq([]string{"neo", c17Prefix(m.Cur), m.Sent, m.Cur + "x", c17Case(m.Cur)}, m.Cur) {
			st = append(st, c17Step{Kind: "001diff", A: n})
		}
		return st
	}
	for _, x := range c17Uniq([]string{"neo", m.Prev, m.Cur + "x", c17Alt(m.Cur), c17Case(m.Cur)}, m.Cur) {
		st = append(st, c17Step{Kind: "nick-ok", A: x})
		st = append(st, c17Step{Kind: "nick-refused", A: x})
		if g := gen(x); g != m.Cur && g != "" {
			st = append(st, c17Step{Kind: "nick-refused-then-ok", A: x, B: g})
		}
	}
	for _, y := range c17Uniq([]string{"kim", m.Prev, c17Prefix(m.Cur), m.Cur, c17Case(m.Cur), "42XAAAAAB"}) {
		st = append(st, c17Step{Kind: "forced", A: y})
	}
	// other users: names equal to / prefixes of / one character from the
	// client's current and previous nick. The source is never the client's
	// current nick (that would be the client's own rename).
	os := c17Uniq([]string{m.Prev, c17Prefix(m.Cur), c17Alt(m.Cur), m.Cur + "x", "qux"}, m.Cur)
	ps := []string{m.Cur, m.Prev, c17Prefix(m.Cur), c17Alt(m.Cur), m.Cur + "x", "qux"}
	for _, o := range os {
		for _, p := range c17Uniq(ps, o) {
			st = append(st, c17Step{Kind: "other", A: o, B: p})
		}
	}
	return st
}

// c17Apply is the model's transition function.
func c17Apply(m c17Model, st c17Step, gen func(string) string) c17Model {
	switch st.Kind {
	case "433req":
		m.Prev, m.Cur = m.Cur, gen(st.A)
		m.Sent = m.Cur
		m.Coll++
	case "433other":
		m.Sent = gen(st.A)
		m.Coll++
	case "001same":
		m.Post = true
	case "001diff":
		m.Post = true
		m.Prev, m.Cur = m.Cur, st.A
	case "nick-ok":
		m.Prev, m.Cur = m.Cur, st.A
	case "nick-refused":
		// the server's view is unchanged
	case "nick-refused-then-ok":
		m.Prev, m.Cur = m.Cur, st.B
	case "forced":
		if st.A != m.Cur {
			m.Prev, m.Cur = m.Cur, st.A
		}
	case "other":
		// the server's view is unchanged
	}
	if m.Post {
		m.Sent, m.Coll = "", 0
	}
	return m
}

type c17Res struct {
	Oracle string
	Msg    string
	Step   int // index of the step at which the oracle failed (-1: before the first step)
	Note   string
}

// c17Run plays one script against a real client and returns the first oracle failure (nil: all held).
func c17Run(cfg c17Cfg, script []c17Step) *c17Res {
	c17BareWelcome = cfg.Nick != "bob"
	defer func() { c17BareWelcome = false }()
	gen := c17Gen(cfg.Gen)
	var res *c17Res
	fail := func(step int, oracle, msg string) {
		if res == nil {
			res = &c17Res{Oracle: oracle, Msg: msg, Step: step}
		}
	}
	o := RunSeq(vx.Options{MaxSteps: 200000}, func(env *vx.Env) {
		s, err := StartSession(env, cfg.Nick, func(c *client.Config) {
			if cfg.Gen != "default" && cfg.Gen != "caret-late" {
				c.NewNick = gen
			}
		}, func(c *client.Conn) {
			if cfg.Track {
				c.EnableStateTracking()
			}
			if cfg.Gen == "caret-late" {
				// the configured generator is whatever Config().NewNick holds when the collision arrives
				c.Config().NewNick = gen
			}
		})
		if err != nil {
			res = &c17Res{Note: "connect failed: " + err.Error()}
			return
		}
		// the model starts from what the client actually put on the wire
		m := c17Model{}
		for _, l := range s.Wire() {
			if strings.HasPrefix(l, "NICK ") {
				m.Cur = l[len("NICK "):]
				m.Sent = m.Cur
			}
		}
		if m.Cur == "" {
			res = &c17Res{Note: "no NICK on the wire after connecting: " + joinQ(s.Wire())}
			return
		}
		// check reads Config().Me as it is, then Me(), then Config().Me again,
		// each into a local of its own.
		check := func(i int, full bool, when string) bool {
			c0 := s.C.Config().Me
			if c0 == nil {
				// the id names the kind of step after which the nil was seen
				id := "config-me-nil"
				if i >= 0 {
					id += "/after-" + c17Class(script[i].Kind)
				}
				fail(i, id, "Config().Me is nil "+when)
				return false
			}
			if !full {
				return true
			}
			me := s.C.Me()
			if me == nil {
				fail(i, "me-nil", "Me() is nil "+when)
				return false
			}
			c1 := s.C.Config().Me
			if c1 == nil {
				fail(i, "config-me-nil", "Config().Me is nil right after Me() "+when)
				return false
			}
			if me.Nick != m.Cur {
				fail(i, "me-nick", fmt.Sprintf("Me().Nick=%s but the server uses %s %s", Q(me.Nick), Q(m.Cur), when))
				return false
			}
			return true
		}
		// collision: the 433 line must be followed on the wire by exactly NICK <generator(refused)>
		collide := func(i int, line, refused string) bool {
			n0 := len(s.Wire())
			s.Feed(line)
			got := s.WireSince(n0)
			want := "NICK " + gen(refused)
			if len(got) != 1 || got[0] != want {
				fail(i, "collision-answer", fmt.Sprintf("433 refusing %s answered on the wire by %s, want exactly [%s]", Q(refused), joinQ(got), Q(want)))
				return false
			}
			return true
		}
		// request: the client asks for nick x; the server's view is unchanged until it answers
		request := func(i int, x string) bool {
			n0 := len(s.Wire())
			s.C.Nick(x)
			vx.Quiesce()
			got := s.WireSince(n0)
			if len(got) != 1 || got[0] != "NICK "+x {
				// sending the command is not this property's business: stop, note
				if res == nil {
					res = &c17Res{Step: i, Note: "Nick(" + Q(x) + ") put " + joinQ(got) + " on the wire"}
				}
				return false
			}
			return check(i, !cfg.Peek, "after the client asked for "+Q(x)+" and before the server answered")
		}
		if !check(-1, !cfg.Peek || len(script) == 0, "after registration") {
			return
		}
		for i, st := range script {
			last := i == len(script)-1
			cur := m.Cur
			ok := true
			switch st.Kind {
			case "433req", "433other":
				ok = collide(i, ":srv 433 * "+st.A+c17InUse, st.A)
			case "001same", "001diff":
				s.Feed(c17Welcome(st.A))
			case "nick-ok":
				if ok = request(i, st.A); ok {
					s.Feed(":" + cur + "!ident@host NICK " + st.A)
				}
			case "nick-refused":
				if ok = request(i, st.A); ok {
					ok = collide(i, ":srv 433 "+cur+" "+st.A+c17InUse, st.A)
				}
			case "nick-refused-then-ok":
				if ok = request(i, st.A); ok {
					if ok = collide(i, ":srv 433 "+cur+" "+st.A+c17InUse, st.A); ok {
						if ok = check(i, !cfg.Peek, "after the refusal of "+Q(st.A)); ok {
							s.Feed(":" + cur + "!ident@host NICK " + st.B)
						}
					}
				}
			case "forced":
				s.Feed(":" + cur + "!ident@host NICK :" + st.A)
			case "other":
				s.Feed(":" + st.A + "!u@h NICK " + st.B)
			}
			if !ok {
				return
			}
			m = c17Apply(m, st, gen)
			if !check(i, last || !cfg.Peek, fmt.Sprintf("after step %d (%s)", i+1, st.Kind)) {
				return
			}
		}
	})
	if res != nil && res.Oracle != "" {
		return res
	}
	switch o.Kind {
	case "crash":
		return &c17Res{Oracle: "crash", Msg: o.Crash.Task + ": panic: " + o.Crash.Value + " @ " + o.Crash.Top, Step: len(script) - 1}
	case "ok":
	default:
		return &c17Res{Oracle: o.Kind, Msg: "session did not finish: " + o.BlockedSig(), Step: len(script) - 1}
	}
	return res
}

func c17ScriptText(cfg c17Cfg, script []c17Step) string {
	gen := c17Gen(cfg.Gen)
	m := c17Model{Cur: cfg.Nick, Sent: cfg.Nick}
	var parts []string
	for _, st := range script {
		parts = append(parts, st.text(m.Cur))
		m = c17Apply(m, st, gen)
	}
	return cfg.String() + ": connect; " + strings.Join(parts, "; ")
}

type c17Node struct {
	m    c17Model
	path []c17Step
}

// c17Nodes walks the MODEL breadth-first (no client involved) and returns, in
// breadth-first order, one node per distinct model state reachable by a script
// shorter than depth, with the first (shortest) script that reaches it.
func c17Nodes(cfg c17Cfg, depth int) []c17Node {
	gen := c17Gen(cfg.Gen)
	root := c17Node{m: c17Model{Cur: cfg.Nick, Sent: cfg.Nick}}
	visited := map[string]bool{root.m.key(): true}
	all := []c17Node{root}
	frontier := []c17Node{root}
	for d := 1; d < depth; d++ {
		var next []c17Node
		for _, n := range frontier {
			for _, st := range c17Steps(n.m, gen) {
				m2 := c17Apply(n.m, st, gen)
				if k := m2.key(); !visited[k] {
					visited[k] = true
					next = append(next, c17Node{m: m2, path: append(append([]c17Step{}, n.path...), st)})
				}
			}
		}
		all = append(all, next...)
		frontier = next
	}
	return all
}

// c17Job evaluates every symbol available in the model states number
// shard, shard+nshards, ... of the breadth-first walk. For a state reached by
// the script P, with view-changing symbols c1..ck and view-preserving symbols
// l1..ln (refused request, forced rename to the same nick, other users' NICK):
//
//	P+ci            every view-changing symbol on its own
//	P+l1+...+ln     all view-preserving symbols in a row, judged after each
//	P+l1+...+ln+ci  every view-changing symbol after all the view-preserving ones
//
// Every script is run from a fresh connect. A failure located inside P is not
// reported here: the job that owns the shorter script reports it.
func c17Job(cfg c17Cfg, shard, nshards, depth int) Job {
	gen := c17Gen(cfg.Gen)
	name := fmt.Sprintf("session/%s/shard=%d.%d/depth=%d", strings.ReplaceAll(cfg.String(), " ", ","), shard, nshards, depth)
	family := "session-untracked"
	if cfg.Track {
		family = "session-tracked"
	}
	return Job{Name: name, Cost: 10, Run: func(jc *JobCtx) *JobResult {
		e := NewEnum(name)
		params := map[string]interface{}{"tracking": cfg.Track, "generator": cfg.Gen, "nick": cfg.Nick, "observe": map[bool]string{false: "every-step", true: "last-step"}[cfg.Peek]}
		notes := map[string]bool{}
		prefixFails := 0
		minimised := map[string]int{}
		// minimise drops view-preserving steps (index >= p) as long as the same oracle still fails
		minimise := func(script []c17Step, p int, r *c17Res) ([]c17Step, *c17Res) {
			if r.Step >= 0 && r.Step+1 < len(script) {
				script = script[:r.Step+1]
			}
			for i := len(script) - 2; i >= p; i-- {
				cand := append(append([]c17Step{}, script[:i]...), script[i+1:]...)
				if r2 := c17Run(cfg, cand); r2 != nil && r2.Oracle == r.Oracle && (r2.Step >= p || p == 0) {
					script, r = cand, r2
				}
			}
			return script, r
		}
		// judge runs one script whose first p steps are the (already judged) path; n = cases it stands for
		judge := func(script []c17Step, p int, n int64) bool {
			r := c17Run(cfg, script)
			if r != nil && r.Oracle != "" && r.Step < p && p > 0 {
				prefixFails++
				return false
			}
			text := c17ScriptText(cfg, script)
			e.CaseN(n, text)
			if r == nil {
				if len(e.R.Samples) < 2 && len(script) >= depth {
					e.Sample(map[string]interface{}{"script": text, "verdict": "held"})
				}
				return true
			}
			if r.Oracle == "" {
				if !notes[r.Note] && len(notes) < 5 {
					notes[r.Note] = true
					e.R.Notes = append(e.R.Notes, "script abandoned (not judged): "+r.Note+" -- "+text)
				}
				return false
			}
			if minimised[r.Oracle] < 3 && len(script) > p+1 {
				minimised[r.Oracle]++
				script, r = minimise(script, p, r)
				text = c17ScriptText(cfg, script)
			}
			e.Fail(family, r.Oracle, text, fmt.Sprintf("at step %d of %d: %s", r.Step+1, len(script), r.Msg), params)
			return false
		}
		nodes := c17Nodes(cfg, depth)
		mine := 0
	walk:
		for idx, n := range nodes {
			if idx%nshards != shard {
				continue
			}
			mine++
			var loops, changes []c17Step
			for _, st := range c17Steps(n.m, gen) {
				if c17Apply(n.m, st, gen).key() == n.m.key() {
					loops = append(loops, st)
				} else {
					changes = append(changes, st)
				}
			}
			p := len(n.path)
			with := func(extra ...c17Step) []c17Step { return append(append([]c17Step{}, n.path...), extra...) }
			for _, c := range changes {
				judge(with(c), p, 1)
			}
			if len(loops) > 0 {
				judged := int64(len(loops))
				if cfg.Peek {
					judged = 1 // only the end of the row is observed through Me()
				}
				if judge(with(loops...), p, judged) {
					for _, c := range changes {
						judge(with(append(append([]c17Step{}, loops...), c)...), p, 1)
					}
				}
			}
			if e.TooMany() {
				e.Incomplete("too many distinct violations")
				break walk
			}
			if jc.Expired() {
				e.Incomplete(fmt.Sprintf("deadline at model state %d of %d", idx, len(nodes)))
				break walk
			}
		}
		if prefixFails > 0 {
			e.R.Notes = append(e.R.Notes, fmt.Sprintf("%d scripts not counted: they extend a shorter script that already fails (reported by the job owning it)", prefixFails))
		}
		e.R.Bounds = append(e.R.Bounds, fmt.Sprintf("path length < %d (+1 symbol, + the row of view-preserving symbols), <= 3 collisions before the welcome; %d of %d model states expanded by this shard", depth, mine, len(nodes)))
		return e.Done()
	}}
}

// c17DefaultGenJob: client.DefaultNewNick over all 256 last bytes x three prefixes.
func c17DefaultGenJob() Job {
	name := "default-generator/all-last-bytes"
	return Job{Name: name, Cost: 1, Run: func(jc *JobCtx) *JobResult {
		e := NewEnum(name)
		call := func(in string) (out string, panicked interface{}) {
			defer func() { panicked = recover() }()
			return client.DefaultNewNick(in), nil
		}
		for _, prefix := range []string{"", "ab", strings.Repeat("a", 30), "guest1", "x9", "99", "a}", "Z~", "Ren\xe9", "\xff\xfe", "h\u00e9l\u00e8ne", "\x80"} {
			for b := 0; b < 256; b++ {
				in := prefix + string([]byte{byte(b)})
				e.Case(in)
				out, p := call(in)
				params := map[string]interface{}{"prefix_len": len(prefix), "last_byte": b}
				switch {
				case p != nil:
					e.Fail("default-generator", "newnick-panic", Q(in), fmt.Sprintf("DefaultNewNick(%s) panicked: %v", Q(in), p), params)
				case out == in:
					e.Fail("default-generator", "newnick-same", Q(in), fmt.Sprintf("DefaultNewNick(%s) returned its input", Q(in)), params)
				case len(out) != len(in):
					e.Fail("default-generator", "newnick-length", Q(in), fmt.Sprintf("DefaultNewNick(%s)=%s: length %d, want %d", Q(in), Q(out), len(out), len(in)), params)
				case out[:len(out)-1] != prefix:
					e.Fail("default-generator", "newnick-prefix", Q(in), fmt.Sprintf("DefaultNewNick(%s)=%s differs before the last character", Q(in), Q(out)), params)
				}
				if len(e.R.Samples) < 3 && (b == '9' || b == '}' || b == 0xe9) && prefix == "ab" {
					e.Sample(map[string]string{"in": in, "out": out})
				}
			}
		}
		// the empty nick: nothing is claimed beyond "does not panic"
		e.Case("")
		if _, p := call(""); p != nil {
			e.Fail("default-generator", "newnick-panic", Q(""), fmt.Sprintf("DefaultNewNick(\"\") panicked: %v", p), nil)
		}
		e.R.Bounds = append(e.R.Bounds, "all 256 values of the last byte x 12 prefixes (empty, letters, 30 bytes, ending in a digit / 9 / } / ~, with Latin-1 / invalid UTF-8 / multi-byte characters before the last byte); plus the empty nick (no panic only)")
		return e.Done()
	}}
}

func c17Configs() []c17Cfg {
	var cfgs []c17Cfg
	for _, track := range []bool{false, true} {
		for _, gen := range []string{"default", "caret", "const"} {
			for _, nick := range []string{"bob", "w9"} {
				cfgs = append(cfgs, c17Cfg{Track: track, Gen: gen, Nick: nick})
				if track {
					// without tracking Me() has no side effect: observing at every
					// step and observing at the end are the same experiment
					cfgs = append(cfgs, c17Cfg{Track: track, Gen: gen, Nick: nick, Peek: true})
				}
			}
		}
		cfgs = append(cfgs, c17Cfg{Track: track, Gen: "caret-late", Nick: "bob"})
	}
	return cfgs
}

// c17VariantsJob: welcome lines with and without the nick!user@host mask, addressed to the requested or a
// different (e.g. truncated) nick, after 0-3 collisions answered by a STATEFUL generator (one that walks a list
// of alternatives, so calling it twice for one collision is observable); tracking on and off.
func c17VariantsJob() Job {
	name := "session/welcome-and-generator-variants"
	return Job{Name: name, Cost: 2, Run: func(jc *JobCtx) *JobResult {
		e := NewEnum(name)
		for _, track := range []bool{false, true} {
			for _, stateful := range []bool{false, true} {
				for coll := 0; coll <= 3; coll++ {
					for _, mask := range []string{"own", "none", "foreign", "requested"} {
						for _, other := range []bool{false, true} {
							var outputs []string
							gen := func(old string) string {
								n := fmt.Sprintf("%s-alt%d", old, len(outputs)+1)
								outputs = append(outputs, n)
								return n
							}
							in := fmt.Sprintf("track=%v stateful-generator=%v collisions=%d welcome-mask=%s welcome-other-nick=%v", track, stateful, coll, mask, other)
							params := map[string]interface{}{"tracking": track, "stateful": stateful, "collisions": coll, "mask": mask, "other": other}
							var fails []string
							o := RunSeq(vx.Options{MaxSteps: 200000}, func(env *vx.Env) {
								s, err := StartSession(env, "bob", func(c *client.Config) {
									if stateful {
										c.NewNick = gen
									}
								}, func(c *client.Conn) {
									if track {
										c.EnableStateTracking()
									}
								})
								if err != nil {
									return
								}
								cur := "bob"
								for i := 0; i < coll; i++ {
									n := len(s.Wire())
									s.Feed(":srv 433 * " + cur + " :Nickname is already in use")
									sent := ""
									for _, l := range s.WireSince(n) {
										if strings.HasPrefix(l, "NICK ") {
											sent = strings.TrimPrefix(strings.TrimPrefix(l, "NICK "), ":")
										}
									}
									if sent == "" || sent == cur {
										fails = append(fails, fmt.Sprintf("collision-answer|collision %d for %q was not answered with a NICK for a different nick (sent %q)", i+1, cur, sent))
										return
									}
									cur = sent
									cfgMe := s.C.Config().Me
									me := s.C.Me()
									if cfgMe == nil || me == nil {
										fails = append(fails, "me-nil|Me() or Config().Me is nil after a collision")
										return
									}
									if me.Nick != cur {
										fails = append(fails, fmt.Sprintf("me-nick|after collision %d the client asked the server for %q but Me().Nick is %q", i+1, cur, me.Nick))
										return
									}
								}
								wn := cur
								if other {
									wn = "bobby" // the server changed (e.g. truncated) the nick on connect
								}
								text := "Welcome to the Internet Relay Network"
								switch mask {
								case "own":
									text += " " + wn + "!ident@host.example"
								case "foreign": // the text ends in somebody else's mask
									text += ", report problems to ops!staff@example.org"
								case "requested": // the mask still shows the nick that was asked for
									text += " " + cur + "!ident@host.example"
								}
								s.Feed(":srv 001 " + wn + " :" + text)
								cfgMe := s.C.Config().Me
								me := s.C.Me()
								if cfgMe == nil || me == nil {
									fails = append(fails, "me-nil|Me() or Config().Me is nil after the welcome")
								} else if me.Nick != wn {
									fails = append(fails, fmt.Sprintf("me-nick|the welcome line was addressed to %q but Me().Nick is %q", wn, me.Nick))
								}
								// the client's next own rename is recognised as its own
								s.Feed(":" + wn + "!ident@host.example NICK :neo")
								if me := s.C.Me(); me == nil || s.C.Config().Me == nil {
									fails = append(fails, "me-nil|Me() or Config().Me is nil after a rename following the welcome")
								} else if me.Nick != "neo" {
									fails = append(fails, fmt.Sprintf("me-nick|after the welcome to %q the server renamed the client to \"neo\" but Me().Nick is %q", wn, me.Nick))
								}
								s.End()
							})
							e.Case(in)
							if o.Kind != "ok" {
								e.Fail("session-variants", o.Kind, in, "session did not finish: "+o.BlockedSig(), params)
							}
							for _, f := range fails {
								sp := strings.SplitN(f, "|", 2)
								e.Fail("session-variants", sp[0], in, sp[1], params)
							}
						}
					}
				}
			}
		}
		e.Sample(map[string]interface{}{"example": "track=true stateful-generator=true collisions=2 welcome-mask=none welcome-other-nick=true"})
		return e.Done()
	}}
}

// c17ReaderScenario: "never nil" with an observer that is not a handler. Another task of the application reads
// Config().Me and Me() again and again while the welcome, a collision and renames are processed; every schedule
// within the budgets.
func c17ReaderScenario(tracking bool, welcomeNick string) *explore.Scenario {
	sc := &explore.Scenario{
		Family: "me-reader",
		Name:   fmt.Sprintf("me-reader/tracking=%v/welcome=%s", tracking, welcomeNick),
		Params: map[string]interface{}{"tracking": tracking, "welcome": welcomeNick},
		Opt:    vx.Options{MaxSteps: 60000},
	}
	sc.Main = func(env *vx.Env) {
		c := NewClient("bob", nil)
		if tracking {
			c.EnableStateTracking()
		}
		var vc *vx.Conn
		env.ConnSetup = func(x *vx.Conn) { vc = x }
		if err := c.Connect(); err != nil {
			return
		}
		vx.Quiesce()
		stop := false
		done := vx.NewCounter("reader-done")
		env.Go("reader", func() {
			for i := 0; i < 40 && !stop; i++ {
				if c.Config().Me == nil {
					vx.Observe("ev", "config-me-nil")
				}
				vx.Yield()
				if c.Me() == nil {
					vx.Observe("ev", "me-nil")
				}
				vx.Yield()
			}
			done.Add(1)
		})
		vc.SendLines(":irc.example 433 * bob :Nickname is already in use.")
		vc.SendLines(c17Welcome(welcomeNick))
		vc.SendLines(":" + welcomeNick + "!ident@host NICK :robert")
		vc.SendLines(":o!u@h NICK :p")
		vx.Quiesce()
		stop = true
		done.WaitFor(1)
		me := c.Me()
		vx.Observe("ev", fmt.Sprintf("end me-nil=%v", me == nil))
		vc.EOF()
		vx.Quiesce()
	}
	sc.Check = func(o *vx.Outcome) []explore.Finding {
		if fs := stdOutcome(o); fs != nil {
			return fs
		}
		var fs []explore.Finding
		for _, r := range o.Log("ev") {
			switch r {
			case "config-me-nil":
				fs = append(fs, explore.Finding{Oracle: "config-me-nil", Msg: "another task of the application found Config().Me nil while server lines were being processed"})
			case "me-nil", "end me-nil=true":
				fs = append(fs, explore.Finding{Oracle: "me-nil", Msg: "another task of the application got nil from Me() while server lines were being processed"})
			}
			if len(fs) > 0 {
				break
			}
		}
		return fs
	}
	return sc
}

func init() {
	Register(&Prop{
		ID:   "C17",
		Rule: "the MODEL (server's view: phase, current and previous nick, outstanding request, collisions so far) is walked breadth-first over the alphabet {433 for the requested nick / for another nick, 001 to the requested / another nick, client Nick(x) confirmed / refused / refused and the follow-up confirmed, forced NICK, other users' NICK between names equal to, prefixes of and one character from the client's current and previous nick; new nicks include the current one with the case of its first letter flipped}, keeping the shortest script P (shorter than the tier's length: quick 4, thorough 6; at most 3 collisions before the welcome) per distinct model state; for every such state the real client is run, from a fresh connect each time, on P+c for every view-changing symbol c, on P followed by all view-preserving symbols in a row (judged after each), and on P + that row + c; x tracking on/off x generator {default, s+\"^\", constant \"zed\"; s+\"^\" installed through Config() after Client() returned} x nick {bob, w9 (whose welcome ends in free text instead of the mask)} x (tracked only) Me() read at every step / only after the last step. One case = one judged (configuration, script); failures are minimised by dropping view-preserving steps. Family me-reader: a task that is not a handler reads Config().Me and Me() in a loop while a collision, the welcome (to the requested nick, to the nick the generator made, to another one) and two renames are processed, every schedule within two deviations. Family default-generator: DefaultNewNick on all 256 last bytes x 12 prefixes (ASCII, Latin-1 / invalid UTF-8 / multi-byte)",
		Assumptions: []string{
			"a 433 naming a nick the client does not hold leaves the server's view unchanged; the NICK the client sends in answer stays outstanding (the script may later address the welcome to it)",
			"'character' in 'differs only in its last character' is a byte (IRC nicks are byte strings); DefaultNewNick(\"\") is only required not to panic",
			"Config().Me is only required to be non-nil, its fields are not compared (with tracking it is a snapshot that Me() refreshes)",
			"the server never refuses or confirms a NICK to the nick the client already holds, and never uses the client's current nick as the source of another user's NICK",
			"nick comparison is byte-exact (no IRC case folding), as in the library",
		},
		Jobs: func(tier string) []Job {
			depth := 4
			if tier == "thorough" {
				depth = 6
			}
			var jobs []Job
			for _, cfg := range c17Configs() {
				nsh := 2
				if tier == "thorough" {
					nsh = 8
				}
				for sh := 0; sh < nsh; sh++ {
					jobs = append(jobs, c17Job(cfg, sh, nsh, depth))
				}
			}
			jobs = append(jobs, c17DefaultGenJob(), c17VariantsJob())
			for _, tr := range []bool{false, true} {
				for _, w := range []string{"bob", "boc", "other"} {
					jobs = append(jobs, ExploreJob("C17", ExploreSpec{Sc: c17ReaderScenario(tr, w), Variants: []int{1, 2, 3}, Budgets: []explore.Budget{{0, 0}, {1, 0}, {2, 0}}, Cache: true}, 30))
				}
			}
			return jobs
		},
	})
}
