// Command verif is the runner: it instruments and builds the current /repo
// working tree (cached by content hash), fans a property's jobs out over worker
// processes, merges their results, matches known findings, writes the evidence
// file and replay files, and prints VIOLATION / KNOWN-FINDING lines.
package main

import (
	"bufio"
	"crypto/sha256"
	"encoding/hex"
	"encoding/json"
	"fmt"
	"io"
	"os"
	"os/exec"
	"path/filepath"
	"runtime"
	"sort"
	"strconv"
	"strings"
	"sync"
	"syscall"
	"time"

	"verif/engine/vinstr"
)

var (
	verifDir = envOr("VERIF_DIR", "/verif")
	repoDir  = envOr("VERIF_REPO", "/repo")
)

func envOr(k, d string) string {
	if v := os.Getenv(k); v != "" {
		return v
	}
	return d
}

func goEnv() []string {
	env := os.Environ()
	env = append(env, "GOFLAGS=-mod=mod", "GOPROXY=off", "GOSUMDB=off", "GOTOOLCHAIN=local", "CGO_ENABLED=0")
	return env
}

func main() {
	if len(os.Args) < 2 {
		usage()
	}
	switch os.Args[1] {
	case "build":
		bin, err := ensureBuild()
		if err != nil {
			fmt.Fprintln(os.Stderr, "build failed:", err)
			os.Exit(2)
		}
		fmt.Println(bin)
	case "check":
		if len(os.Args) < 3 {
			usage()
		}
		tier := os.Getenv("VERIF_TIER")
		for i := 3; i < len(os.Args); i++ {
			if os.Args[i] == "--tier" && i+1 < len(os.Args) {
				tier = os.Args[i+1]
			}
			if strings.HasPrefix(os.Args[i], "--tier=") {
				tier = strings.TrimPrefix(os.Args[i], "--tier=")
			}
		}
		if tier != "thorough" {
			tier = "quick"
		}
		os.Exit(check(os.Args[2], tier))
	case "replay":
		if len(os.Args) < 3 {
			usage()
		}
		bin, err := ensureBuild()
		if err != nil {
			fmt.Fprintln(os.Stderr, "build failed:", err)
			os.Exit(2)
		}
		cmd := exec.Command(bin, "-replay", os.Args[2])
		cmd.Stdout, cmd.Stderr = os.Stdout, os.Stderr
		if err := cmd.Run(); err != nil {
			if ee, ok := err.(*exec.ExitError); ok {
				os.Exit(ee.ExitCode())
			}
			os.Exit(2)
		}
	default:
		usage()
	}
}

func usage() {
	fmt.Fprintln(os.Stderr, "usage: verif build | check <ID> [--tier quick|thorough] | replay <file>")
	os.Exit(2)
}

// ---------------------------------------------------------------- build

func hashTree() (string, error) {
	h := sha256.New()
	add := func(root string, filter func(rel string, fi os.FileInfo) bool) error {
		var files []string
		err := filepath.Walk(root, func(p string, fi os.FileInfo, err error) error {
			if err != nil {
				return err
			}
			rel, _ := filepath.Rel(root, p)
			if fi.IsDir() {
				if rel != "." && (strings.HasPrefix(fi.Name(), ".") || fi.Name() == "bin" || fi.Name() == "evidence" || fi.Name() == "replays" || fi.Name() == "seeded") {
					return filepath.SkipDir
				}
				return nil
			}
			if filter(rel, fi) {
				files = append(files, rel)
			}
			return nil
		})
		if err != nil {
			return err
		}
		sort.Strings(files)
		for _, f := range files {
			b, err := os.ReadFile(filepath.Join(root, f))
			if err != nil {
				return err
			}
			fmt.Fprintf(h, "%s\x00%d\x00", f, len(b))
			h.Write(b)
		}
		return nil
	}
	goish := func(rel string, fi os.FileInfo) bool {
		n := fi.Name()
		return n == "go.mod" || n == "go.sum" || (strings.HasSuffix(n, ".go") && !strings.HasSuffix(n, "_test.go"))
	}
	if err := add(repoDir, goish); err != nil {
		return "", err
	}
	h.Write([]byte("\x01verif\x01"))
	if err := add(verifDir, goish); err != nil {
		return "", err
	}
	return hex.EncodeToString(h.Sum(nil))[:20], nil
}

func ensureBuild() (string, error) {
	key, err := hashTree()
	if err != nil {
		return "", err
	}
	bdir := filepath.Join(verifDir, ".build")
	os.MkdirAll(bdir, 0o755)
	lock, err := os.OpenFile(filepath.Join(bdir, "lock"), os.O_CREATE|os.O_RDWR, 0o644)
	if err != nil {
		return "", err
	}
	defer lock.Close()
	syscall.Flock(int(lock.Fd()), syscall.LOCK_EX)
	defer syscall.Flock(int(lock.Fd()), syscall.LOCK_UN)
	out := filepath.Join(bdir, key)
	bin := filepath.Join(out, "vcheck")
	if _, err := os.Stat(bin); err == nil {
		now := time.Now()
		os.Chtimes(out, now, now)
		return bin, nil
	}
	scratchRoot := os.Getenv("VERIF_SCRATCH")
	if scratchRoot == "" {
		home, _ := os.UserHomeDir()
		scratchRoot = filepath.Join(home, ".cache", "verif-scratch")
	}
	scratch := filepath.Join(scratchRoot, fmt.Sprintf("%d-%s", os.Getpid(), key))
	os.RemoveAll(scratch)
	defer os.RemoveAll(scratch)
	tryBuild := func(exports bool) (string, error) {
		os.RemoveAll(scratch)
		if err := os.MkdirAll(filepath.Join(scratch, "build"), 0o755); err != nil {
			return "", err
		}
		if err := vinstr.Instrument(vinstr.Options{RepoDir: repoDir, OutDir: filepath.Join(scratch, "goirc"), StmtPkg: "state", StmtTypes: map[string][]string{"client": {"hSet", "hList", "hNode", "Conn"}}, StmtAllPkgs: []string{"client"}, Exports: exports}); err != nil {
			return "", fmt.Errorf("instrument: %w", err)
		}
		gomod := "module verifbuild\n\ngo 1.21\n\nrequire (\n\tgithub.com/fluffle/goirc v0.0.0\n\tverif v0.0.0\n)\n\nreplace verif => " + verifDir + "\n\nreplace github.com/fluffle/goirc => ../goirc\n"
		if err := os.WriteFile(filepath.Join(scratch, "build", "go.mod"), []byte(gomod), 0o644); err != nil {
			return "", err
		}
		sum, _ := os.ReadFile(filepath.Join(verifDir, "go.sum"))
		os.WriteFile(filepath.Join(scratch, "build", "go.sum"), sum, 0o644)
		os.MkdirAll(out, 0o755)
		tags := "verif"
		if exports {
			tags += ",verifexports"
		}
		cmd := exec.Command("go", "build", "-tags", tags, "-o", bin, "verif/cmd/vcheck")
		cmd.Dir = filepath.Join(scratch, "build")
		cmd.Env = goEnv()
		ob, err := cmd.CombinedOutput()
		if err != nil {
			os.RemoveAll(out)
			return string(ob), err
		}
		return string(ob), nil
	}
	msg, err := tryBuild(true)
	if err != nil {
		msg2, err2 := tryBuild(false)
		if err2 != nil {
			return "", fmt.Errorf("%v\n%s\n(with export shim: %s)", err2, msg2, msg)
		}
		fmt.Fprintln(os.Stderr, "note: built without the export shim (unexported helper names changed):", firstLine(msg))
	}
	// keep the two most recent builds
	ents, _ := os.ReadDir(bdir)
	type ent struct {
		name string
		t    time.Time
	}
	var ds []ent
	for _, e := range ents {
		if e.IsDir() {
			fi, _ := e.Info()
			ds = append(ds, ent{e.Name(), fi.ModTime()})
		}
	}
	sort.Slice(ds, func(i, j int) bool { return ds[i].t.After(ds[j].t) })
	for i, d := range ds {
		// keep the most recent builds; never remove one that may still be in use by a concurrent check
		if i >= 3 && d.name != key && time.Since(d.t) > 20*time.Minute {
			os.RemoveAll(filepath.Join(bdir, d.name))
		}
	}
	return bin, nil
}

func firstLine(s string) string {
	if i := strings.Index(s, "\n"); i >= 0 {
		return s[:i]
	}
	return s
}

// repoCompiles distinguishes "the tree itself is broken" from "the instrumenter cannot handle it".
func repoCompiles() (bool, string) {
	cmd := exec.Command("go", "build", "./...")
	cmd.Dir = repoDir
	cmd.Env = goEnv()
	ob, err := cmd.CombinedOutput()
	return err == nil, string(ob)
}

// ---------------------------------------------------------------- check

type jobInfo struct {
	I    int    `json:"i"`
	Name string `json:"name"`
	Cost int    `json:"cost"`
}

type propMeta struct {
	ID          string   `json:"id"`
	Rule        string   `json:"rule"`
	Assumptions []string `json:"assumptions"`
}

type violation struct {
	Property string                 `json:"property"`
	Family   string                 `json:"family"`
	Scenario string                 `json:"scenario"`
	Params   map[string]interface{} `json:"params"`
	Oracle   string                 `json:"oracle"`
	Msg      string                 `json:"message"`
	Detail   string                 `json:"detail,omitempty"`
	Input    string                 `json:"input,omitempty"`
	Devs     int                    `json:"deviations"`
	Sched    json.RawMessage        `json:"schedule,omitempty"`
	Job      string                 `json:"job"`
	Tier     string                 `json:"tier"`
}

type jobResult struct {
	Job         string            `json:"job"`
	Kind        string            `json:"kind"`
	Evaluations int64             `json:"evaluations"`
	States      int64             `json:"states"`
	Transitions int64             `json:"transitions"`
	Traces      int64             `json:"traces"`
	Distinct    []string          `json:"distinct"`
	DistinctN   int64             `json:"distinct_n"`
	Samples     []json.RawMessage `json:"samples"`
	Violations  []violation       `json:"violations"`
	Exhaustive  bool              `json:"exhaustive"`
	CapsHit     []string          `json:"caps_hit"`
	Bounds      []string          `json:"bounds"`
	Vacuous     bool              `json:"vacuous"`
	Nondet      int               `json:"nondeterminism"`
	Notes       []string          `json:"notes"`
	WallS       float64           `json:"wall_s"`
	Error       string            `json:"error"`
	MaxEnabled  int               `json:"max_enabled"`
	CacheAgree  string            `json:"cache_on_off"`
}

type knownFinding struct {
	Status    string                 `json:"status"` // known | fixed
	Property  string                 `json:"property"`
	ID        string                 `json:"id"`
	Family    string                 `json:"family"`
	Oracle    string                 `json:"oracle"`
	Params    map[string]interface{} `json:"params"`
	InputRe   string                 `json:"input,omitempty"`
	WhatFails string                 `json:"what_fails"`
	Commit    string                 `json:"commit,omitempty"`
}

type knownFile struct {
	Findings []knownFinding `json:"findings"`
}

func loadKnown() []knownFinding {
	b, err := os.ReadFile(filepath.Join(verifDir, "known_findings.json"))
	if err != nil {
		return nil
	}
	var kf knownFile
	if err := json.Unmarshal(b, &kf); err != nil {
		fmt.Fprintln(os.Stderr, "known_findings.json:", err)
		return nil
	}
	return kf.Findings
}

func toFloat(v interface{}) (float64, bool) {
	switch x := v.(type) {
	case float64:
		return x, true
	case int:
		return float64(x), true
	case json.Number:
		f, err := x.Float64()
		return f, err == nil
	}
	return 0, false
}

func paramMatch(want, got interface{}) bool {
	switch w := want.(type) {
	case map[string]interface{}:
		g, ok := toFloat(got)
		if !ok {
			return false
		}
		if mn, ok := w["min"]; ok {
			if f, _ := toFloat(mn); g < f {
				return false
			}
		}
		if mx, ok := w["max"]; ok {
			if f, _ := toFloat(mx); g > f {
				return false
			}
		}
		return true
	case []interface{}:
		for _, x := range w {
			if paramMatch(x, got) {
				return true
			}
		}
		return false
	default:
		if wf, ok := toFloat(want); ok {
			gf, ok2 := toFloat(got)
			return ok2 && wf == gf
		}
		return fmt.Sprint(want) == fmt.Sprint(got)
	}
}

func (k *knownFinding) matches(v *violation) bool {
	if k.Status != "known" || k.Property != v.Property || k.Family != v.Family || k.Oracle != v.Oracle {
		return false
	}
	for name, want := range k.Params {
		got, ok := v.Params[name]
		if !ok || !paramMatch(want, got) {
			return false
		}
	}
	if k.InputRe != "" && k.InputRe != v.Input {
		return false
	}
	return true
}

func check(prop, tier string) int {
	start := time.Now()
	seed, _ := strconv.ParseInt(os.Getenv("VERIF_SEED"), 10, 64)
	evPath := filepath.Join(envOr("VERIF_EVIDENCE_DIR", filepath.Join(verifDir, "evidence")), prop+".json")
	os.MkdirAll(filepath.Dir(evPath), 0o755)
	writeEvidence := func(cov map[string]interface{}, assumptions []string, nviol int) {
		ev := map[string]interface{}{
			"property_id": prop, "tier": tier, "seed": seed, "level": "model_checking",
			"coverage": cov, "assumptions": assumptions, "wall_s": time.Since(start).Seconds(), "violations": nviol,
		}
		b, _ := json.MarshalIndent(ev, "", " ")
		os.WriteFile(evPath, b, 0o644)
	}
	bin, err := ensureBuild()
	if err != nil {
		if ok, msg := repoCompiles(); !ok {
			fmt.Println("BUILD-FAILED: /repo does not compile:", firstLine(msg))
			return 2
		}
		fmt.Println("INCONCLUSIVE: the instrumented build failed although /repo compiles:", err)
		writeEvidence(map[string]interface{}{"evaluations": 0, "distinct_nontrivial": 0, "exhaustive": false, "explanation": "instrumented build failed: " + err.Error()}, nil, 0)
		return 0
	}
	// metadata + job list
	var meta propMeta
	if out, err := runOut(bin, "-meta", "-prop", prop); err == nil {
		json.Unmarshal(out, &meta)
	} else {
		fmt.Fprintln(os.Stderr, "unknown property or worker failure:", err)
		return 2
	}
	var jobs []jobInfo
	out, err := runOut(bin, "-list", "-prop", prop, "-tier", tier)
	if err != nil {
		fmt.Fprintln(os.Stderr, "listing jobs failed:", err)
		return 2
	}
	json.Unmarshal(out, &jobs)
	var order []int
	for i := range jobs {
		if f := os.Getenv("VERIF_JOBS"); f != "" && !strings.Contains(jobs[i].Name, f) {
			continue // debugging aid: run only the jobs whose name contains VERIF_JOBS
		}
		order = append(order, i)
	}
	sort.SliceStable(order, func(a, b int) bool { return jobs[order[a]].Cost > jobs[order[b]].Cost })
	if seed != 0 {
		// the seed only permutes the visiting order among jobs of equal cost
		sort.SliceStable(order, func(a, b int) bool {
			ja, jb := jobs[order[a]], jobs[order[b]]
			if ja.Cost != jb.Cost {
				return ja.Cost > jb.Cost
			}
			return (int64(ja.I)*2654435761+seed)%1000003 < (int64(jb.I)*2654435761+seed)%1000003
		})
	}
	budget := 150 * time.Second
	if tier == "thorough" {
		budget = 40 * time.Minute
	}
	if v := os.Getenv("VERIF_BUDGET_S"); v != "" {
		if s, err := strconv.Atoi(v); err == nil {
			budget = time.Duration(s) * time.Second
		}
	}
	deadline := start.Add(budget)
	nw := runtime.NumCPU()
	if v := os.Getenv("VERIF_WORKERS"); v != "" {
		if n, err := strconv.Atoi(v); err == nil && n > 0 {
			nw = n
		}
	}
	if nw > len(order) {
		nw = len(order)
	}
	results := make([]*jobResult, len(jobs))
	var mu sync.Mutex
	next := 0
	var wg sync.WaitGroup
	for w := 0; w < nw; w++ {
		wg.Add(1)
		go func() {
			defer wg.Done()
			var wk *worker
			defer func() {
				if wk != nil {
					wk.stop()
				}
			}()
			for {
				mu.Lock()
				if next >= len(order) {
					mu.Unlock()
					return
				}
				ji := order[next]
				next++
				mu.Unlock()
				if time.Now().After(deadline) {
					results[ji] = &jobResult{Job: jobs[ji].Name, Exhaustive: false, CapsHit: []string{"not started: check deadline reached"}}
					continue
				}
				if wk == nil {
					var err error
					wk, err = startWorker(bin, prop, tier, seed)
					if err != nil {
						results[ji] = &jobResult{Job: jobs[ji].Name, Error: "worker start: " + err.Error()}
						continue
					}
				}
				r, err := wk.run(ji, deadline)
				if err != nil {
					wk.stop()
					fatal := wk.tail.fatal()
					wk = nil
					r = &jobResult{Job: jobs[ji].Name, Error: "worker died: " + err.Error()}
					if prop == "C02" && fatal != "" {
						// C02 is the claim that no input kills the process: a worker that the Go runtime stopped with a
						// fatal error of the code under test (unbounded recursion, unsynchronised map access) while it fed
						// this job's inputs to the real client is a counter-example, not a tool failure. Running out of
						// memory is not in the list: that may be the harness.
						r = &jobResult{Job: jobs[ji].Name, Kind: "enumeration", Violations: []violation{{Property: prop, Family: "process", Scenario: jobs[ji].Name,
							Oracle: "process-dies-fatal-error", Msg: "the worker process running this job's inputs through the real client was stopped by the Go runtime: " + fatal,
							Params: map[string]interface{}{"job": jobs[ji].Name}, Job: jobs[ji].Name, Tier: tier}}}
					}
				}
				results[ji] = r
			}
		}()
	}
	wg.Wait()

	// merge
	var evals, states, trans, traces int64
	distinct := map[string]bool{}
	var distinctExtra int64
	var samples []json.RawMessage
	var caps, bounds, notes, cacheAgree []string
	exhaustive := true
	vacuous := 0
	var viols []violation
	selected := map[int]bool{}
	for _, i := range order {
		selected[i] = true
	}
	for i, r := range results {
		if !selected[i] {
			continue
		}
		if r == nil {
			exhaustive = false
			caps = append(caps, jobs[i].Name+": no result")
			continue
		}
		if r.Error != "" {
			exhaustive = false
			caps = append(caps, r.Job+": "+r.Error)
			fmt.Fprintln(os.Stderr, "job error:", r.Job, r.Error)
			continue
		}
		evals += r.Evaluations
		states += r.States
		trans += r.Transitions
		traces += r.Traces
		if int64(len(r.Distinct)) < r.DistinctN {
			distinctExtra += r.DistinctN - int64(len(r.Distinct))
		}
		for _, d := range r.Distinct {
			distinct[d] = true
		}
		if len(samples) < 6 {
			for _, s := range r.Samples {
				if len(samples) < 6 {
					samples = append(samples, s)
				}
			}
		}
		if !r.Exhaustive {
			exhaustive = false
		}
		for _, c := range r.CapsHit {
			if len(caps) < 60 {
				caps = append(caps, r.Job+": "+c)
			}
		}
		for _, b := range r.Bounds {
			if len(bounds) < 400 {
				bounds = append(bounds, r.Job+" "+b)
			}
		}
		for _, n := range r.Notes {
			if len(notes) < 40 {
				notes = append(notes, r.Job+": "+n)
			}
		}
		if r.CacheAgree != "" && len(cacheAgree) < 20 {
			cacheAgree = append(cacheAgree, r.Job+": "+r.CacheAgree)
		}
		if r.Vacuous {
			vacuous++
		}
		viols = append(viols, r.Violations...)
	}
	type jw struct {
		name string
		w    float64
	}
	var jws []jw
	for _, r := range results {
		if r != nil {
			jws = append(jws, jw{r.Job, r.WallS})
		}
	}
	sort.Slice(jws, func(i, j int) bool { return jws[i].w > jws[j].w })
	var slowest []string
	var cpuS float64
	for i, x := range jws {
		cpuS += x.w
		if i < 8 {
			slowest = append(slowest, fmt.Sprintf("%s %.1fs", x.name, x.w))
		}
	}
	// classify violations
	known := loadKnown()
	type group struct {
		best *violation
		n    int
	}
	unlisted := map[string]*group{}
	knownHit := map[int]int{}
	for i := range viols {
		v := &viols[i]
		if os.Getenv("VERIF_VERBOSE") != "" {
			fmt.Printf("  [violation] %s oracle=%s devs=%d :: %s\n", v.Scenario, v.Oracle, v.Devs, v.Msg)
		}
		matched := false
		for ki := range known {
			if known[ki].matches(v) {
				knownHit[ki]++
				matched = true
				break
			}
		}
		if matched {
			continue
		}
		sig := v.Family + "|" + v.Oracle
		g := unlisted[sig]
		if g == nil {
			g = &group{}
			unlisted[sig] = g
		}
		g.n++
		if g.best == nil || v.Devs < g.best.Devs || (v.Devs == g.best.Devs && len(v.Sched) < len(g.best.Sched)) || (v.Devs == g.best.Devs && len(v.Sched) == len(g.best.Sched) && len(v.Input) < len(g.best.Input)) {
			g.best = v
		}
	}
	var kis []int
	for ki := range knownHit {
		kis = append(kis, ki)
	}
	sort.Ints(kis)
	for _, ki := range kis {
		k := known[ki]
		fmt.Printf("KNOWN-FINDING: property=%s %s [%s; %d matching violations this run]\n", prop, k.WhatFails, k.ID, knownHit[ki])
	}
	var sigs []string
	for s := range unlisted {
		sigs = append(sigs, s)
	}
	sort.Strings(sigs)
	replayDir := envOr("VERIF_REPLAY_DIR", filepath.Join(verifDir, "replays"))
	os.MkdirAll(replayDir, 0o755)
	for _, s := range sigs {
		g := unlisted[s]
		b, _ := json.MarshalIndent(g.best, "", " ")
		hh := sha256.Sum256(b)
		name := fmt.Sprintf("%s-%s-%s.json", prop, sanitize(g.best.Family+"-"+g.best.Oracle), hex.EncodeToString(hh[:])[:8])
		path := filepath.Join(replayDir, name)
		os.WriteFile(path, b, 0o644)
		fmt.Printf("VIOLATION property=%s replay=%s\n", prop, path)
		fmt.Printf("  oracle=%s scenario=%s deviations=%d (%d violating scenarios/inputs in this group)\n  %s\n", g.best.Oracle, g.best.Scenario, g.best.Devs, g.n, g.best.Msg)
		if g.best.Input != "" {
			fmt.Printf("  input: %q\n", g.best.Input)
		}
	}
	cov := map[string]interface{}{
		"states": states, "transitions": trans, "traces_validated_against_impl": traces,
		"evaluations": evals, "distinct_nontrivial": int64(len(distinct)) + distinctExtra,
		"rule": meta.Rule, "samples": samples, "exhaustive": exhaustive && len(unlisted) == 0,
		"bounds_completed": bounds, "caps_hit": caps, "jobs": len(jobs), "vacuous_jobs": vacuous,
		"cache_on_off_agreement": cacheAgree, "notes": notes, "workers": nw,
		"known_findings_matched": len(knownHit), "unlisted_violation_groups": len(unlisted),
		"slowest_jobs": slowest, "job_cpu_s": cpuS,
	}
	if states == 0 {
		cov["states"] = evals
	}
	if trans == 0 {
		cov["transitions"] = evals
	}
	if len(samples) == 0 {
		cov["samples"] = []string{"(no sample recorded)"}
	}
	writeEvidence(cov, meta.Assumptions, len(viols))
	fmt.Printf("%s %s: jobs=%d evaluations=%d states=%d transitions=%d distinct=%d exhaustive=%v violations=%d (unlisted groups=%d, known=%d) wall=%.1fs\n",
		prop, tier, len(jobs), evals, states, trans, int64(len(distinct))+distinctExtra, exhaustive, len(viols), len(unlisted), len(knownHit), time.Since(start).Seconds())
	if len(unlisted) > 0 {
		return 1
	}
	return 0
}

func sanitize(s string) string {
	var sb strings.Builder
	for _, r := range s {
		if (r >= 'a' && r <= 'z') || (r >= 'A' && r <= 'Z') || (r >= '0' && r <= '9') || r == '-' {
			sb.WriteRune(r)
		} else {
			sb.WriteRune('_')
		}
	}
	return sb.String()
}

func runOut(bin string, args ...string) ([]byte, error) {
	cmd := exec.Command(bin, args...)
	cmd.Env = append(os.Environ(), "GOMAXPROCS=2")
	cmd.Stderr = os.Stderr
	return cmd.Output()
}

// ---------------------------------------------------------------- workers

type worker struct {
	cmd  *exec.Cmd
	in   io.WriteCloser
	out  *bufio.Reader
	tail *tailBuf
}

// tailBuf keeps the first 16 KB a worker wrote to stderr after its latest "fatal error:" line (the Go runtime prints
// that line first and the goroutine dump after it).
type tailBuf struct {
	mu  sync.Mutex
	buf []byte
}

func (t *tailBuf) Write(p []byte) (int, error) {
	t.mu.Lock()
	defer t.mu.Unlock()
	if len(t.buf) < 1<<16 {
		t.buf = append(t.buf, p...)
	} else if i := strings.Index(string(p), "fatal error:"); i >= 0 {
		t.buf = append(t.buf[:0], p[i:]...)
	}
	return len(p), nil
}

// fatal returns the runtime's fatal-error line if it names a failure of the code under test.
func (t *tailBuf) fatal() string {
	t.mu.Lock()
	defer t.mu.Unlock()
	s := string(t.buf)
	i := strings.LastIndex(s, "fatal error:")
	if i < 0 {
		return ""
	}
	line := s[i:]
	if j := strings.IndexByte(line, '\n'); j >= 0 {
		line = line[:j]
	}
	for _, k := range []string{"stack overflow", "concurrent map"} {
		if strings.Contains(line, k) {
			return line
		}
	}
	return ""
}

func startWorker(bin, prop, tier string, seed int64) (*worker, error) {
	cmd := exec.Command(bin, "-serve", "-prop", prop, "-tier", tier, "-seed", fmt.Sprint(seed))
	cmd.Env = append(os.Environ(), "GOMAXPROCS=1", "GOMEMLIMIT=6GiB")
	tail := &tailBuf{}
	cmd.Stderr = io.MultiWriter(os.Stderr, tail)
	in, err := cmd.StdinPipe()
	if err != nil {
		return nil, err
	}
	op, err := cmd.StdoutPipe()
	if err != nil {
		return nil, err
	}
	if err := cmd.Start(); err != nil {
		return nil, err
	}
	return &worker{cmd: cmd, in: in, out: bufio.NewReaderSize(op, 1<<20), tail: tail}, nil
}

func (w *worker) stop() {
	w.in.Close()
	done := make(chan struct{})
	go func() { w.cmd.Wait(); close(done) }()
	select {
	case <-done:
	case <-time.After(2 * time.Second):
		w.cmd.Process.Kill()
		<-done
	}
}

func (w *worker) run(ji int, deadline time.Time) (*jobResult, error) {
	if _, err := fmt.Fprintf(w.in, "%d %d\n", ji, deadline.Unix()); err != nil {
		return nil, err
	}
	type res struct {
		r   *jobResult
		err error
	}
	ch := make(chan res, 1)
	go func() {
		for {
			line, err := w.out.ReadString('\n')
			if err != nil {
				ch <- res{nil, err}
				return
			}
			if !strings.HasPrefix(line, "RESULT ") {
				continue
			}
			rest := strings.TrimPrefix(line, "RESULT ")
			sp := strings.IndexByte(rest, ' ')
			if sp < 0 {
				continue
			}
			var r jobResult
			if err := json.Unmarshal([]byte(rest[sp+1:]), &r); err != nil {
				ch <- res{nil, err}
				return
			}
			ch <- res{&r, nil}
			return
		}
	}()
	grace := time.Until(deadline) + 45*time.Second
	if grace < 45*time.Second {
		grace = 45 * time.Second
	}
	select {
	case x := <-ch:
		return x.r, x.err
	case <-time.After(grace):
		w.cmd.Process.Kill()
		return nil, fmt.Errorf("no answer %v after the deadline (killed)", 45*time.Second)
	}
}
