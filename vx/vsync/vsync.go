// Package vsync replaces "sync" in instrumented code.
package vsync

import (
	"sync"

	"verif/vx"
)

type (
	Mutex     = vx.Mutex
	RWMutex   = vx.RWMutex
	WaitGroup = vx.WaitGroup
	Once      = vx.Once
	Cond      = vx.Cond
	Locker    = sync.Locker
)

// Map is sync.Map with a scheduling point before every operation (each operation is atomic; what matters is
// its order against the operations of other tasks).
type Map struct{ m sync.Map }

func (m *Map) Load(k any) (any, bool)    { vx.AtomicPoint(false); return m.m.Load(k) }
func (m *Map) Store(k, v any)            { vx.AtomicPoint(true); m.m.Store(k, v) }
func (m *Map) Delete(k any)              { vx.AtomicPoint(true); m.m.Delete(k) }
func (m *Map) Clear()                    { vx.AtomicPoint(true); m.m.Clear() }
func (m *Map) Swap(k, v any) (any, bool) { vx.AtomicPoint(true); return m.m.Swap(k, v) }
func (m *Map) LoadOrStore(k, v any) (any, bool) {
	vx.AtomicPoint(true)
	return m.m.LoadOrStore(k, v)
}
func (m *Map) LoadAndDelete(k any) (any, bool) { vx.AtomicPoint(true); return m.m.LoadAndDelete(k) }
func (m *Map) CompareAndSwap(k, o, n any) bool {
	vx.AtomicPoint(true)
	return m.m.CompareAndSwap(k, o, n)
}
func (m *Map) CompareAndDelete(k, o any) bool {
	vx.AtomicPoint(true)
	return m.m.CompareAndDelete(k, o)
}

// Range visits a snapshot of the keys in sorted-by-insertion-independent order is not possible for arbitrary
// keys: the real iteration order is used, one scheduling point before the walk and one before every callback.
func (m *Map) Range(f func(k, v any) bool) {
	vx.AtomicPoint(false)
	m.m.Range(func(k, v any) bool {
		vx.AtomicPoint(false)
		return f(k, v)
	})
}

// Pool is a deterministic stand-in for sync.Pool: one LIFO free list shared by all tasks (the real pool is
// per-P and may drop items at any time; reuse across tasks - the thing that makes pooled buffers dangerous - is
// what this keeps), a scheduling point before Get and Put.
type Pool struct {
	New   func() any
	items []any
}

func (p *Pool) Get() any {
	vx.AtomicPoint(true)
	if n := len(p.items); n > 0 {
		x := p.items[n-1]
		p.items = p.items[:n-1]
		return x
	}
	if p.New != nil {
		return p.New()
	}
	return nil
}

func (p *Pool) Put(x any) {
	vx.AtomicPoint(true)
	if x != nil {
		p.items = append(p.items, x)
	}
}

func NewCond(l sync.Locker) *Cond { return vx.NewCond(l) }

func OnceFunc(f func()) func() {
	var o Once
	return func() { o.Do(f) }
}
