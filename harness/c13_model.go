package harness

import (
	"fmt"
	"sort"
	"strings"
)

// C13 reference model: a tiny IRC network (`ircNet`) seen from the server
// side. It holds the ground truth (who is on which channel with which
// privileges, topics, channel modes, everybody's current nick and user@host),
// generates the protocol-conformant lines a server sends to ONE client ("me")
// for every event, answers that client's MODE / WHO requests, and keeps the
// *revealed* view: what a client that only sees those lines can know.
//
// Written from the property statement and RFC 1459/2812 numerics, not from the
// library: nothing in here looks at how goirc handles a line.
//
// Users are identified by index: 0 = me (the client), 1 and 2 = the others.
// Bit u of a mask stands for user u.

const (
	c13Srv     = "srv"
	c13Key     = "key"
	c13Limit   = 5
	c13NUsers  = 3
	c13NChans  = 2
	c13MeBit   = uint8(1)
	c13AllBits = uint8(1<<c13NUsers - 1)
)

type c13User struct{ Ident, Host, Real string }

// ground truth that never changes: user@host and real name of every user
// (me's are what NewClient / the 001 welcome use).
var c13Users = [c13NUsers]c13User{
	{"ident", "host", "Real Name"},
	{"ua", "ha.example", "Real A"},
	{"ub", "hb.example", "Real B"},
}

var c13Chans = [c13NChans]string{"#x", "#y"}

// nick pools: me alternates between two names, the others pick from a shared
// pool of three (a rename goes to the one name nobody uses at the moment, so a
// name can come back, also for the *other* user).
var c13MePool = [2]string{"me", "me2"}
var c13OtherPool = [3]string{"a", "b", "c"}

// every nick name that can ever appear (the oracle queries all of them).
var c13AllNicks = []string{"me", "me2", "a", "b", "c", "Me", "A", "B", "a2", "b2",
	"[a]", "[A]", "_a2", "|b|", "|B|", "`b2", "a]", "A]", "b|", "B|"}

// c13SpecialNames: the same for style SpecialNicks: nick names that begin with (and contain) the special
// characters a nick may consist of besides letters and digits
var c13SpecialNames = [c13NUsers][3]string{{"me", "Me", "me"}, {"[a]", "[A]", "_a2"}, {"|b|", "|B|", "`b2"}}

// spellings of the users' own names (style CaseNicks): index 0 -> 1 is a rename that only changes the letter case
var c13CaseNames = [c13NUsers][3]string{{"me", "Me", "me"}, {"a", "A", "a2"}, {"b", "B", "b2"}}

// topics cycle: unset -> "t one" -> "t two" -> cleared.
var c13Topics = [3]string{"", "t one", "t two"}

// c13StyleT: how the model server spells its lines. The protocol leaves several things open that do not change
// what happened: optional reasons (PART, KICK, QUIT), a colon before a last parameter without blanks, which
// two of the five privilege letters a network uses for its higher / lower channel privilege, and what a topic
// looks like. A session is run in one style; the model's state does not depend on it.
type c13StyleT struct {
	Name               string
	PartMsg, KickMsg   string // "" = the optional parameter is absent; otherwise rendered as " :<text>"
	QuitMsg            string // rendered after "QUIT"
	NickColon, JoinCol bool   // ":"-prefix on the single parameter of NICK / JOIN
	Hi, Lo             byte   // mode letters of the two privileges (default o, v)
	HiPfx, LoPfx       string // their NAMES prefixes
	Topics             [3]string
	KeyOff             string            // the argument of "-k": "" = the key itself, otherwise e.g. "*" (servers of the hybrid family hide it)
	Flags324           string            // channel flags every channel of this network has, reported in the 324 reply
	Chans              [c13NChans]string // "" = #x, #y
	SpecialNicks       bool              // with CaseNicks: the names of c13SpecialNames
	V6Hosts            bool              // the other users' hosts are IPv6 addresses (colons inside a middle parameter of the WHO reply)
	CaseNicks          bool              // users rename between spellings of their own name (a / A / a2) instead of sharing a pool
}

var c13Styles = []c13StyleT{
	{Name: "default", PartMsg: " :bye", KickMsg: " :out", QuitMsg: " :gone", NickColon: true, Hi: 'o', Lo: 'v', HiPfx: "@", LoPfx: "+", Topics: c13Topics},
	{Name: "terse-halfop", PartMsg: "", KickMsg: "", QuitMsg: "", NickColon: false, JoinCol: true, Hi: 'o', Lo: 'h', HiPfx: "@", LoPfx: "%", Topics: [3]string{"", "t one ", " t two"}, Flags324: "psZ", CaseNicks: true, Chans: [c13NChans]string{"#X", "&Yy"}},
	{Name: "empty-reasons-admin", PartMsg: " :", KickMsg: " :", QuitMsg: " :", NickColon: true, Hi: 'a', Lo: 'v', HiPfx: "&", LoPfx: "+", Topics: [3]string{"", ":", "t  two :x"}, Flags324: "timrzZO", KeyOff: "x"},
	{Name: "owner-halfop", PartMsg: " :see you later", KickMsg: " :a b c", QuitMsg: " :Quit: leaving", NickColon: true, JoinCol: true, Hi: 'q', Lo: 'h', HiPfx: "~", LoPfx: "%", Topics: c13Topics, Flags324: "spO", KeyOff: "*", CaseNicks: true, SpecialNicks: true, V6Hosts: true, Chans: [c13NChans]string{"#Go", "+y"}},
}

// c13Style is the style of the session being run (one session at a time per worker process).
var c13Style = c13Styles[0]

func c13TopicText(i uint8) string { return c13Style.Topics[i] }

// c13Chan is the state of one channel. An empty channel does not exist: when
// the last user leaves, topic and modes are forgotten, and whoever joins an
// empty channel gets op (as on every real network).
type c13Chan struct {
	On, Op, Voice uint8 // ground truth
	Topic         uint8 // index into c13Topics
	N, Key, Limit bool  // +n, +k key, +l 5

	// revealed view; meaningful only while me is on the channel
	ROp, RVoice      uint8 // privileges the client was told about (NAMES prefix, then MODE)
	RTopic           uint8 // topic told (332 on join, TOPIC)
	RN, RKey, RLimit bool  // modes told (324, MODE)
}

// ircNet is comparable: it is its own canonical state (map key).
type ircNet struct {
	Ch        [c13NChans]c13Chan
	Name      [c13NUsers]uint8 // index into the user's nick pool
	Known     uint8            // others whose ident@host the client was told (JOIN source or WHO reply)
	KnownReal uint8            // others whose real name the client was told (WHO reply)
	Alt       uint8            // users whose host is currently the cloaked one (it changes silently: services cloaks)
	RAlt      uint8            // of the known users: those whose host the client was last told as the cloaked one
}

func newIrcNet() *ircNet { return &ircNet{Name: [c13NUsers]uint8{0, 0, 1}} }

func (n *ircNet) Nick(u int) string {
	if c13Style.CaseNicks {
		if c13Style.SpecialNicks {
			return c13SpecialNames[u][n.Name[u]]
		}
		return c13CaseNames[u][n.Name[u]]
	}
	if u == 0 {
		return c13MePool[n.Name[0]]
	}
	return c13OtherPool[n.Name[u]]
}

func (n *ircNet) src(u int) string {
	return n.Nick(u) + "!" + c13Users[u].Ident + "@" + n.host(u, n.Alt)
}

// host is user u's host name under the given cloak mask.
func (n *ircNet) host(u int, mask uint8) string {
	h := c13Users[u].Host
	if c13Style.V6Hosts && u > 0 {
		h = fmt.Sprintf("2001:db8::%d", 40+u)
	}
	if mask&(1<<u) != 0 {
		if c13Style.V6Hosts && u > 0 {
			return h + ":c10a"
		}
		return "cloaked." + h
	}
	return h
}

// userByNick returns the user currently using nick, or -1.
func (n *ircNet) userByNick(nick string) int {
	for u := 0; u < c13NUsers; u++ {
		if n.Nick(u) == nick {
			return u
		}
	}
	return -1
}

func c13ChanIndex(name string) int {
	for i, c := range c13Chans {
		if c == name {
			return i
		}
	}
	return -1
}

// meChans is the mask of users sharing at least one channel with me.
func (n *ircNet) sharing() uint8 {
	var m uint8
	for c := range n.Ch {
		if n.Ch[c].On&c13MeBit != 0 {
			m |= n.Ch[c].On
		}
	}
	return m &^ c13MeBit
}

// actor picks who performs a kick / topic / mode change on channel c: the
// first other user on it that is neither me nor the target; else the server.
func (n *ircNet) actor(c int, not int) string {
	for u := 1; u < c13NUsers; u++ {
		if u != not && n.Ch[c].On&(1<<u) != 0 {
			return n.src(u)
		}
	}
	return c13Srv
}

// ---------------------------------------------------------------- events

const (
	evJoin  = iota // U joins C
	evPart         // U parts C
	evKick         // U is kicked from C
	evQuit         // U (not me) quits
	evNick         // U changes nick (others: to the free pool name; me: to the other one)
	evTopic        // topic of C changes to the next in the cycle
	evMode         // mode change on C: X = which, U = target member for o/v
	evCloak        // U's host changes between its plain and its cloaked form; nobody is told
)

const (
	c13ModeOp    = iota // toggle o on U
	c13ModeVoice        // toggle v on U
	c13ModeN            // toggle n
	c13ModeK            // +k key / -k key
	c13ModeL            // +l 5 / -l
	// multi-letter mode strings: X = c13ModePair + w toggles o on U and v on user w in ONE line ("+o-v a b");
	// X = c13ModeLimOp + w toggles the limit and o on user w ("+lo 5 b" / "-l+o b")
	c13ModePair  = 8
	c13ModeLimOp = 16
)

type c13Ev struct{ Kind, U, C, X uint8 }

func (e c13Ev) String() string {
	u := []string{"me", "A", "B"}[e.U]
	c := c13Chans[e.C]
	switch e.Kind {
	case evJoin:
		return u + " joins " + c
	case evPart:
		return u + " parts " + c
	case evKick:
		return u + " kicked from " + c
	case evQuit:
		return u + " quits"
	case evNick:
		return u + " renames"
	case evCloak:
		return u + "'s host changes silently"
	case evTopic:
		return "topic change on " + c
	case evMode:
		switch e.X {
		case c13ModeOp:
			return "op toggle for " + u + " on " + c
		case c13ModeVoice:
			return "voice toggle for " + u + " on " + c
		case c13ModeN:
			return "n toggle on " + c
		case c13ModeK:
			return "key toggle on " + c
		case c13ModeL:
			return "limit toggle on " + c
		}
		if e.X >= c13ModeLimOp {
			return fmt.Sprintf("limit toggle and op toggle for %s on %s in one MODE", []string{"me", "A", "B"}[e.X-c13ModeLimOp], c)
		}
		if e.X >= c13ModePair {
			return fmt.Sprintf("op toggle for %s and voice toggle for %s on %s in one MODE", u, []string{"me", "A", "B"}[e.X-c13ModePair], c)
		}
	}
	return "?"
}

// Events lists every event that is legal in the current state, in a fixed order.
func (n *ircNet) Events() []c13Ev {
	var evs []c13Ev
	for c := 0; c < c13NChans; c++ {
		ch := &n.Ch[c]
		for u := 0; u < c13NUsers; u++ {
			if ch.On&(1<<u) == 0 {
				evs = append(evs, c13Ev{evJoin, uint8(u), uint8(c), 0})
			} else {
				evs = append(evs, c13Ev{evPart, uint8(u), uint8(c), 0}, c13Ev{evKick, uint8(u), uint8(c), 0})
			}
		}
	}
	for u := 1; u < c13NUsers; u++ {
		on := false
		for c := range n.Ch {
			on = on || n.Ch[c].On&(1<<u) != 0
		}
		if on {
			evs = append(evs, c13Ev{evQuit, uint8(u), 0, 0})
		}
	}
	for u := 0; u < c13NUsers; u++ {
		evs = append(evs, c13Ev{evNick, uint8(u), 0, 0})
	}
	// only user A changes host (one more bit of state is enough to have a second WHO reply differ from the first)
	for c := range n.Ch {
		if n.Ch[c].On&2 != 0 {
			evs = append(evs, c13Ev{evCloak, 1, 0, 0})
			break
		}
	}
	for c := 0; c < c13NChans; c++ {
		ch := &n.Ch[c]
		if ch.On == 0 {
			continue
		}
		evs = append(evs, c13Ev{evTopic, 0, uint8(c), 0})
		for u := 0; u < c13NUsers; u++ {
			if ch.On&(1<<u) != 0 {
				evs = append(evs, c13Ev{evMode, uint8(u), uint8(c), c13ModeOp}, c13Ev{evMode, uint8(u), uint8(c), c13ModeVoice})
			}
		}
		evs = append(evs, c13Ev{evMode, 0, uint8(c), c13ModeN}, c13Ev{evMode, 0, uint8(c), c13ModeK}, c13Ev{evMode, 0, uint8(c), c13ModeL})
		for u := 0; u < c13NUsers; u++ {
			for w := 0; w < c13NUsers; w++ {
				if u != w && ch.On&(1<<u) != 0 && ch.On&(1<<w) != 0 {
					evs = append(evs, c13Ev{evMode, uint8(u), uint8(c), uint8(c13ModePair + w)})
				}
			}
			if ch.On&(1<<u) != 0 {
				evs = append(evs, c13Ev{evMode, 0, uint8(c), uint8(c13ModeLimOp + u)})
			}
		}
	}
	return evs
}

func c13Prefix(op, voice bool) string {
	if op {
		return c13Style.HiPfx
	}
	if voice {
		return c13Style.LoPfx
	}
	return ""
}

// leave removes u from channel c (part, kick, quit) and tidies up.
func c13JoinArg(cn string) string {
	if c13Style.JoinCol {
		return ":" + cn
	}
	return cn
}

func (n *ircNet) leave(u, c int) {
	ch := &n.Ch[c]
	bit := uint8(1) << u
	ch.On &^= bit
	ch.Op &^= bit
	ch.Voice &^= bit
	ch.ROp &^= bit
	ch.RVoice &^= bit
	if ch.On == 0 {
		*ch = c13Chan{}
	}
}

// normalise forgets the revealed view of channels me is not on and of users me
// no longer shares a channel with (a client has no way to keep those current,
// and the statement demands nothing about them).
func (n *ircNet) normalise() {
	for c := range n.Ch {
		ch := &n.Ch[c]
		if ch.On&c13MeBit == 0 {
			ch.ROp, ch.RVoice, ch.RTopic, ch.RN, ch.RKey, ch.RLimit = 0, 0, 0, false, false, false
		}
	}
	sh := n.sharing()
	n.Known &= sh
	n.RAlt &= n.Known
	n.KnownReal &= sh
}

// Apply performs the event and returns the lines the server sends to the
// client for it (none if the client cannot see the event).
func (n *ircNet) Apply(e c13Ev) []string {
	u, c := int(e.U), int(e.C)
	bit := uint8(1) << u
	var lines []string
	switch e.Kind {
	case evJoin:
		ch := &n.Ch[c]
		if ch.On == 0 {
			ch.Op |= bit // channel creator
		}
		ch.On |= bit
		cn := c13Chans[c]
		if u == 0 {
			me := n.Nick(0)
			lines = append(lines, ":"+n.src(0)+" JOIN "+c13JoinArg(cn))
			ch.RTopic = 0
			if ch.Topic != 0 {
				lines = append(lines, fmt.Sprintf(":%s 332 %s %s :%s", c13Srv, me, cn, c13TopicText(ch.Topic)))
				ch.RTopic = ch.Topic
			}
			var names []string
			for v := 0; v < c13NUsers; v++ {
				vb := uint8(1) << v
				if ch.On&vb != 0 {
					names = append(names, c13Prefix(ch.Op&vb != 0, ch.Voice&vb != 0)+n.Nick(v))
				}
			}
			// NAMES shows the highest prefix only
			ch.ROp = ch.Op
			ch.RVoice = ch.Voice &^ ch.Op
			ch.RN, ch.RKey, ch.RLimit = false, false, false // not told until the 324
			lines = append(lines,
				fmt.Sprintf(":%s 353 %s = %s :%s", c13Srv, me, cn, strings.Join(names, " ")),
				fmt.Sprintf(":%s 366 %s %s :End of NAMES list", c13Srv, me, cn))
		} else if ch.On&c13MeBit != 0 {
			lines = append(lines, ":"+n.src(u)+" JOIN "+c13JoinArg(cn))
			if n.Known&bit == 0 {
				// a nick the client did not know: its details are taken from the JOIN source (for a known one a JOIN
				// changes nothing, only a WHO reply does)
				n.RAlt = n.RAlt&^bit | n.Alt&bit
			}
			n.Known |= bit // the JOIN source carries ident@host
		}
	case evPart:
		if n.Ch[c].On&c13MeBit != 0 {
			lines = append(lines, ":"+n.src(u)+" PART "+c13Chans[c]+c13Style.PartMsg)
		}
		n.leave(u, c)
	case evKick:
		if n.Ch[c].On&c13MeBit != 0 {
			lines = append(lines, ":"+n.actor(c, u)+" KICK "+c13Chans[c]+" "+n.Nick(u)+c13Style.KickMsg)
		}
		n.leave(u, c)
	case evQuit:
		if n.sharing()&bit != 0 {
			lines = append(lines, ":"+n.src(u)+" QUIT"+c13Style.QuitMsg)
		}
		for cc := range n.Ch {
			if n.Ch[cc].On&bit != 0 {
				n.leave(u, cc)
			}
		}
	case evNick:
		visible := u == 0 || n.sharing()&bit != 0
		old := n.src(u)
		if u == 0 {
			n.Name[0] ^= 1
		} else {
			other := 3 - u
			n.Name[u] = 3 - n.Name[u] - n.Name[other] // the pool name nobody uses
		}
		if visible {
			if c13Style.NickColon {
				lines = append(lines, ":"+old+" NICK :"+n.Nick(u))
			} else {
				lines = append(lines, ":"+old+" NICK "+n.Nick(u))
			}
		}
	case evCloak:
		n.Alt ^= bit
	case evTopic:
		ch := &n.Ch[c]
		ch.Topic = (ch.Topic + 1) % uint8(len(c13Topics))
		if ch.On&c13MeBit != 0 {
			lines = append(lines, ":"+n.actor(c, -1)+" TOPIC "+c13Chans[c]+" :"+c13TopicText(ch.Topic))
			ch.RTopic = ch.Topic
		}
	case evMode:
		ch := &n.Ch[c]
		seen := ch.On&c13MeBit != 0
		var change string
		sign := func(on bool) string {
			if on {
				return "+"
			}
			return "-"
		}
		switch e.X {
		case c13ModeOp:
			ch.Op ^= bit
			change = sign(ch.Op&bit != 0) + string(c13Style.Hi) + " " + n.Nick(u)
			if seen {
				ch.ROp = ch.ROp&^bit | ch.Op&bit
			}
		case c13ModeVoice:
			ch.Voice ^= bit
			change = sign(ch.Voice&bit != 0) + string(c13Style.Lo) + " " + n.Nick(u)
			if seen {
				ch.RVoice = ch.RVoice&^bit | ch.Voice&bit
			}
		case c13ModeN:
			ch.N = !ch.N
			change = sign(ch.N) + "n"
			if seen {
				ch.RN = ch.N
			}
		case c13ModeK:
			ch.Key = !ch.Key
			change = sign(ch.Key) + "k " + c13Key
			if !ch.Key && c13Style.KeyOff != "" {
				change = "-k " + c13Style.KeyOff
			}
			if seen {
				ch.RKey = ch.Key
			}
		case c13ModeL:
			ch.Limit = !ch.Limit
			if ch.Limit {
				change = fmt.Sprintf("+l %d", c13Limit)
			} else {
				change = "-l"
			}
			if seen {
				ch.RLimit = ch.Limit
			}
		default:
			if e.X >= c13ModeLimOp {
				w := int(e.X - c13ModeLimOp)
				wbit := uint8(1) << w
				ch.Limit = !ch.Limit
				ch.Op ^= wbit
				if ch.Limit {
					change = fmt.Sprintf("+l%s%c %d %s", sign(ch.Op&wbit != 0), c13Style.Hi, c13Limit, n.Nick(w))
				} else {
					change = fmt.Sprintf("-l%s%c %s", sign(ch.Op&wbit != 0), c13Style.Hi, n.Nick(w))
				}
				if seen {
					ch.RLimit = ch.Limit
					ch.ROp = ch.ROp&^wbit | ch.Op&wbit
				}
			} else {
				w := int(e.X - c13ModePair)
				wbit := uint8(1) << w
				ch.Op ^= bit
				ch.Voice ^= wbit
				change = fmt.Sprintf("%s%c%s%c %s %s", sign(ch.Op&bit != 0), c13Style.Hi, sign(ch.Voice&wbit != 0), c13Style.Lo, n.Nick(u), n.Nick(w))
				if seen {
					ch.ROp = ch.ROp&^bit | ch.Op&bit
					ch.RVoice = ch.RVoice&^wbit | ch.Voice&wbit
				}
			}
		}
		if seen {
			not := -1
			if e.X == c13ModeOp || e.X == c13ModeVoice {
				not = u
			}
			lines = append(lines, ":"+n.actor(c, not)+" MODE "+c13Chans[c]+" "+change)
		}
	}
	n.normalise()
	return lines
}

// Answer is the server's reply to one line written by the client. Only the
// two requests the library issues on its own are answered (`MODE <chan>` and
// `WHO <mask>`); everything else gets no reply.
func (n *ircNet) Answer(req string) []string {
	f := strings.Fields(req)
	me := n.Nick(0)
	switch {
	case len(f) == 2 && f[0] == "MODE":
		c := c13ChanIndex(f[1])
		if c < 0 || n.Ch[c].On == 0 {
			return []string{fmt.Sprintf(":%s 403 %s %s :No such channel", c13Srv, me, f[1])}
		}
		ch := &n.Ch[c]
		modes, args := "+"+c13Style.Flags324, ""
		if ch.N {
			modes += "n"
		}
		if ch.Key {
			modes += "k"
			args += " " + c13Key
		}
		if ch.Limit {
			modes += "l"
			args += fmt.Sprintf(" %d", c13Limit)
		}
		if ch.On&c13MeBit != 0 {
			ch.RN, ch.RKey, ch.RLimit = ch.N, ch.Key, ch.Limit
		}
		return []string{fmt.Sprintf(":%s 324 %s %s %s%s", c13Srv, me, f[1], modes, args)}
	case len(f) == 2 && f[0] == "WHO":
		var out []string
		row := func(u int, cn string, flags string) {
			out = append(out, fmt.Sprintf(":%s 352 %s %s %s %s %s %s H%s :0 %s", c13Srv, me, cn,
				c13Users[u].Ident, n.host(u, n.Alt), c13Srv, n.Nick(u), flags, c13Users[u].Real))
			if u != 0 && n.sharing()&(1<<u) != 0 {
				n.RAlt = n.RAlt&^(1<<u) | n.Alt&(1<<u)
				n.Known |= 1 << u
				n.KnownReal |= 1 << u
			}
		}
		if c := c13ChanIndex(f[1]); c >= 0 {
			ch := &n.Ch[c]
			for u := 0; u < c13NUsers; u++ {
				b := uint8(1) << u
				if ch.On&b != 0 {
					row(u, f[1], c13Prefix(ch.Op&b != 0, ch.Voice&b != 0))
				}
			}
		} else if u := n.userByNick(f[1]); u >= 0 {
			// the channel column shows a channel the user is on, or *
			cn, fl := "*", ""
			for c := range n.Ch {
				b := uint8(1) << u
				if n.Ch[c].On&b != 0 {
					cn, fl = c13Chans[c], c13Prefix(n.Ch[c].Op&b != 0, n.Ch[c].Voice&b != 0)
					break
				}
			}
			row(u, cn, fl)
		}
		return append(out, fmt.Sprintf(":%s 315 %s %s :End of WHO list", c13Srv, me, f[1]))
	}
	return nil
}

// ---------------------------------------------------------------- the oracle's view

type c13Privs struct{ Op, Voice bool }

type c13ChanView struct {
	Topic   string
	N       bool
	Key     string
	Limit   int
	Members map[string]c13Privs // current nick -> revealed privileges
}

type c13UserView struct {
	Nick        string
	Ident, Host string
	Real        string
	Known       bool // ident@host were told to the client
	KnownReal   bool
	Chans       []string // shared channels
}

// c13View is what the statement allows the oracle to demand of the tracker.
type c13View struct {
	Me    string
	Chans map[string]*c13ChanView // exactly the channels me is on
	Users map[string]*c13UserView // me and exactly the users sharing a channel with me, by current nick
}

func (n *ircNet) View() *c13View {
	v := &c13View{Me: n.Nick(0), Chans: map[string]*c13ChanView{}, Users: map[string]*c13UserView{}}
	sh := n.sharing() | c13MeBit
	for u := 0; u < c13NUsers; u++ {
		b := uint8(1) << u
		if sh&b == 0 {
			continue
		}
		v.Users[n.Nick(u)] = &c13UserView{Nick: n.Nick(u), Ident: c13Users[u].Ident, Host: n.host(u, n.RAlt), Real: c13Users[u].Real,
			Known: n.Known&b != 0, KnownReal: n.KnownReal&b != 0}
	}
	for c := range n.Ch {
		ch := &n.Ch[c]
		if ch.On&c13MeBit == 0 {
			continue
		}
		cv := &c13ChanView{Topic: c13TopicText(ch.RTopic), N: ch.RN, Members: map[string]c13Privs{}}
		if ch.RKey {
			cv.Key = c13Key
		}
		if ch.RLimit {
			cv.Limit = c13Limit
		}
		for u := 0; u < c13NUsers; u++ {
			b := uint8(1) << u
			if ch.On&b != 0 {
				cv.Members[n.Nick(u)] = c13Privs{ch.ROp&b != 0, ch.RVoice&b != 0}
				uv := v.Users[n.Nick(u)]
				uv.Chans = append(uv.Chans, c13Chans[c])
			}
		}
		v.Chans[c13Chans[c]] = cv
	}
	return v
}

// ---------------------------------------------------------------- breadth-first state graph

type c13Node struct {
	St     ircNet
	Parent int32 // index of the predecessor on the (one) shortest history, -1 for the root
	Ev     c13Ev // event leading here from Parent
	Depth  uint8
}

// c13BFS enumerates the network states reachable within maxDepth events,
// breadth-first, every legal event applied in every state, deduplicated on the
// canonical state; each state keeps the first (hence a shortest) history found.
// closed reports that no new state lies beyond the last level that was expanded.
func c13BFS(maxDepth int) (nodes []c13Node, closed bool) {
	root := newIrcNet()
	idx := map[ircNet]int32{*root: 0}
	nodes = append(nodes, c13Node{St: *root, Parent: -1})
	for i := 0; i < len(nodes); i++ {
		if int(nodes[i].Depth) >= maxDepth {
			// is there anything new beyond?
			for j := i; j < len(nodes); j++ {
				st := nodes[j].St
				for _, e := range st.Events() {
					t := st
					t.Apply(e)
					if _, ok := idx[t]; !ok {
						return nodes, false
					}
				}
			}
			return nodes, true
		}
		st := nodes[i].St
		for _, e := range st.Events() {
			t := st
			t.Apply(e)
			if _, ok := idx[t]; ok {
				continue
			}
			idx[t] = int32(len(nodes))
			nodes = append(nodes, c13Node{St: t, Parent: int32(i), Ev: e, Depth: nodes[i].Depth + 1})
		}
	}
	return nodes, true
}

func c13History(nodes []c13Node, i int) []c13Ev {
	var h []c13Ev
	for j := int32(i); nodes[j].Parent >= 0; j = nodes[j].Parent {
		h = append(h, nodes[j].Ev)
	}
	for a, b := 0, len(h)-1; a < b; a, b = a+1, b-1 {
		h[a], h[b] = h[b], h[a]
	}
	return h
}

func c13SortedKeys[V any](m map[string]V) []string {
	ks := make([]string, 0, len(m))
	for k := range m {
		ks = append(ks, k)
	}
	sort.Strings(ks)
	return ks
}
