package harness

import (
	"fmt"
	"os"
	"runtime"
	"sync"
	"sync/atomic"
	"time"
)

// A generic watchdog for enumeration jobs whose unit of work (one session, one call) takes milliseconds: the
// job calls Beat before every unit; if the count then stands still while the process burns CPU or memory, the
// unit in flight does not return (an endless loop without a scheduling point inside the code under test, which
// the step cap of the scheduler cannot see). The job is reported with a "does-not-return" violation naming that
// unit and the worker process exits shortly afterwards, because the stuck goroutine cannot be stopped.

type beatInfo struct {
	family, input string
	params        map[string]interface{}
}

var (
	beatN    atomic.Int64
	beatMu   sync.Mutex
	beatCur  *beatInfo
	guardDie atomic.Bool
)

// BeatParse is the cheap variant for direct calls of the parser (tens of millions per job): the input is kept
// by pointer, the description is only built if the watchdog fires.
func BeatParse(raw *string) {
	beatRaw.Store(raw)
	beatN.Add(1)
}

var beatRaw atomic.Pointer[string]

// Beat records the unit of work that is about to start.
func Beat(family, input string, params map[string]interface{}) {
	beatMu.Lock()
	beatCur = &beatInfo{family, input, params}
	beatMu.Unlock()
	beatRaw.Store(nil)
	beatN.Add(1)
}

// GuardJob wraps a job with the watchdog.
func GuardJob(j Job) Job {
	orig := j.Run
	name := j.Name
	j.Run = func(jc *JobCtx) *JobResult {
		if guardDie.Load() {
			select {} // the runner sees the worker exit and reports this job as not run
		}
		done := make(chan *JobResult, 1)
		go func() { done <- orig(jc) }()
		tick := time.NewTicker(200 * time.Millisecond)
		defer tick.Stop()
		last, lastChange := beatN.Load(), time.Now()
		for {
			select {
			case r := <-done:
				return r
			case <-tick.C:
				if b := beatN.Load(); b != last {
					last, lastChange = b, time.Now()
					continue
				}
				stalled := time.Since(lastChange)
				if stalled < time.Second {
					continue
				}
				var ms runtime.MemStats
				runtime.ReadMemStats(&ms)
				if stalled < 30*time.Second && ms.HeapAlloc < 600<<20 {
					continue
				}
				beatMu.Lock()
				cur := beatCur
				beatMu.Unlock()
				if raw := beatRaw.Load(); raw != nil {
					cur = &beatInfo{"parse-direct", Q(*raw), map[string]interface{}{"lines": []string{*raw}, "mode": "direct", "raw": *raw}}
				}
				if cur == nil || beatN.Load() != last {
					continue
				}
				e := NewEnum(name)
				e.Case("stuck")
				e.Fail(cur.family, "does-not-return", cur.input, fmt.Sprintf("the client did not come back within %.1fs (heap %d MB) while processing this input; a unit of work takes milliseconds", stalled.Seconds(), ms.HeapAlloc>>20), cur.params)
				e.Incomplete("stopped: the unit in flight does not return; the results of this job up to that point are lost")
				guardDie.Store(true)
				go func() {
					time.Sleep(300 * time.Millisecond)
					os.Exit(3)
				}()
				return e.Done()
			}
		}
	}
	return j
}
