package harness

import (
	"encoding/base64"
	"fmt"
	"sort"
	"strings"

	sasl "github.com/emersion/go-sasl"
	"github.com/fluffle/goirc/client"

	"verif/vx"
)

// C19: capability negotiation asks only for what both sides support, and ends.
//
// Every script is one session against a REACTIVE model server: the server
// looks at the lines the client really wrote (in order) and answers each of
// them the way the script prescribes. The oracle is written from the statement
// in properties.jsonl, not from handlers.go:
//
//   req-set-mismatch             union of names over all CAP REQ lines != W' ∩ A
//   req-on-empty-intersection    a CAP REQ line although W' ∩ A is empty
//   has-capability-mismatch      HasCapability(c) != sign of c in the latest ACK mentioning c
//   no-cap-end-after-<event>     no CAP END on the wire after <event> (empty-intersection, nak,
//                                ack-without-sasl, 903, 904, 908; late-ack-without-sasl and late-nak:
//                                the same for ACK / NAK lines that arrive after the negotiation has
//                                ended - the statement makes no exception for them)
//   authenticate-without-sasl    an AUTHENTICATE line although SASL is not configured
//   authenticate-before-sasl-ack AUTHENTICATE <mech> before the server's ACK that contains sasl
//   authenticate-without-new-sasl-ack  a further AUTHENTICATE <mech> without a further ACK naming sasl
//   authenticate-wrong-mech      AUTHENTICATE <other mechanism name>
//   payload-before-plus          SASL data before the server asked for it with "AUTHENTICATE +"
//   payload-encoding             SASL data != base64("\0u\0p") (PLAIN) resp. "+" (EXTERNAL, empty identity)
//   crash / deadlock             the run did not end normally
//   no-pong-after-negotiation    the session no longer answers PING :sync
//
// Recorded, NOT judged (the statement is silent):
//   * how many CAP END lines are sent (repeats are not forbidden),
//   * whether a CAP END precedes the ACK of sasl when the ACK arrives in several lines,
//   * the byte length of each CAP REQ line, duplicates / order of names inside the REQ lines,
//   * whether the payload is sent at all after "AUTHENTICATE +" (the statement only says
//     "only after"); without it the reactive server simply never sends 903/904.

type c19Script struct {
	Family string
	W      []string   // cfg.Capabilites
	Sasl   string     // none | PLAIN | EXTERNAL
	A      []string   // advertised, in the order sent
	Reply  string     // ack | nak | ack2 | ack-minus
	Cont   string     // plus-903 | plus-904 | 908-904 | 904
	Batch  bool       // all lines of one server reaction in one segment (thorough)
	Early  bool       // ack-minus: the unsolicited "ACK :-a" follows the ACK at once (thorough)
	Plus   string     // "" | before-reply | at-end: an "AUTHENTICATE +" nobody asked for, before the server answers CAP REQ (or right after LS when nothing is requested) / after the negotiation
	Again  *c19Script // the same client connects a second time and meets this script (same W and Sasl; what the server advertises and answers may differ)
	Late   []string   // CAP lines the server sends after the negotiation is over ("ACK :-a", "NAK :a zz", ...)
}

func (p *c19Script) String() string {
	w, a := strings.Join(p.W, " "), strings.Join(p.A, " ")
	if len(w) > 120 {
		w = fmt.Sprintf("%s… (%d names of %d bytes)", w[:60], len(p.W), len(p.W[0]))
	}
	if len(a) > 120 {
		a = fmt.Sprintf("%s… (%d names)", a[:60], len(p.A))
	}
	x := ""
	if p.Plus != "" {
		x += " unsolicited-plus=" + p.Plus
	}
	if len(p.Late) > 0 {
		x += " late=[" + strings.Join(p.Late, " | ") + "]"
	}
	if p.Again != nil {
		x += fmt.Sprintf(" then-reconnect(advertised=[%s] reply=%s sasl-continuation=%s)", strings.Join(p.Again.A, " "), p.Again.Reply, p.Again.Cont)
	}
	return fmt.Sprintf("wanted=[%s] sasl=%s advertised=[%s] reply=%s sasl-continuation=%s batch=%v early-minus=%v%s", w, p.Sasl, a, p.Reply, p.Cont, p.Batch, p.Early, x)
}

type c19Finding struct{ Oracle, Msg string }

type c19Result struct {
	Findings          []c19Finding
	Transcript        []string // "S <line>" / "C <line>" in the order they happened
	ReqLines          []string
	CapEnds           int
	EndBeforeSaslAck  bool
	EndAfterLateMinus bool
	PayloadMissing    bool
	MechLines         int
}

const (
	c19User = "u"
	c19Pass = "p"
)

type c19demand struct {
	after int // index into the wire: a CAP END must exist at an index >= after
	why   string
}

type c19srv struct {
	s           *Sess
	p           *c19Script
	r           *c19Result
	seen        int
	shown       int // wire lines already copied into the transcript
	held        map[string]bool
	probe       []string
	demands     []c19demand
	saslAckAt   int
	saslAcks    int // ACK lines naming sasl sent so far (each may start one SASL exchange)
	plusAt      []int
	payloads    int
	requested   map[string]bool
	lateMinusAt int
	tag         string // "" | "connection 2: "
}

func (m *c19srv) fail(oracle, msg string) {
	m.r.Findings = append(m.r.Findings, c19Finding{oracle, m.tag + msg})
}

func (m *c19srv) syncTranscript() {
	w := m.s.Wire()
	for ; m.shown < len(w); m.shown++ {
		m.r.Transcript = append(m.r.Transcript, "C "+w[m.shown])
	}
}

// feed sends server lines (one segment), applies them to the reference model
// and compares HasCapability for every probed name.
func (m *c19srv) feed(lines ...string) {
	m.syncTranscript()
	for _, l := range lines {
		m.r.Transcript = append(m.r.Transcript, "S "+l)
		f := strings.SplitN(l, " ", 5)
		if len(f) == 5 && f[1] == "CAP" && f[3] == "ACK" {
			for _, c := range strings.Fields(strings.TrimPrefix(f[4], ":")) {
				if strings.HasPrefix(c, "-") {
					m.held[c[1:]] = false
				} else {
					m.held[c] = true
				}
			}
		}
	}
	m.s.Feed(lines...)
	m.syncTranscript()
	m.checkHeld("after " + Q(lines[len(lines)-1]))
}

func (m *c19srv) checkHeld(when string) {
	for _, c := range m.probe {
		if got, want := m.s.C.HasCapability(c), m.held[c]; got != want {
			m.fail("has-capability-mismatch", fmt.Sprintf("HasCapability(%s)=%v %s, the server's latest acknowledgement says %v", Q(c), got, when, want))
			return
		}
	}
}

// send delivers the lines of one reaction: line by line, or as one segment.
// A CAP END demand attached to a line is due from the wire position before
// that line was sent.
type c19line struct {
	text   string
	demand string // "" = none
	sasl   bool   // this ACK starts SASL
	plus   bool   // this is "AUTHENTICATE +"
}

func (m *c19srv) send(ls []c19line) {
	note := func(l c19line, at int) {
		if l.demand != "" {
			m.demands = append(m.demands, c19demand{at, l.demand})
		}
		if l.sasl && m.saslAckAt < 0 {
			m.saslAckAt = at
		}
		if l.sasl {
			m.saslAcks++
		}
		if l.plus {
			m.plusAt = append(m.plusAt, at)
		}
	}
	if m.p.Batch {
		at := len(m.s.Wire())
		var txt []string
		for _, l := range ls {
			note(l, at)
			txt = append(txt, l.text)
		}
		if len(txt) > 0 {
			m.feed(txt...)
		}
		return
	}
	for _, l := range ls {
		note(l, len(m.s.Wire()))
		m.feed(l.text)
	}
}

func (m *c19srv) ack(names []string) c19line {
	l := c19line{text: ":srv CAP me ACK :" + strings.Join(names, " ")}
	starts := false
	if m.p.Sasl != "none" && m.p.Sasl != "BROKEN" {
		for _, n := range names {
			if n == "sasl" {
				starts = true
			}
		}
	}
	if starts {
		l.sasl = true
	} else {
		l.demand = "ack-without-sasl"
	}
	return l
}

func (m *c19srv) wantedAndAdvertised() []string {
	adv := map[string]bool{}
	for _, a := range m.p.A {
		adv[a] = true
	}
	set := map[string]bool{}
	for _, w := range m.p.W {
		if adv[w] {
			set[w] = true
		}
	}
	if m.p.Sasl != "none" && adv["sasl"] {
		set["sasl"] = true
	}
	var r []string
	for k := range set {
		r = append(r, k)
	}
	sort.Strings(r)
	return r
}

func (m *c19srv) react(idx int, l string) {
	switch {
	case l == "CAP LS":
		line := c19line{text: ":srv CAP * LS :" + strings.Join(m.p.A, " ")}
		if len(m.wantedAndAdvertised()) == 0 {
			line.demand = "empty-intersection"
		}
		m.send([]c19line{line})
		if m.p.Plus == "before-reply" && len(m.wantedAndAdvertised()) == 0 {
			m.send([]c19line{{text: "AUTHENTICATE +", plus: true}})
		}
	case strings.HasPrefix(l, "CAP REQ"):
		m.r.ReqLines = append(m.r.ReqLines, l)
		names := strings.Fields(strings.TrimPrefix(strings.TrimPrefix(strings.TrimPrefix(l, "CAP REQ"), " "), ":"))
		for _, n := range names {
			m.requested[n] = true
		}
		if len(names) == 0 {
			return // an empty request: nothing a server could acknowledge (judged below)
		}
		if m.p.Plus == "before-reply" && len(m.r.ReqLines) == 1 {
			m.send([]c19line{{text: "AUTHENTICATE +", plus: true}})
		}
		switch m.p.Reply {
		case "nak":
			m.send([]c19line{{text: ":srv CAP me NAK :" + strings.Join(names, " "), demand: "nak"}})
		case "ack2":
			if len(names) >= 2 {
				h := len(names) / 2
				m.send([]c19line{m.ack(names[:h]), m.ack(names[h:])})
			} else {
				m.send([]c19line{m.ack(names)})
			}
		case "ack-rev":
			// the server acknowledges in its own order (here: reversed), so sasl is not necessarily last
			rev := make([]string, len(names))
			for i, n := range names {
				rev[len(names)-1-i] = n
			}
			m.send([]c19line{m.ack(rev)})
		case "ack-minus":
			ls := []c19line{m.ack(names)}
			if m.p.Early && m.lateMinusAt < 0 {
				m.lateMinusAt = -2
				ls = append(ls, c19line{text: ":srv CAP me ACK :-a", demand: "ack-without-sasl"})
			}
			m.send(ls)
		default:
			m.send([]c19line{m.ack(names)})
		}
	case strings.HasPrefix(l, "AUTHENTICATE "):
		arg := strings.TrimPrefix(l, "AUTHENTICATE ")
		if m.p.Sasl == "none" || m.p.Sasl == "BROKEN" {
			m.fail("authenticate-without-sasl", "the client sent "+Q(l)+" although no (working) SASL mechanism is configured")
			return
		}
		if arg == "PLAIN" || arg == "EXTERNAL" {
			m.r.MechLines++
			if arg != m.p.Sasl {
				m.fail("authenticate-wrong-mech", "the client sent "+Q(l)+", configured mechanism is "+m.p.Sasl)
			}
			if m.saslAckAt < 0 || idx < m.saslAckAt {
				m.fail("authenticate-before-sasl-ack", "the client sent "+Q(l)+" before the server acknowledged sasl")
			} else if m.r.MechLines > m.saslAcks {
				m.fail("authenticate-without-new-sasl-ack", fmt.Sprintf("the client started SASL %d times (%s) although the server acknowledged sasl %d time(s): an acknowledgement that does not name sasl does not start SASL", m.r.MechLines, Q(l), m.saslAcks))
			}
			switch m.p.Cont {
			case "plus-903", "plus-904":
				m.send([]c19line{{text: "AUTHENTICATE +", plus: true}})
			case "908-904":
				m.send([]c19line{{text: ":srv 908 me PLAIN,EXTERNAL :are available", demand: "908"}, {text: ":srv 904 me :fail", demand: "904"}})
			case "904":
				m.send([]c19line{{text: ":srv 904 me :fail", demand: "904"}})
			}
			return
		}
		// SASL data
		asked := 0
		for _, at := range m.plusAt {
			if at <= idx {
				asked++
			}
		}
		m.payloads++
		if m.saslAckAt < 0 || idx < m.saslAckAt || m.payloads > asked {
			m.fail("payload-before-plus", fmt.Sprintf("the client sent SASL data %s (wire line %d) although the server had asked for data %d time(s) by then (sasl acknowledged: %v)", Q(l), idx+1, asked, m.saslAckAt >= 0 && idx >= m.saslAckAt))
		}
		want := "+"
		if m.p.Sasl == "PLAIN" {
			want = base64.StdEncoding.EncodeToString([]byte("\x00" + c19User + "\x00" + c19Pass))
		}
		if arg != want {
			m.fail("payload-encoding", fmt.Sprintf("SASL data for %s is %s, the mechanism prescribes %s", m.p.Sasl, Q(arg), Q(want)))
		}
		if m.payloads > 1 {
			return // the model server answers the first response only
		}
		switch m.p.Cont {
		case "plus-903":
			m.send([]c19line{{text: ":srv 903 me :ok", demand: "903"}})
		case "plus-904":
			m.send([]c19line{{text: ":srv 904 me :fail", demand: "904"}})
		}
	}
}

func (m *c19srv) pump() {
	for {
		w := m.s.Wire()
		if m.seen >= len(w) {
			return
		}
		l := w[m.seen]
		m.seen++
		m.react(m.seen-1, l)
	}
}

func c19Run(p *c19Script) (*c19Result, *vx.Outcome) {
	r := &c19Result{}
	o := RunSeq(vx.Options{}, func(env *vx.Env) {
		s, err := StartSession(env, "me", func(cfg *client.Config) {
			cfg.EnableCapabilityNegotiation = true
			cfg.Capabilites = append([]string{}, p.W...)
			switch p.Sasl {
			case "PLAIN":
				cfg.Sasl = sasl.NewPlainClient("", c19User, c19Pass)
			case "EXTERNAL":
				cfg.Sasl = sasl.NewExternalClient("")
			case "BROKEN":
				cfg.Sasl = c19Broken{}
			}
		}, nil)
		if err != nil {
			r.Findings = append(r.Findings, c19Finding{"connect-failed", err.Error()})
			return
		}
		scripts := []*c19Script{p}
		if p.Again != nil {
			scripts = append(scripts, p.Again)
		}
		held := map[string]bool{}
		for ci, p := range scripts {
			tag := ""
			if ci > 0 {
				// the same client connects again: another negotiation, judged like the first against what THIS server advertises
				s.End()
				if err := s.C.Connect(); err != nil {
					r.Findings = append(r.Findings, c19Finding{"connect-failed", "second connect: " + err.Error()})
					return
				}
				vx.Quiesce()
				tag = fmt.Sprintf("connection %d: ", ci+1)
				r.Transcript = append(r.Transcript, "-- reconnect --")
				r.ReqLines, r.MechLines = nil, 0
			}
			m := &c19srv{s: s, p: p, r: r, held: held, requested: map[string]bool{}, saslAckAt: -1, lateMinusAt: -1, tag: tag}
			seen := map[string]bool{}
			for _, set := range [][]string{{"a", "b", "sasl", "zz"}, p.W, p.A} {
				for _, n := range set {
					if !seen[n] {
						seen[n] = true
						m.probe = append(m.probe, n)
					}
				}
			}
			if ci == 0 {
				m.checkHeld("before the server said anything")
			} else {
				// whether what was held on the previous connection is forgotten at the reconnect is left open: the
				// client's answers at this point are the baseline for this connection
				for _, c := range m.probe {
					held[c] = s.C.HasCapability(c)
				}
			}
			m.pump()
			if p.Reply == "ack-minus" && m.lateMinusAt == -1 {
				m.lateMinusAt = len(s.Wire())
				m.send([]c19line{{text: ":srv CAP me ACK :-a", demand: "late-ack-without-sasl"}})
				m.pump()
			}
			if p.Plus == "at-end" {
				m.send([]c19line{{text: "AUTHENTICATE +", plus: true}})
				m.pump()
			}
			// late CAP lines: an ACK changes what is held, a NAK changes nothing (feed compares HasCapability after each)
			// Each of them is "a NAK" resp. "an ACK that does not start SASL": a CAP END is due after it as well.
			for _, l := range p.Late {
				cl := c19line{text: ":srv CAP me " + l, demand: "late-nak"}
				if strings.HasPrefix(l, "ACK :") {
					cl = m.ack(strings.Fields(strings.TrimPrefix(l, "ACK :")))
					cl.text = ":srv CAP me " + l
					if cl.demand != "" {
						cl.demand = "late-ack-without-sasl"
					}
				}
				m.send([]c19line{cl})
				m.pump()
			}
			m.syncTranscript()
			wire := s.Wire()

			// --- what was requested
			want := m.wantedAndAdvertised()
			var got []string
			for n := range m.requested {
				got = append(got, n)
			}
			sort.Strings(got)
			if strings.Join(got, " ") != strings.Join(want, " ") {
				m.fail("req-set-mismatch", fmt.Sprintf("requested over all CAP REQ lines: [%s]; wanted ∩ advertised: [%s]", c19short(got), c19short(want)))
			}
			if len(want) == 0 && len(r.ReqLines) > 0 {
				m.fail("req-on-empty-intersection", "CAP REQ sent although nothing wanted is advertised: "+Q(r.ReqLines[0]))
			}
			// --- CAP END
			var ends []int
			for i, l := range wire {
				if l == "CAP END" {
					ends = append(ends, i)
				}
			}
			r.CapEnds = len(ends)
			for _, d := range m.demands {
				ok := false
				for _, i := range ends {
					if i >= d.after {
						ok = true
					}
				}
				if !ok {
					m.fail("no-cap-end-after-"+d.why, fmt.Sprintf("no CAP END on the wire after the server's %s (client lines from position %d on: %s)", d.why, d.after+1, joinQ(wire[minInt(d.after, len(wire)):])))
				}
			}
			if m.saslAckAt >= 0 && len(ends) > 0 && ends[0] < m.saslAckAt {
				r.EndBeforeSaslAck = true
			}
			if m.lateMinusAt >= 0 {
				for _, i := range ends {
					if i >= m.lateMinusAt {
						r.EndAfterLateMinus = true
					}
				}
			}
			if len(m.plusAt) > 0 && m.payloads == 0 {
				r.PayloadMissing = true
			}
			// --- still alive
			n := len(wire)
			s.Feed("PING :sync")
			pong := false
			for _, l := range s.WireSince(n) {
				if NormLine(l) == "PONG :sync" {
					pong = true
				}
			}
			if !pong {
				m.fail("no-pong-after-negotiation", "PING :sync after the negotiation was not answered; client wrote "+joinQ(s.WireSince(n)))
			}
			m.checkHeld("after the final PING")
		}
		s.End()
	})
	switch o.Kind {
	case "ok":
	case "crash":
		r.Findings = append([]c19Finding{{"crash", o.Crash.Task + ": panic: " + o.Crash.Value + " @ " + o.Crash.Top}}, r.Findings...)
	default:
		r.Findings = append([]c19Finding{{o.Kind, "run ended as " + o.Kind + "; blocked: " + o.BlockedSig()}}, r.Findings...)
	}
	return r, o
}

// c19Broken is a mechanism whose Start fails: an ACK of sasl then does not start SASL.
type c19Broken struct{}

func (c19Broken) Start() (string, []byte, error) { return "", nil, fmt.Errorf("no credentials") }
func (c19Broken) Next([]byte) ([]byte, error)    { return nil, fmt.Errorf("no exchange in progress") }

func c19short(ss []string) string {
	s := strings.Join(ss, " ")
	if len(s) > 200 {
		return fmt.Sprintf("%s… (%d names)", s[:100], len(ss))
	}
	return s
}

func minInt(a, b int) int {
	if a < b {
		return a
	}
	return b
}

// c19Stats accumulates the recorded-not-judged observations of a job.
type c19Stats struct {
	sessions, withReq, multiReq, maxReqLines, maxReqLen, minSplitLen int
	endsHist                                                         map[int]int
	endBeforeSaslAck, endAfterLateMinus, lateMinus, payloadMissing   int
	saslDone                                                         int
}

func (st *c19Stats) add(p *c19Script, r *c19Result) {
	st.sessions++
	if len(r.ReqLines) > 0 {
		st.withReq++
	}
	if len(r.ReqLines) > 1 {
		st.multiReq++
	}
	if len(r.ReqLines) > st.maxReqLines {
		st.maxReqLines = len(r.ReqLines)
	}
	for i, l := range r.ReqLines {
		if len(l) > st.maxReqLen {
			st.maxReqLen = len(l)
		}
		if len(r.ReqLines) > 1 && i < len(r.ReqLines)-1 && (st.minSplitLen == 0 || len(l) < st.minSplitLen) {
			st.minSplitLen = len(l)
		}
	}
	if st.endsHist == nil {
		st.endsHist = map[int]int{}
	}
	st.endsHist[r.CapEnds]++
	if r.EndBeforeSaslAck {
		st.endBeforeSaslAck++
	}
	if p.Reply == "ack-minus" && !p.Early {
		st.lateMinus++
		if r.EndAfterLateMinus {
			st.endAfterLateMinus++
		}
	}
	if r.PayloadMissing {
		st.payloadMissing++
	}
	if r.MechLines > 0 {
		st.saslDone++
	}
}

func (st *c19Stats) notes() []string {
	var ks []int
	for k := range st.endsHist {
		ks = append(ks, k)
	}
	sort.Ints(ks)
	var h []string
	for _, k := range ks {
		h = append(h, fmt.Sprintf("%dx:%d", k, st.endsHist[k]))
	}
	return []string{fmt.Sprintf("recorded, not judged: %d sessions, %d with CAP REQ (%d with several REQ lines, at most %d; longest REQ line %d bytes without CRLF, shortest non-final line of a split request %d bytes), %d reached AUTHENTICATE <mech>; CAP END lines per session {%s}; CAP END before the server acknowledged sasl in %d sessions; CAP END after the late unsolicited ACK :-a in %d of %d; payload never sent after AUTHENTICATE + in %d",
		st.sessions, st.withReq, st.multiReq, st.maxReqLines, st.maxReqLen, st.minSplitLen, st.saslDone, strings.Join(h, " "), st.endBeforeSaslAck, st.endAfterLateMinus, st.lateMinus, st.payloadMissing)}
}

func c19Job(name string, note bool, scripts func(yield func(p *c19Script) bool)) Job {
	return Job{Name: name, Cost: 10, Run: func(jc *JobCtx) *JobResult {
		e := NewEnum(name)
		st := &c19Stats{}
		var best interface{}
		bestLen := 0
		scripts(func(p *c19Script) bool {
			r, _ := c19Run(p)
			st.add(p, r)
			e.Case(p.Sasl + "|" + strings.Join(p.W, " ") + "|" + strings.Join(r.Transcript, "\n"))
			seen := map[string]bool{}
			for _, f := range r.Findings {
				if seen[f.Oracle] {
					continue
				}
				seen[f.Oracle] = true
				tr := strings.Join(r.Transcript, " | ")
				if len(tr) > 1500 {
					tr = tr[:1500] + "…"
				}
				e.Fail(p.Family, f.Oracle, p.String(), f.Msg+" :: transcript: "+tr, map[string]interface{}{"wanted": c19short(p.W), "sasl": p.Sasl, "advertised": c19short(p.A), "reply": p.Reply, "continuation": p.Cont, "batch": p.Batch, "early_minus": p.Early, "plus": p.Plus, "late": strings.Join(p.Late, " | ")})
			}
			if n := len(strings.Join(r.Transcript, "\n")); n > bestLen {
				bestLen = n
				tr := append([]string{}, r.Transcript...)
				if len(tr) > 40 {
					tr = tr[:40]
				}
				for i := range tr {
					if len(tr[i]) > 160 {
						tr[i] = tr[i][:160] + "…"
					}
				}
				best = map[string]interface{}{"script": p.String(), "transcript": tr, "cap_end_lines": r.CapEnds}
			}
			if e.TooMany() {
				e.Incomplete("stopped after 10 distinct violation signatures")
				return false
			}
			if jc.Expired() {
				e.Incomplete("deadline at " + p.String())
				return false
			}
			return true
		})
		if best != nil {
			e.Sample(best)
		}
		if note {
			e.R.Notes = append(e.R.Notes, st.notes()...)
		}
		return e.Done()
	}}
}

func c19Subsets(u []string) [][]string {
	var r [][]string
	for m := 0; m < 1<<len(u); m++ {
		s := []string{}
		for i, n := range u {
			if m&(1<<i) != 0 {
				s = append(s, n)
			}
		}
		r = append(r, s)
	}
	return r
}

// c19Name builds the i-th capability name of exactly n bytes for generator g:
// systematically varied, never starting with '-', no spaces.
func c19Name(g string, i, n int) string {
	s := fmt.Sprintf("%s%d", g, i)
	if len(s) >= n {
		// keep the distinguishing digits at the end
		return s[len(s)-n:]
	}
	fill := "abcdefghijklmnopqrstuvwxyz/.-_"
	var sb strings.Builder
	sb.WriteString(s[:len(g)])
	for k := 0; sb.Len() < n-(len(s)-len(g)); k++ {
		sb.WriteByte(fill[(i+k)%len(fill)])
	}
	sb.WriteString(s[len(g):])
	return sb.String()
}

func c19Large(n, l int, mixed bool, saslMech string, extraAdv, extraWanted int, reply string) *c19Script {
	p := &c19Script{Family: "large-sets", Sasl: saslMech, Reply: reply, Cont: "plus-903"}
	for i := 0; i < n; i++ {
		ln := l
		if mixed && i%2 == 1 {
			ln = 10
		}
		if ln < 1+len(fmt.Sprint(n)) {
			ln = 1 + len(fmt.Sprint(n)) // keeps the names distinct
		}
		c := c19Name("k", 1000+i, ln)
		p.W = append(p.W, c)
		p.A = append(p.A, c)
	}
	for i := 0; i < extraAdv; i++ {
		p.A = append(p.A, c19Name("x", 1000+i, 12))
	}
	for i := 0; i < extraWanted; i++ {
		p.W = append(p.W, c19Name("w", 1000+i, 12))
	}
	if saslMech != "none" {
		p.A = append(p.A, "sasl")
	}
	return p
}

func init() {
	Register(&Prop{
		ID:   "C19",
		Rule: "family small-universe: full product wanted W ⊆ {a,b,zz,sasl} × SASL {none, PLAIN(u,p), EXTERNAL(\"\")} × advertised A ⊆ {a,b,sasl,zz} × reply to CAP REQ {ACK all, NAK, ACK in two lines, ACK then an unsolicited ACK :-a, ACK in reversed order} × SASL continuation {AUTHENTICATE + then 903; + then 904; 908 then 904; 904 at once} = 6144 scripts (thorough: × server lines one per segment / one segment per reaction × late / immediate ACK :-a × advertised order forward / reversed), one session each against a reactive model server; family unsolicited-plus: W × SASL {none, PLAIN, EXTERNAL, a mechanism whose Start fails} × A × reply {ACK, NAK, ACK in two lines} × an AUTHENTICATE + nobody asked for {before the reply to CAP REQ (after LS when nothing is requested), after the negotiation}; family late-lines: after the negotiation every sequence of up to 2 (thorough 3) further server lines over {ACK :-a, ACK :a, NAK :a, NAK :-a, NAK :a zz, ACK :-a b, NAK :-a -b, ACK :-zz, ACK :-sasl, NAK :-sasl, ACK :zz (a name that, for W = {a,b}, was never wanted)}, HasCapability compared after each and a CAP END demanded after each (they are NAKs and ACKs that do not start SASL), after a completed SASL exchange and after one refused with 908 + 904 before the server asked for data (W ∈ {{a,b},{a,b,zz,sasl}} quick, all 16 thorough); family reconnect: the same client negotiates twice in one session (W ∈ 3 sets quick / all 16 thorough × SASL × first advertised set × second advertised set × first reply ACK / NAK × first SASL outcome 903 / 904), the second negotiation judged like the first against what the second server advertises; family large-sets: wanted = advertised sets of N capabilities with L-byte names (quick N ∈ {10,30,60}, L ∈ {10,40}; thorough N = 1..80, L ∈ {3..200} and mixed) × SASL × extra advertised / extra wanted names, every CAP REQ line ACKed (or NAKed), and a boundary sweep (ten resp. twenty-one 40-byte names plus one of 5..75 bytes: every joined length 415..485 and 866..936); a case is one session; distinct = distinct (configuration, full client/server transcript)",
		Assumptions: []string{
			"single-line CAP LS replies (CAP 3.1); multi-line LS (\"CAP * LS * :\") is outside the statement's quantifier",
			"the server acknowledges exactly the names of the REQ line it answers (or a split of them); it never acknowledges names that were not requested except the scripted ACK :-a",
			"CAP END demands are 'at least one CAP END at or after the event'; repeats are counted, not judged",
			"what HasCapability answers between a reconnect and the new server's first acknowledgement is left open by the statement: the client's answers at that point are the baseline of the second negotiation",
		},
		Jobs: func(tier string) []Job {
			var jobs []Job
			replies := []string{"ack", "nak", "ack2", "ack-minus", "ack-rev"}
			conts := []string{"plus-903", "plus-904", "908-904", "904"}
			mechs := []string{"none", "PLAIN", "EXTERNAL"}
			allW := c19Subsets([]string{"a", "b", "zz", "sasl"}) // zz sorts after sasl; sasl may also be asked for by name
			allA := c19Subsets([]string{"a", "b", "sasl", "zz"})
			// unsolicited AUTHENTICATE +, and a mechanism that cannot start
			for wi, w := range allW {
				for _, mech := range []string{"none", "PLAIN", "EXTERNAL", "BROKEN"} {
					w, mech := w, mech
					jobs = append(jobs, c19Job(fmt.Sprintf("unsolicited-plus/W=%d/sasl=%s", wi, mech), false, func(yield func(p *c19Script) bool) {
						for _, a := range allA {
							for _, rep := range []string{"ack", "nak", "ack2"} {
								for _, plus := range []string{"", "before-reply", "at-end"} {
									if plus == "" && mech != "BROKEN" {
										continue // small-universe has these
									}
									if !yield(&c19Script{Family: "unsolicited-plus", W: w, Sasl: mech, A: a, Reply: rep, Cont: "plus-903", Plus: plus}) {
										return
									}
								}
							}
						}
					}))
				}
			}
			// late CAP lines after the negotiation: sequences over an alphabet of ACKs and NAKs that mention held and unheld names
			lateAlpha := []string{"ACK :-a", "ACK :a", "NAK :a", "NAK :-a", "NAK :a zz", "ACK :-a b", "NAK :-a -b", "ACK :-zz", "ACK :-sasl", "NAK :-sasl", "ACK :zz"}
			var lateSeqs [][]string
			depth := 2
			if tier == "thorough" {
				depth = 3
			}
			var gen func(pre []string)
			gen = func(pre []string) {
				if len(pre) > 0 {
					lateSeqs = append(lateSeqs, append([]string{}, pre...))
				}
				if len(pre) == depth {
					return
				}
				for _, l := range lateAlpha {
					gen(append(pre, l))
				}
			}
			gen(nil)
			for wi, w := range allW {
				if tier != "thorough" && wi != 3 && wi != 15 { // {a,b} and {a,b,zz,sasl}
					continue
				}
				for _, mech := range mechs {
					w, mech := w, mech
					jobs = append(jobs, c19Job(fmt.Sprintf("late-lines/W=%d/sasl=%s", wi, mech), false, func(yield func(p *c19Script) bool) {
						for _, a := range allA {
							for _, rep := range []string{"ack", "nak"} {
								for _, late := range lateSeqs {
									// after a completed exchange, and after one the server refused before asking for data
									for _, ct := range []string{"plus-903", "908-904"} {
										if ct != "plus-903" && (mech == "none" || rep != "ack") {
											continue
										}
										if !yield(&c19Script{Family: "late-lines", W: w, Sasl: mech, A: a, Reply: rep, Cont: ct, Late: late}) {
											return
										}
									}
								}
							}
						}
					}))
				}
			}
			// reconnect: the same client negotiates a second time, with a server that advertises the same or another set
			for wi, w := range allW {
				if tier != "thorough" && wi != 3 && wi != 15 && wi != 7 {
					continue
				}
				for _, mech := range mechs {
					w, mech := w, mech
					jobs = append(jobs, c19Job(fmt.Sprintf("reconnect/W=%d/sasl=%s", wi, mech), false, func(yield func(p *c19Script) bool) {
						for _, a1 := range allA {
							for _, a2 := range allA {
								for _, rep := range []string{"ack", "nak"} {
									for _, ct := range []string{"plus-903", "904"} {
										if ct != "plus-903" && mech == "none" {
											continue
										}
										p := &c19Script{Family: "reconnect", W: w, Sasl: mech, A: a1, Reply: rep, Cont: ct,
											Again: &c19Script{Family: "reconnect", W: w, Sasl: mech, A: a2, Reply: "ack", Cont: "plus-903"}}
										if !yield(p) {
											return
										}
									}
								}
							}
						}
					}))
				}
			}
			for wi, w := range allW {
				for _, mech := range mechs {
					for _, rep := range replies {
						w, mech, rep := w, mech, rep
						name := fmt.Sprintf("small-universe/W=%d/sasl=%s/reply=%s", wi, mech, rep)
						jobs = append(jobs, c19Job(name, wi == 7 || wi == 15, func(yield func(p *c19Script) bool) {
							type variant struct{ batch, early, rev bool }
							vs := []variant{{}}
							if tier == "thorough" {
								vs = nil
								for i := 0; i < 8; i++ {
									v := variant{i&1 != 0, i&2 != 0, i&4 != 0}
									if v.early && rep != "ack-minus" {
										continue
									}
									vs = append(vs, v)
								}
							}
							for _, v := range vs {
								for _, a := range c19Subsets([]string{"a", "b", "sasl", "zz"}) {
									adv := append([]string{}, a...)
									if v.rev {
										for i, j := 0, len(adv)-1; i < j; i, j = i+1, j-1 {
											adv[i], adv[j] = adv[j], adv[i]
										}
									}
									for _, ct := range conts {
										if !yield(&c19Script{Family: "small-universe", W: w, Sasl: mech, A: adv, Reply: rep, Cont: ct, Batch: v.batch, Early: v.early}) {
											return
										}
									}
								}
							}
						}))
					}
				}
			}
			// large sets
			ns, ls := []int{10, 30, 60}, []int{10, 40}
			if tier == "thorough" {
				ns = nil
				for n := 1; n <= 80; n++ {
					ns = append(ns, n)
				}
				ls = []int{3, 5, 10, 20, 40, 60, 100, 200}
			}
			for _, l := range ls {
				for _, mixed := range []bool{false, true} {
					if mixed && l <= 10 {
						continue
					}
					for _, mech := range mechs {
						l, mixed, mech := l, mixed, mech
						name := fmt.Sprintf("large-sets/L=%d/mixed=%v/sasl=%s", l, mixed, mech)
						jobs = append(jobs, c19Job(name, true, func(yield func(p *c19Script) bool) {
							for _, n := range ns {
								for _, ea := range []int{0, 7} {
									for _, ew := range []int{0, 5} {
										for _, rep := range []string{"ack", "nak"} {
											if rep == "nak" && (ea != 0 || ew != 0) {
												continue
											}
											if !yield(c19Large(n, l, mixed, mech, ea, ew, rep)) {
												return
											}
										}
									}
								}
							}
						}))
					}
				}
			}
			// boundary sweep: the joined length of the requested set takes every value in a window around one and around
			// two request lines (ten resp. twenty-one 40-byte names, 409 resp. 860 bytes joined, plus one name of 5..75 bytes)
			for _, mech := range mechs {
				mech := mech
				jobs = append(jobs, c19Job(fmt.Sprintf("large-sets/boundary/sasl=%s", mech), true, func(yield func(p *c19Script) bool) {
					for _, nb := range []int{10, 21} {
						for last := 5; last <= 75; last++ {
							for _, rep := range []string{"ack", "nak"} {
								p := c19Large(nb, 40, false, mech, 0, 0, rep)
								c := c19Name("z", 2000+last, last)
								p.W = append(p.W, c)
								p.A = append(p.A, c)
								if !yield(p) {
									return
								}
							}
						}
					}
				}))
			}
			// the runner keeps the first few samples / notes in job order: put the richest jobs first
			rank := func(n string) int {
				switch {
				case strings.HasPrefix(n, "large-sets/L=40/mixed=false/sasl=PLAIN"):
					return 0
				case strings.HasPrefix(n, "small-universe/W=7/sasl=PLAIN"), strings.HasPrefix(n, "small-universe/W=7/sasl=EXTERNAL/reply=ack-minus"):
					return 1
				case strings.HasPrefix(n, "large-sets/"):
					return 2
				case strings.HasPrefix(n, "small-universe/W=7/"), strings.HasPrefix(n, "small-universe/W=15/"):
					return 3
				}
				return 4
			}
			sort.SliceStable(jobs, func(i, j int) bool { return rank(jobs[i].Name) < rank(jobs[j].Name) })
			return jobs
		},
	})
}
