module verif

go 1.21

require (
	github.com/fluffle/goirc v0.0.0
	golang.org/x/net v0.18.0
	golang.org/x/tools v0.29.0
)

replace github.com/fluffle/goirc => /repo
