package harness

import (
	"fmt"
	"sort"
	"strings"

	"github.com/fluffle/goirc/client"

	"verif/vx"
)

// C08: each API call writes only whole, single IRC commands of its own verb.
//
// Every exported command method of *client.Conn is called on a connected
// client with every combination of the menu strings below in its argument
// positions; the bytes that reach the server end of the in-memory socket
// between the call and the following quiescence are attributed to that call
// and judged:
//
//   * they are a concatenation of lines each terminated by exactly "\r\n" and
//     containing no other CR or LF;
//   * every line begins with the verb of the called method, followed by a
//     space or by the end of the line (Raw has no verb of its own: the line
//     must equal the argument up to its first CR or LF).
//
// How many lines a call writes is recorded (histogram in the job notes), not
// judged. The statement does not say a call must not panic; a panic is
// nevertheless reported (oracle "crash") because it ends the process.

var c08Menu = []string{
	"", "a", "a b", "\r", "\n", "\r\n", "x\ry", "x\nQUIT :bye", "x\r\nQUIT :bye", "\nQUIT",
	"\x00", "\x01", strings.Repeat("a", 600), strings.Repeat("a", 600) + "\nQUIT",
	"a%",
}

// c08Method describes one exported command method: its verb on the wire, the
// numbers of string positions it is called with (variadic methods: fixed
// parameters plus 0, 1 and 2 extra arguments) and whether Config.SplitLen
// influences it.
type c08Method struct {
	Name    string
	Verb    string // "" = Raw
	Arities []int
	Split   bool
	Call    func(c *client.Conn, a []string)
}

func c08Ifaces(a []string) []interface{} {
	r := make([]interface{}, len(a))
	for i, s := range a {
		r[i] = s
	}
	return r
}

var c08Methods = []c08Method{
	{"Raw", "", []int{1}, false, func(c *client.Conn, a []string) { c.Raw(a[0]) }},
	{"Pass", "PASS", []int{1}, false, func(c *client.Conn, a []string) { c.Pass(a[0]) }},
	{"Nick", "NICK", []int{1}, false, func(c *client.Conn, a []string) { c.Nick(a[0]) }},
	{"User", "USER", []int{2}, false, func(c *client.Conn, a []string) { c.User(a[0], a[1]) }},
	{"Join", "JOIN", []int{1, 2, 3}, false, func(c *client.Conn, a []string) { c.Join(a[0], a[1:]...) }},
	{"Part", "PART", []int{1, 2, 3}, false, func(c *client.Conn, a []string) { c.Part(a[0], a[1:]...) }},
	{"Kick", "KICK", []int{2, 3, 4}, false, func(c *client.Conn, a []string) { c.Kick(a[0], a[1], a[2:]...) }},
	{"Quit", "QUIT", []int{0, 1, 2}, false, func(c *client.Conn, a []string) { c.Quit(a...) }},
	{"Whois", "WHOIS", []int{1}, false, func(c *client.Conn, a []string) { c.Whois(a[0]) }},
	{"Who", "WHO", []int{1}, false, func(c *client.Conn, a []string) { c.Who(a[0]) }},
	{"Privmsg", "PRIVMSG", []int{2}, true, func(c *client.Conn, a []string) { c.Privmsg(a[0], a[1]) }},
	{"Privmsgln", "PRIVMSG", []int{1, 2, 3}, true, func(c *client.Conn, a []string) { c.Privmsgln(a[0], c08Ifaces(a[1:])...) }},
	// Privmsgf twice: the menu string as the argument of "%s", and as the format itself
	{"Privmsgf(%s)", "PRIVMSG", []int{2}, true, func(c *client.Conn, a []string) { c.Privmsgf(a[0], "%s", a[1]) }},
	{"Privmsgf(fmt)", "PRIVMSG", []int{2}, true, func(c *client.Conn, a []string) { c.Privmsgf(a[0], a[1]) }},
	{"Notice", "NOTICE", []int{2}, true, func(c *client.Conn, a []string) { c.Notice(a[0], a[1]) }},
	{"Ctcp", "PRIVMSG", []int{2, 3, 4}, true, func(c *client.Conn, a []string) { c.Ctcp(a[0], a[1], a[2:]...) }},
	{"CtcpReply", "NOTICE", []int{2, 3, 4}, true, func(c *client.Conn, a []string) { c.CtcpReply(a[0], a[1], a[2:]...) }},
	{"Version", "PRIVMSG", []int{1}, true, func(c *client.Conn, a []string) { c.Version(a[0]) }},
	{"Action", "PRIVMSG", []int{2}, true, func(c *client.Conn, a []string) { c.Action(a[0], a[1]) }},
	{"Topic", "TOPIC", []int{1, 2, 3}, false, func(c *client.Conn, a []string) { c.Topic(a[0], a[1:]...) }},
	{"Mode", "MODE", []int{1, 2, 3}, false, func(c *client.Conn, a []string) { c.Mode(a[0], a[1:]...) }},
	{"Away", "AWAY", []int{0, 1, 2}, false, func(c *client.Conn, a []string) { c.Away(a...) }},
	{"Invite", "INVITE", []int{2}, false, func(c *client.Conn, a []string) { c.Invite(a[0], a[1]) }},
	{"Oper", "OPER", []int{2}, false, func(c *client.Conn, a []string) { c.Oper(a[0], a[1]) }},
	{"VHost", "VHOST", []int{2}, false, func(c *client.Conn, a []string) { c.VHost(a[0], a[1]) }},
	{"Ping", "PING", []int{1}, false, func(c *client.Conn, a []string) { c.Ping(a[0]) }},
	{"Pong", "PONG", []int{1}, false, func(c *client.Conn, a []string) { c.Pong(a[0]) }},
	{"Cap", "CAP", []int{1, 2, 3}, false, func(c *client.Conn, a []string) { c.Cap(a[0], a[1:]...) }},
	{"Authenticate", "AUTHENTICATE", []int{1}, false, func(c *client.Conn, a []string) { c.Authenticate(a[0]) }},
}

func c08FindMethod(name string) *c08Method {
	for i := range c08Methods {
		if c08Methods[i].Name == name {
			return &c08Methods[i]
		}
	}
	return nil
}

// c08MenuX: the thorough tier adds a few more shapes to the menu (lone space and
// colon, LF before CR, doubled CR, fmt verbs around an LF, 5000 bytes).
var c08MenuX = append(append([]string{}, c08Menu...),
	" ", ":", "\n\r", "a\r\r\nQUIT", "%s\n%d", strings.Repeat("a", 5000))

func c08Pow(n, base int) int {
	r := 1
	for i := 0; i < n; i++ {
		r *= base
	}
	return r
}

// total number of argument tuples of a method (all arities)
func (m *c08Method) total(menu []string) int {
	t := 0
	for _, a := range m.Arities {
		t += c08Pow(a, len(menu))
	}
	return t
}

// args decodes the i-th argument tuple (arities in order, then mixed radix, first position most significant).
func (m *c08Method) args(i int, menu []string) []string {
	for _, ar := range m.Arities {
		n := c08Pow(ar, len(menu))
		if i >= n {
			i -= n
			continue
		}
		a := make([]string, ar)
		for p := ar - 1; p >= 0; p-- {
			a[p] = menu[i%len(menu)]
			i /= len(menu)
		}
		return a
	}
	return nil
}

// c08Model: the part of s before its first CR or LF (written from the statement).
func c08FirstLine(s string) string {
	if i := strings.IndexAny(s, "\r\n"); i >= 0 {
		return s[:i]
	}
	return s
}

// c08Judge applies the oracle to the bytes one call put on the wire.
// It returns the number of complete lines, and a non-empty oracle id + message on a violation.
func c08Judge(m *c08Method, args []string, wrote string) (nlines int, oracle, msg string) {
	if wrote == "" {
		return 0, "", ""
	}
	if !strings.HasSuffix(wrote, "\r\n") {
		return strings.Count(wrote, "\r\n"), "unterminated-line", fmt.Sprintf("the bytes written do not end in CRLF: %s", Q(c08Clip(wrote)))
	}
	lines := strings.Split(wrote[:len(wrote)-2], "\r\n")
	for _, l := range lines {
		if strings.ContainsAny(l, "\r\n") {
			return len(lines), "stray-newline", fmt.Sprintf("a CR or LF inside a line: %s (all bytes written: %s)", Q(c08Clip(l)), Q(c08Clip(wrote)))
		}
	}
	for _, l := range lines {
		if m.Verb == "" {
			if want := c08FirstLine(args[0]); l != want {
				return len(lines), "raw-mismatch", fmt.Sprintf("Raw wrote %s, want the argument up to its first CR/LF %s", Q(c08Clip(l)), Q(c08Clip(want)))
			}
			continue
		}
		if l != m.Verb && !strings.HasPrefix(l, m.Verb+" ") {
			return len(lines), "wrong-verb", fmt.Sprintf("line %s does not begin with the verb %s", Q(c08Clip(l)), m.Verb)
		}
	}
	return len(lines), "", ""
}

func c08Clip(s string) string {
	if len(s) > 160 {
		return s[:70] + fmt.Sprintf("…[%d bytes]…", len(s)-140) + s[len(s)-70:]
	}
	return s
}

func c08ClipArgs(a []string) string {
	q := make([]string, len(a))
	for i, s := range a {
		if n := len(s) - len(strings.TrimLeft(s, "a")); n >= 600 {
			q[i] = fmt.Sprintf("%d*\"a\"+%s", n, Q(s[n:]))
			continue
		}
		q[i] = Q(s)
	}
	return "(" + strings.Join(q, ", ") + ")"
}

type c08Unit struct {
	M        *c08Method
	SplitLen int
	HasSL    bool // SplitLen is set in the config (splitting methods only)
	From, To int  // argument-tuple indices
	Menu     []string
}

func (u c08Unit) name() string {
	sl := "default"
	if u.HasSL {
		sl = fmt.Sprint(u.SplitLen)
	}
	return fmt.Sprintf("calls/%s/splitlen=%s/menu=%d/%06d-%06d", u.M.Name, sl, len(u.Menu), u.From, u.To)
}

// c08RunCalls makes the calls [from,to) of unit u in one session, stopping
// early when the execution does not end normally; it returns the bytes each
// completed call wrote, and the outcome.
func c08RunCalls(u c08Unit, from, to int) (wrote []string, o *vx.Outcome, connErr error) {
	o = RunSeq(vx.Options{MaxSteps: 8000000}, func(env *vx.Env) {
		s, err := StartSession(env, "me", func(cfg *client.Config) {
			if u.HasSL {
				cfg.SplitLen = u.SplitLen
			}
		}, nil)
		if err != nil {
			connErr = err
			return
		}
		for i := from; i < to; i++ {
			a := u.M.args(i, u.Menu)
			n0 := len(s.VC.Writes)
			u.M.Call(s.C, a)
			vx.Quiesce()
			var b string
			if ws := s.VC.Writes[n0:]; len(ws) == 1 {
				b = ws[0].Data
			} else if len(ws) > 1 {
				var sb strings.Builder
				for _, w := range ws {
					sb.WriteString(w.Data)
				}
				b = sb.String()
			}
			wrote = append(wrote, b)
		}
		s.End()
	})
	return
}

const c08Batch = 400

func c08Job(u c08Unit, cost int) Job {
	name := u.name()
	return Job{Name: name, Cost: cost, Run: func(jc *JobCtx) *JobResult {
		e := NewEnum(name)
		hist := map[int]int{}
		params := map[string]interface{}{"method": u.M.Name, "splitlen": u.SplitLen, "splitlen_set": u.HasSL}
		slTxt := "default SplitLen"
		if u.HasSL {
			slTxt = fmt.Sprintf("SplitLen=%d", u.SplitLen)
		}
		sampled := false
		i := u.From
		for i < u.To {
			if e.TooMany() || jc.Expired() {
				e.Incomplete(fmt.Sprintf("stopped at tuple %d of [%d,%d)", i, u.From, u.To))
				break
			}
			to := i + c08Batch
			if to > u.To {
				to = u.To
			}
			wrote, o, cerr := c08RunCalls(u, i, to)
			if cerr != nil {
				e.R.Error = "connect failed in harness: " + cerr.Error()
				break
			}
			for k, b := range wrote {
				a := u.M.args(i+k, u.Menu)
				n, oracle, msg := c08Judge(u.M, a, b)
				hist[n]++
				key := ""
				if n > 0 || b != "" {
					key = fmt.Sprintf("%s|%v|%d|%d", u.M.Name, u.HasSL, u.SplitLen, i+k)
				}
				e.Case(key)
				if oracle != "" {
					e.Fail("command-bytes", oracle, fmt.Sprintf("%s%s with %s", u.M.Name, c08ClipArgs(a), slTxt), msg,
						c08Params(params, a))
				}
				if !sampled && n > 1 {
					sampled = true
					e.Sample(map[string]interface{}{"call": u.M.Name + c08ClipArgs(a), "splitlen": slTxt, "lines": n, "first_line": c08Clip(strings.SplitN(b, "\r\n", 2)[0])})
				}
			}
			i += len(wrote)
			if o.Kind != "ok" {
				// the call in progress did not complete: report it and go on after it
				if i < to {
					a := u.M.args(i, u.Menu)
					e.Case(fmt.Sprintf("%s|%v|%d|%d", u.M.Name, u.HasSL, u.SplitLen, i))
					msg := "execution ended with " + o.Kind
					if o.Crash != nil {
						msg = "panic: " + o.Crash.Value + " @ " + o.Crash.Top
					} else if o.Kind == "deadlock" {
						msg += "; blocked: " + o.BlockedSig()
					}
					e.Fail("command-bytes", o.Kind, fmt.Sprintf("%s%s with %s", u.M.Name, c08ClipArgs(a), slTxt), msg, c08Params(params, a))
					i++
				} else {
					// every call completed; the teardown misbehaved, which is not this property's business
					e.R.Notes = append(e.R.Notes, "session teardown ended with "+o.Kind)
				}
			}
		}
		if !sampled && u.To > u.From {
			a := u.M.args(u.From, u.Menu)
			e.Sample(map[string]interface{}{"call": u.M.Name + c08ClipArgs(a), "splitlen": slTxt})
		}
		var ks []int
		for k := range hist {
			ks = append(ks, k)
		}
		sort.Ints(ks)
		var sb strings.Builder
		sb.WriteString("lines per call (lines:calls)")
		for _, k := range ks {
			fmt.Fprintf(&sb, " %d:%d", k, hist[k])
		}
		e.R.Notes = append(e.R.Notes, sb.String())
		return e.Done()
	}}
}

func c08Params(base map[string]interface{}, args []string) map[string]interface{} {
	p := map[string]interface{}{}
	for k, v := range base {
		p[k] = v
	}
	p["args"] = args
	return p
}

// c08PairArgs: the arguments the pairs job calls a method with.
func c08PairArgs(m *c08Method) []string {
	n := m.Arities[len(m.Arities)-1]
	a := make([]string, n)
	for i := range a {
		a[i] = "t"
	}
	if n > 1 {
		a[n-1] = "x y\nQUIT :z"
	}
	return a
}

func c08ReplayPair(v *Violation, firstName string) int {
	first := c08FindMethod(firstName)
	secondName, _ := v.Params["second"].(string)
	second := c08FindMethod(secondName)
	if first == nil {
		fmt.Println("unknown method in replay file")
		return 2
	}
	sl := 0
	if f, ok := v.Params["splitlen"].(float64); ok {
		sl = int(f)
	}
	var wrote string
	o := RunSeq(vx.Options{}, func(env *vx.Env) {
		s, err := StartSession(env, "me", func(cfg *client.Config) { cfg.SplitLen = sl }, nil)
		if err != nil {
			return
		}
		first.Call(s.C, c08PairArgs(first))
		vx.Quiesce()
		n0 := len(s.VC.Transcript())
		if second != nil {
			second.Call(s.C, c08PairArgs(second))
			vx.Quiesce()
		}
		wrote = s.VC.Transcript()[n0:]
		s.End()
	})
	fmt.Printf("calls: %s%s then %s, SplitLen=%d\noutcome: %s\nbytes written by the second call: %s\n", first.Name, c08ClipArgs(c08PairArgs(first)), secondName, sl, o.Kind, Q(wrote))
	if o.Kind != "ok" && o.Kind == v.Oracle {
		fmt.Println("REPRODUCED")
		return 1
	}
	if second != nil {
		if _, oracle, msg := c08Judge(second, c08PairArgs(second), wrote); oracle != "" {
			fmt.Printf("FINDING oracle=%s %s\n", oracle, msg)
			if oracle == v.Oracle {
				fmt.Println("REPRODUCED")
				return 1
			}
		}
	}
	fmt.Println("NOT REPRODUCED")
	return 0
}

// c08PairsJob: every ordered pair of command methods called one after the other on one connection with the
// same target and text (what one call leaves behind must not leak into the next): the second call's lines are
// judged like any other call's.
func c08PairsJob(first *c08Method) Job {
	name := "pairs/after-" + first.Name
	return Job{Name: name, Cost: 5, Run: func(jc *JobCtx) *JobResult {
		e := NewEnum(name)
		mk := c08PairArgs
		type res struct {
			m     *c08Method
			wrote string
		}
		for _, sl := range []int{0, 20} {
			var out []res
			var connErr error
			o := RunSeq(vx.Options{MaxSteps: 2000000}, func(env *vx.Env) {
				s, err := StartSession(env, "me", func(cfg *client.Config) { cfg.SplitLen = sl }, nil)
				if err != nil {
					connErr = err
					return
				}
				for i := range c08Methods {
					m2 := &c08Methods[i]
					first.Call(s.C, mk(first))
					vx.Quiesce()
					n0 := len(s.VC.Transcript())
					m2.Call(s.C, mk(m2))
					vx.Quiesce()
					out = append(out, res{m2, s.VC.Transcript()[n0:]})
				}
				s.End()
			})
			if connErr != nil {
				e.R.Error = "connect failed in harness: " + connErr.Error()
				return e.Done()
			}
			if o.Kind != "ok" {
				e.Fail("calls", o.Kind, fmt.Sprintf("%s then every method, SplitLen=%d", first.Name, sl), "session ended with "+o.Kind, map[string]interface{}{"first": first.Name, "splitlen": sl})
			}
			for _, r := range out {
				e.Case(fmt.Sprintf("%d|%s|%s", sl, first.Name, r.m.Name))
				if _, oracle, msg := c08Judge(r.m, mk(r.m), r.wrote); oracle != "" {
					e.Fail("calls", oracle, fmt.Sprintf("%s(...) then %s(%s), SplitLen=%d", first.Name, r.m.Name, c08ClipArgs(mk(r.m)), sl), msg, map[string]interface{}{"first": first.Name, "second": r.m.Name, "splitlen": sl})
				}
			}
		}
		return e.Done()
	}}
}

// c08EarlyMenu: the argument strings for calls made while the client is not connected.
var c08EarlyMenu = []string{"a", "x\r\nQUIT :bye", "\nQUIT", "a%"}

// c08RunEarly: one execution of the early-call scenario; it returns the lines of the connection made after the call.
func c08RunEarly(m *c08Method, a []string, phase string) (wire []string, o *vx.Outcome, cerr error) {
	o = RunSeq(vx.Options{MaxSteps: 2000000}, func(env *vx.Env) {
		call := func(c *client.Conn) {
			vx.Go("early-caller", func() { m.Call(c, a) })
			vx.Quiesce()
		}
		var s *Sess
		if phase == "before-first-connect" {
			s, cerr = StartSession(env, "me", nil, call)
			if cerr != nil {
				return
			}
		} else {
			s, cerr = StartSession(env, "me", nil, nil)
			if cerr != nil {
				return
			}
			s.End()
			call(s.C)
			if cerr = s.C.Connect(); cerr != nil {
				return
			}
			vx.Quiesce()
		}
		s.Feed(":irc.example 001 me :Welcome")
		wire = s.Wire()
		s.End()
	})
	return
}

// c08EarlyRest drops the registration lines.
func c08EarlyRest(wire []string) (rest []string) {
	for _, l := range wire {
		if l == "NICK me" || l == "USER ident 12 * :Real Name" {
			continue
		}
		rest = append(rest, l)
	}
	return
}

func c08ReplayEarly(v *Violation, m *c08Method, args []string) int {
	phase, _ := v.Params["phase"].(string)
	wire, o, cerr := c08RunEarly(m, args, phase)
	rest := c08EarlyRest(wire)
	fmt.Printf("call: %s%s made %s\noutcome: %s (connect error: %v)\nlines of the following connection besides NICK and USER: %s\n", m.Name, c08ClipArgs(args), phase, o.Kind, cerr, joinQ(rest))
	if o.Kind != "ok" {
		if o.Crash != nil {
			fmt.Println(o.Crash.Value)
			fmt.Println(o.Crash.Stack)
		}
		if o.Kind == v.Oracle {
			fmt.Println("REPRODUCED")
			return 1
		}
	}
	if len(rest) > 0 {
		if _, oracle, msg := c08Judge(m, args, strings.Join(rest, "\r\n")+"\r\n"); oracle != "" {
			fmt.Printf("FINDING oracle=%s %s\n", oracle, msg)
			if oracle == v.Oracle {
				fmt.Println("REPRODUCED")
				return 1
			}
		}
	}
	fmt.Println("NOT REPRODUCED")
	return 0
}

// c08EarlyJob calls method m with every tuple over c08EarlyMenu from a task of
// its own (a) before the first Connect and (b) between a disconnect and the
// next Connect, then connects and judges every line of that connection that is
// not one of the registration lines: whatever the library does with a command
// issued while there is no connection (block, drop, send later), a line that
// reaches the server must satisfy the same oracle as a line sent while connected.
func c08EarlyJob(m *c08Method) Job {
	name := "early/" + m.Name
	return Job{Name: name, Cost: m.total(c08EarlyMenu) / 4, Run: func(jc *JobCtx) *JobResult {
		e := NewEnum(name)
		total := m.total(c08EarlyMenu)
		sampled := false
		for i := 0; i < total; i++ {
			for _, phase := range []string{"before-first-connect", "between-connects"} {
				if e.TooMany() || jc.Expired() {
					e.Incomplete(fmt.Sprintf("stopped at tuple %d of %d", i, total))
					break
				}
				a := m.args(i, c08EarlyMenu)
				wire, o, cerr := c08RunEarly(m, a, phase)
				params := c08Params(map[string]interface{}{"method": m.Name, "phase": phase, "early": true}, a)
				in := fmt.Sprintf("%s%s %s", m.Name, c08ClipArgs(a), phase)
				e.Case(fmt.Sprintf("%s|%s|%d", m.Name, phase, i))
				if cerr != nil {
					e.R.Error = "connect failed in harness: " + cerr.Error()
					return e.Done()
				}
				if o.Kind != "ok" {
					msg := "execution ended with " + o.Kind
					if o.Crash != nil {
						msg = "panic: " + o.Crash.Value + " @ " + o.Crash.Top
					} else if o.Kind == "deadlock" {
						msg += "; blocked: " + o.BlockedSig()
					}
					e.Fail("early-calls", o.Kind, in, msg, params)
					continue
				}
				rest := c08EarlyRest(wire)
				if len(rest) > 0 {
					if _, oracle, msg := c08Judge(m, a, strings.Join(rest, "\r\n")+"\r\n"); oracle != "" {
						e.Fail("early-calls", oracle, in, msg+" (the call was made "+phase+"; lines of the connection besides NICK and USER: "+joinQ(rest)+")", params)
					}
				}
				if !sampled {
					sampled = true
					e.Sample(map[string]interface{}{"call": m.Name + c08ClipArgs(a), "phase": phase, "lines_besides_registration": len(rest)})
				}
			}
		}
		return e.Done()
	}}
}

func c08Jobs(tier string) []Job {
	sls := []int{-1, 0, 12, 13, 20, 450}
	if tier == "thorough" {
		// more SplitLen values around the lengths of the long menu strings (600, 605) and the CTCP joins
		sls = append(sls, 1, 14, 100, 599, 600, 601, 605, 1000, 5000)
	}
	menu := c08Menu
	chunk := 3000
	if tier == "thorough" {
		menu = c08MenuX
		chunk = 8000
	}
	var jobs []Job
	for mi := range c08Methods {
		jobs = append(jobs, c08PairsJob(&c08Methods[mi]))
	}
	for mi := range c08Methods {
		jobs = append(jobs, c08EarlyJob(&c08Methods[mi]))
	}
	for mi := range c08Methods {
		m := &c08Methods[mi]
		type cfg struct {
			sl  int
			has bool
		}
		cfgs := []cfg{{0, false}}
		if m.Split {
			cfgs = nil
			for _, sl := range sls {
				cfgs = append(cfgs, cfg{sl, true})
			}
		}
		total := m.total(menu)
		for _, c := range cfgs {
			for from := 0; from < total; from += chunk {
				to := from + chunk
				if to > total {
					to = total
				}
				cost := to - from
				if c.has && c.sl >= 13 && c.sl <= 100 {
					cost *= 12 // the long menu strings become dozens of lines
				}
				jobs = append(jobs, c08Job(c08Unit{M: m, SplitLen: c.sl, HasSL: c.has, From: from, To: to, Menu: menu}, cost))
			}
		}
	}
	return jobs
}

func init() {
	Register(&Prop{
		ID: "C08",
		Rule: "every exported command method of *client.Conn (28; Privmsgf both with format \"%s\" + menu string and with the menu string as the format) x every tuple of the 15 menu strings (thorough: 21) " +
			"(empty, plain, CR, LF, CRLF, embedded CR/LF followed by a second command, NUL, \\x01, 600 bytes, 600 bytes + LF + command, a trailing %) in all argument positions (variadic methods with 0, 1 and 2 extra arguments; full product, up to 4 positions for Kick/Ctcp/CtcpReply) " +
			"x Config.SplitLen in {-1,0,12,13,20,450} (thorough: 15 values) for the splitting methods; one evaluation = one call on a connected client, judged on the raw bytes that reached the server end of the socket before the next quiescence; plus every ordered pair of methods called one after the other on one connection with the same target (SplitLen default and 20), the second call judged; plus every method with every tuple over 4 strings called from a task of its own before the first Connect and between a disconnect and the next Connect, every line of the following connection besides NICK and USER judged; " +
			"distinct = distinct (method, SplitLen, argument tuple) whose call wrote at least one byte (a call that writes nothing is trivial)",
		Assumptions: []string{
			"calls are made one at a time from a single task on a registered, idle connection (no server traffic, PingFreq=0), so the bytes between two quiescent points belong to one call",
			"flood control is off (Config.Flood=true); the rate limiter only delays lines and is not exercised here",
			"the number of lines a call writes is recorded, not judged",
			"a call made while no connection exists may block, be dropped or be sent on the next connection (the statement does not say); only lines that reach a server are judged",
		},
		Jobs: c08Jobs,
	})
	prev := replayInput
	replayInput = func(v *Violation) int {
		if v.Property != "C08" {
			if prev != nil {
				return prev(v)
			}
			fmt.Println("violation has no schedule; input:", v.Input)
			return 0
		}
		return c08Replay(v)
	}
}

// c08Replay re-executes the single call recorded in a violation file.
func c08Replay(v *Violation) int {
	if f, ok := v.Params["first"].(string); ok {
		return c08ReplayPair(v, f)
	}
	name, _ := v.Params["method"].(string)
	m := c08FindMethod(name)
	if m == nil {
		fmt.Println("unknown method in replay file:", name)
		return 2
	}
	var args []string
	if raw, ok := v.Params["args"].([]interface{}); ok {
		for _, x := range raw {
			s, _ := x.(string)
			args = append(args, s)
		}
	}
	if early, _ := v.Params["early"].(bool); early {
		return c08ReplayEarly(v, m, args)
	}
	sl := 0
	if f, ok := v.Params["splitlen"].(float64); ok {
		sl = int(f)
	}
	has, _ := v.Params["splitlen_set"].(bool)
	var wrote string
	o := RunSeq(vx.Options{}, func(env *vx.Env) {
		s, err := StartSession(env, "me", func(cfg *client.Config) {
			if has {
				cfg.SplitLen = sl
			}
		}, nil)
		if err != nil {
			return
		}
		n0 := len(s.VC.Writes)
		m.Call(s.C, args)
		vx.Quiesce()
		for _, w := range s.VC.Writes[n0:] {
			wrote += w.Data
		}
		s.End()
	})
	fmt.Printf("call: %s%s splitlen_set=%v splitlen=%d\noutcome: %s\nbytes written: %s\n", m.Name, c08ClipArgs(args), has, sl, o.Kind, Q(wrote))
	if o.Kind != "ok" {
		if o.Crash != nil {
			fmt.Println(o.Crash.Value)
			fmt.Println(o.Crash.Stack)
		}
		if o.Kind == v.Oracle {
			fmt.Println("REPRODUCED")
			return 1
		}
	}
	_, oracle, msg := c08Judge(m, args, wrote)
	if oracle != "" {
		fmt.Printf("FINDING oracle=%s %s\n", oracle, msg)
		if oracle == v.Oracle {
			fmt.Println("REPRODUCED")
			return 1
		}
	}
	fmt.Println("NOT REPRODUCED")
	return 0
}
