package harness

import (
	"encoding/json"
	"fmt"
	"os"
	"sort"
	"time"

	"verif/explore"
	"verif/vx"
)

// A Job is one unit of work of a property check (a scenario explored at the
// tier's budgets, or a chunk of an enumeration). Jobs are independent and are
// distributed over worker processes by the runner.
type Job struct {
	Name string
	Cost int // relative cost hint (bigger runs first)
	Run  func(jc *JobCtx) *JobResult
	// Scenario lookup for replays (explore-type jobs)
	Scenario *explore.Scenario
	// FindScenario is used instead when one job explores many scenarios.
	FindScenario func(name string) *explore.Scenario
}

type JobCtx struct {
	Tier     string
	Deadline time.Time
	Seed     int64
}

func (jc *JobCtx) Expired() bool { return !jc.Deadline.IsZero() && time.Now().After(jc.Deadline) }

// Violation as reported by a job (explore- or enumeration-type).
type Violation struct {
	Property string                 `json:"property"`
	Family   string                 `json:"family"`
	Scenario string                 `json:"scenario"`
	Params   map[string]interface{} `json:"params"`
	Oracle   string                 `json:"oracle"`
	Msg      string                 `json:"message"`
	Detail   string                 `json:"detail,omitempty"`
	Input    string                 `json:"input,omitempty"` // enumeration-type: the failing input / history
	Devs     int                    `json:"deviations"`
	Sched    *explore.Violation     `json:"schedule,omitempty"`
	Job      string                 `json:"job"`
	Tier     string                 `json:"tier"`
}

type JobResult struct {
	Job         string            `json:"job"`
	Kind        string            `json:"kind"`
	Evaluations int64             `json:"evaluations"`
	States      int64             `json:"states"`
	Transitions int64             `json:"transitions"`
	Traces      int64             `json:"traces"`
	Distinct    []string          `json:"distinct,omitempty"` // hashes of distinct non-trivial cases (capped)
	DistinctN   int64             `json:"distinct_n"`         // number counted by the job itself
	Samples     []json.RawMessage `json:"samples,omitempty"`
	Violations  []Violation       `json:"violations,omitempty"`
	Exhaustive  bool              `json:"exhaustive"`
	CapsHit     []string          `json:"caps_hit,omitempty"`
	Bounds      []string          `json:"bounds,omitempty"`
	Vacuous     bool              `json:"vacuous,omitempty"`
	Nondet      int               `json:"nondeterminism,omitempty"`
	Notes       []string          `json:"notes,omitempty"`
	WallS       float64           `json:"wall_s"`
	Error       string            `json:"error,omitempty"`
	MaxEnabled  int               `json:"max_enabled,omitempty"`
	CacheAgree  string            `json:"cache_on_off,omitempty"`
}

func (r *JobResult) AddSample(v interface{}) {
	if len(r.Samples) >= 3 {
		return
	}
	b, err := json.Marshal(v)
	if err == nil {
		r.Samples = append(r.Samples, b)
	}
}

// Prop is one property's check.
type Prop struct {
	ID   string
	Jobs func(tier string) []Job
	// Rule describes how cases are enumerated and what counts as distinct / non-trivial.
	Rule        string
	Assumptions []string
}

var registry = map[string]*Prop{}

func Register(p *Prop) { registry[p.ID] = p }

func PropIDs() []string {
	var ids []string
	for id := range registry {
		ids = append(ids, id)
	}
	sort.Strings(ids)
	return ids
}

// ---------------------------------------------------------------- explore-type job helper

type ExploreSpec struct {
	Sc       *explore.Scenario
	Variants []int
	Budgets  []explore.Budget // iterated in order; each completed budget is recorded
	Cache    bool
	CrossChk *explore.Budget // budget at which cache-off is compared with cache-on (variant 1)
	MaxExecs int64
	Shallow  []int // variants that skip the last (deepest) budget
}

// ExploreJob wraps a scenario exploration as a Job.
func ExploreJob(prop string, spec ExploreSpec, cost int) Job {
	sc := spec.Sc
	return Job{Name: sc.Name, Cost: cost, Scenario: sc, Run: func(jc *JobCtx) *JobResult {
		start := time.Now()
		r := &JobResult{Job: sc.Name, Kind: "explore", Exhaustive: true}
		distinct := map[string]bool{}
		seenSig := map[string]bool{}
		for _, v := range spec.Variants {
			budgets := spec.Budgets
			for _, sv := range spec.Shallow {
				if sv == v && len(budgets) > 1 {
					budgets = budgets[:len(budgets)-1]
				}
			}
			for _, b := range budgets {
				if jc.Expired() {
					r.Exhaustive = false
					r.CapsHit = append(r.CapsHit, "deadline before "+fmt.Sprintf("V%d %s", v, b))
					continue
				}
				det := 3
				if x := os.Getenv("VERIF_DETCHECK"); x != "" {
					fmt.Sscan(x, &det)
				}
				res := explore.Explore(sc, v, b, explore.Config{Cache: spec.Cache, DetCheck: det, Deadline: jc.Deadline, MaxExecs: spec.MaxExecs})
				r.Evaluations += res.Executions
				r.Traces += res.Complete
				r.Transitions += res.Steps
				r.States += res.States
				if !spec.Cache {
					r.States += res.ChoicePoints
				}
				r.Nondet += res.Nondet
				if res.MaxEnabled > r.MaxEnabled {
					r.MaxEnabled = res.MaxEnabled
				}
				for h := range res.Outcomes {
					distinct[h] = true
				}
				if res.Exhaustive {
					r.Bounds = append(r.Bounds, fmt.Sprintf("V%d:%s:%d execs", v, b, res.Executions))
				} else {
					r.Exhaustive = false
					for _, c := range res.CapsHit {
						r.CapsHit = append(r.CapsHit, fmt.Sprintf("V%d %s: %s", v, b, c))
					}
					if res.Nondet > 0 {
						r.CapsHit = append(r.CapsHit, fmt.Sprintf("V%d %s: %d nondeterministic replays", v, b, res.Nondet))
					}
					if res.StepCaps > 0 {
						r.CapsHit = append(r.CapsHit, fmt.Sprintf("V%d %s: %d executions hit the step cap", v, b, res.StepCaps))
					}
				}
				if len(r.Samples) == 0 && len(res.Sample) > 0 {
					r.AddSample(map[string]interface{}{"scenario": sc.Name, "variant": v, "budget": b.String(), "observations": res.Sample})
				}
				for i := range res.Violations {
					ev := res.Violations[i]
					if seenSig[ev.Oracle] {
						continue
					}
					seenSig[ev.Oracle] = true
					r.Violations = append(r.Violations, Violation{Property: prop, Family: sc.Family, Scenario: sc.Name, Params: sc.Params,
						Oracle: ev.Oracle, Msg: ev.Msg, Detail: ev.Detail, Devs: ev.Devs, Sched: &ev, Job: sc.Name, Tier: jc.Tier})
				}
			}
		}
		if spec.CrossChk != nil && !jc.Expired() {
			on := explore.Explore(sc, 1, *spec.CrossChk, explore.Config{Cache: true, Deadline: jc.Deadline})
			off := explore.Explore(sc, 1, *spec.CrossChk, explore.Config{Cache: false, Deadline: jc.Deadline})
			agree := on.Exhaustive && off.Exhaustive && sameKeys(on.Outcomes, off.Outcomes) && (len(on.Violations) > 0) == (len(off.Violations) > 0)
			r.CacheAgree = fmt.Sprintf("%s: cache-on %d execs / cache-off %d execs, outcome sets equal=%v (%d outcomes)", *spec.CrossChk, on.Executions, off.Executions, agree, len(off.Outcomes))
			r.Evaluations += on.Executions + off.Executions
			r.Transitions += on.Steps + off.Steps
			if on.Exhaustive && off.Exhaustive && !agree {
				r.Exhaustive = false
				r.CapsHit = append(r.CapsHit, "cache-on and cache-off disagree: "+r.CacheAgree)
			}
		}
		for h := range distinct {
			if len(r.Distinct) < 4000 {
				r.Distinct = append(r.Distinct, sc.Name+"#"+h)
			}
		}
		r.DistinctN = int64(len(distinct))
		if len(distinct) <= 1 || r.MaxEnabled <= 1 {
			r.Vacuous = true
		}
		r.WallS = time.Since(start).Seconds()
		return r
	}}
}

func sameKeys(a, b map[string]int) bool {
	if len(a) != len(b) {
		return false
	}
	for k := range a {
		if _, ok := b[k]; !ok {
			return false
		}
	}
	return true
}

// stdCheck converts runtime outcomes every harness treats alike.
func stdOutcome(o *vx.Outcome) []explore.Finding {
	switch o.Kind {
	case "crash":
		return []explore.Finding{{Oracle: "crash", Msg: o.Crash.Task + ": panic: " + o.Crash.Value + " @ " + o.Crash.Top}}
	case "deadlock":
		return []explore.Finding{{Oracle: "deadlock", Msg: "harness did not finish; blocked: " + o.BlockedSig()}}
	}
	return nil
}
