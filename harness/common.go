// Package harness contains the closed harnesses (scenario families), oracles
// and reference models for the 20 properties. It is compiled against the
// *instrumented* copy of goirc.
package harness

import (
	"context"
	"crypto/tls"
	"fmt"
	"net"
	"net/url"
	"strings"
	"time"

	"github.com/fluffle/goirc/client"
	"github.com/fluffle/goirc/logging"
	"golang.org/x/net/proxy"

	"verif/vx"
)

type vdialer struct{}

func (vdialer) Dial(network, addr string) (net.Conn, error) { return vx.Dial(addr) }
func (vdialer) DialContext(ctx context.Context, network, addr string) (net.Conn, error) {
	return vx.Dial(addr)
}

// FailingTLS is a TLS client configuration whose handshake bytes are the same in every run (constant
// "randomness", fixed clock), for scenarios in which the handshake fails.
func FailingTLS() *tls.Config {
	return &tls.Config{InsecureSkipVerify: true, Rand: zeroReader{}, Time: func() time.Time { return time.Unix(1700000000, 0) }}
}

type zeroReader struct{}

func (zeroReader) Read(p []byte) (int, error) {
	for i := range p {
		p[i] = 0
	}
	return len(p), nil
}

type capLogger struct{}

// Like a real logger the capturing logger formats the record when it is handed over (the String methods of the
// arguments run then, in the caller's goroutine, with whatever locks the caller still holds or no longer holds);
// format and arguments are kept as well.
func (capLogger) Debug(f string, a ...interface{}) {
	_ = fmt.Sprintf(f, a...)
	vx.CaptureLog("debug", f, a)
}
func (capLogger) Info(f string, a ...interface{}) {
	_ = fmt.Sprintf(f, a...)
	vx.CaptureLog("info", f, a)
}
func (capLogger) Warn(f string, a ...interface{}) {
	_ = fmt.Sprintf(f, a...)
	vx.CaptureLog("warn", f, a)
}
func (capLogger) Error(f string, a ...interface{}) {
	_ = fmt.Sprintf(f, a...)
	vx.CaptureLog("error", f, a)
}

func init() {
	proxy.RegisterDialerType("verif", func(u *url.URL, fwd proxy.Dialer) (proxy.Dialer, error) {
		return vdialer{}, nil
	})
	logging.SetLogger(capLogger{})
}

// NewClient builds a client wired to the in-memory dialler. Defaults: no
// client pings, flood control off (Flood=true), server "irc.example:6667".
func NewClient(nick string, mod func(cfg *client.Config)) *client.Conn {
	cfg := client.NewConfig(nick, "ident", "Real Name")
	cfg.Proxy = "verif://proxy"
	cfg.Server = "irc.example:6667"
	cfg.PingFreq = 0
	cfg.Flood = true
	if mod != nil {
		mod(cfg)
	}
	return client.Client(cfg)
}

// Privmsgs builds n numbered PRIVMSG lines as one CRLF-joined block.
func Privmsgs(from, n int) string {
	var sb strings.Builder
	for i := 0; i < n; i++ {
		fmt.Fprintf(&sb, ":o!u@h PRIVMSG #c :m%d\r\n", from+i)
	}
	return sb.String()
}

// ClientLeaks lists client-spawned tasks still alive at the end of an execution.
func ClientLeaks(o *vx.Outcome) []string {
	var r []string
	for _, b := range o.Blocked {
		if b.Client && !b.ByDesign {
			r = append(r, b.String())
		}
	}
	return r
}

func count(recs []string, prefix string) int {
	n := 0
	for _, r := range recs {
		if strings.HasPrefix(r, prefix) {
			n++
		}
	}
	return n
}

// NormLine canonicalises an outgoing line where the protocol leaves the client a choice of spelling that no
// property fixes: a one-word trailing parameter may be sent with or without the colon (PONG tok / PONG :tok),
// the two middle parameters of USER are arbitrary (mode / unused), CAP LS may carry a version.
func NormLine(l string) string {
	f := strings.SplitN(l, " ", 2)
	switch f[0] {
	case "PONG", "PING":
		if len(f) == 2 && !strings.HasPrefix(f[1], ":") && !strings.Contains(f[1], " ") && f[1] != "" {
			return f[0] + " :" + f[1]
		}
	case "USER":
		if i := strings.Index(l, " :"); i >= 0 {
			mid := strings.Fields(l[:i])
			if len(mid) == 4 {
				return "USER " + mid[1] + " * * " + l[i+1:]
			}
		}
	case "CAP":
		if l == "CAP LS" || strings.HasPrefix(l, "CAP LS ") {
			return "CAP LS"
		}
	}
	return l
}

// HasLine reports whether the (normalised) line is among the lines.
func HasLine(lines []string, want string) bool {
	w := NormLine(want)
	for _, l := range lines {
		if NormLine(l) == w {
			return true
		}
	}
	return false
}
