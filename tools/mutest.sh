#!/bin/bash
# usage: tools/mutest.sh <patch-file> <prop>...
# Applies the patch to a scratch copy of /repo (never to /repo itself), runs the repository's own tests there,
# then the given checks against the copy (VERIF_REPO), and removes the copy.
set -u
export GOFLAGS=-mod=mod GOPROXY=off GOSUMDB=off GOTOOLCHAIN=local
patch=$(readlink -f "$1"); shift
scratch=/root/scratch-mut/$$
rm -rf "$scratch"; mkdir -p "$scratch"
trap 'rm -rf "$scratch"' EXIT
git -C /repo archive HEAD | tar -x -C "$scratch"
(cd /repo && git diff HEAD) | (cd "$scratch" && patch -p1 -s 2>/dev/null) || true
cd "$scratch"
if ! patch -p1 -s --dry-run < "$patch" >/dev/null 2>&1; then echo "PATCH DOES NOT APPLY: $patch"; exit 2; fi
patch -p1 -s < "$patch"
if go build ./... 2>/dev/null; then echo "builds: yes"; else echo "builds: NO"; fi
ok=0; for i in 1 2 3; do if go test -vet=off -count=1 ./... >"$scratch/.test.log" 2>&1; then ok=1; break; fi; done
if [ $ok = 1 ]; then echo "repo tests: pass"; else echo "repo tests: FAIL"; grep -E "^(---|FAIL)" "$scratch/.test.log" | head -5; fi
rm -f "$scratch/.test.log"
cd /verif
for p in "$@"; do
  ev=$(mktemp -d)
  out=$(VERIF_REPO="$scratch" VERIF_EVIDENCE_DIR="$ev" VERIF_REPLAY_DIR="$ev" VERIF_BUDGET_S=${VERIF_BUDGET_S:-200} ./bin/verif check "$p" 2>&1); rc=$?
  echo "check $p: exit=$rc $(echo "$out" | grep -c '^VIOLATION') violation line(s)"
  echo "$out" | grep -A2 '^VIOLATION' | cut -c1-260 | head -${MUTEST_LINES:-9}
  rm -rf "$ev"
done
