#!/usr/bin/env python3
"""Regenerates /verif/MANIFEST.json from the table below (keeps it valid at all times)."""
import json
props=[json.loads(l) for l in open('/verif/properties.jsonl')]
ids=[p['id'] for p in props]
# id -> (technique, level text, level note, design ref)
SCHED="stateless model checking of the real client under a controlled cooperative scheduler: exhaustive DFS over schedules/select choices/read cuts within deviation bounds (3 default-scheduler variants) with a happens-before state cache"
claimed={
 'C03': (SCHED, "Every execution of the listed closed harnesses (3-4 line sessions, several handlers per verb, racing disconnects, all byte-stream partitions via read-cut deviations) within K<=2 scheduling and E<=2 environment deviations of three default schedulers is executed on the real, instrumented client and judged by an order/non-overlap oracle on the enter/exit log. Right level: the property quantifies over schedules and stream partitions, which only systematic enumeration can cover.", "Interleavings at sync/channel/socket/timer granularity; instrumenter + vx shims faithful to Go semantics (DESIGN.md 3.8, App. A); bounds as reported in the evidence.", "DESIGN.md 4 C03"),
 'C06': (SCHED, "Every execution within the deviation budgets of ~160 lifecycle scenarios (each disconnect cause and every pair, configurations, concurrent re-Connect, refused connects, no-op closes) is run on the real client; oracles count REGISTER/DISCONNECTED per connection and compare Connected() samples taken inside handlers against the log position of the first cause. Genuine defect D9 is listed in known_findings.json.", "Same trusted base as C03; cause-begin records are conservative (logged no later than the real beginning of the disconnect).", "DESIGN.md 4 C06"),
}
NOTYET="check not built yet (work in progress; see DESIGN.md section 4)"
m={"version":1,
 "setup_cmd":"./setup.sh",
 "hooks":{"guard":"verif","enable":"no hook commits exist: each check copies /repo's working tree to a scratch directory, rewrites go statements, channel operations, select, sync/time/context/atomic uses of packages client and state to the verif/vx runtime (engine/vinstr, go/ast+go/types) and builds it with -tags verif","baseline_off_cmd":"cd /repo && go test -vet=off -count=1 ./...","source_commits":[],"add_only":True},
 "engines":[
  {"name":"vx+explore","path":"vx/, explore/, engine/vinstr/","serves_properties":sorted(claimed),"kind_free_text":"hand-written stateless model checker for Go: AST instrumenter + cooperative scheduler with virtual time and in-memory socket + deviation-bounded DFS with happens-before state cache; explicit-state BFS/flat enumeration against Go reference models for sequential properties"}],
 "checks":[],
 "notes":"bin/verif check <ID> [--tier quick|thorough] rebuilds the instrumented worker from /repo's current working tree (cached by content hash under .build/), distributes the property's jobs over 16 worker processes, writes evidence/<ID>.json and replays/*.json, prints VIOLATION / KNOWN-FINDING lines. bin/verif replay <file> re-executes one recorded schedule/input with a readable trace.",
 "not_applicable":[]}
for i in ids:
    if i in claimed:
        t,lt,ln,dr=claimed[i]
        m["checks"].append({"property_id":i,"quick_cmd":"./bin/verif check %s --tier quick"%i,"thorough_cmd":"./bin/verif check %s --tier thorough"%i,
          "evidence_file":"/verif/evidence/%s.json"%i,"replay_cmd_template":"./bin/verif replay {path}","engine":"vx+explore",
          "level_claimed":{"category":"model_checking","text":lt,"design_ref":dr},"level_note":ln,"technique":t})
    else:
        m["not_applicable"].append({"property_id":i,"reason":NOTYET})
json.dump(m,open('/verif/MANIFEST.json','w'),indent=1)
print("claimed:",sorted(claimed))
