#!/bin/sh
# Offline setup: build the runner and pre-build the instrumented worker for the current /repo tree
# (warms the Go build cache so that the first check does not pay the cold build).
set -e
cd "$(dirname "$0")"
export GOFLAGS=-mod=mod GOPROXY=off GOSUMDB=off GOTOOLCHAIN=local CGO_ENABLED=0
mkdir -p bin evidence replays
go build -o bin/verif ./cmd/verif
./bin/verif build >/dev/null
echo "setup ok"
