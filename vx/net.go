package vx

import (
	"errors"
	"io"
	"net"
	"strings"
	"time"
)

// Conn is the in-memory socket handed to the client by the harness's dialler.
// The client side is a net.Conn; the server side is scripted by harness tasks.
type Conn struct {
	s    *Sched
	Idx  int
	Addr string
	in   Obj
	out  Obj

	inbound         [][]byte
	eof             bool
	readErr         error
	ReadErrAt       int // the k-th Read call (1-based) fails with ErrInjected
	WriteErrAt      int // the k-th Write call (1-based) fails with ErrInjected
	WritePartialAt  int // the k-th Write call (1-based) takes half of the bytes and fails with a temporary net.Error
	closedLocal     bool
	nReads, nWrites int

	Writes   []WriteRec
	PipeCap  int // >0: Write blocks while more than PipeCap bytes are undrained
	pipeUsed int

	// CutMenu, if set, lists alternative cut offsets (1..n-1) for a read that
	// could return n bytes; each alternative costs an environment deviation.
	CutMenu func(avail []byte) []int

	scanned int // server-side: bytes of transcript already consumed by ReadLine

	// OnFault, if set, is called (inside the failing operation, no scheduling
	// point) when a Read returns EOF or an error, or a Write returns an error,
	// while the socket is not locally closed.
	OnFault func(kind string)
}

type WriteRec struct {
	Data string
	At   time.Duration
	Task string
}

var ErrInjected = errors.New("verif: injected socket error")

// ErrPartial is what a partial write reports: a net.Error that calls itself temporary (as a write that ran into
// a deadline does).
type errPartial struct{}

func (errPartial) Error() string   { return "verif: injected partial write (temporary)" }
func (errPartial) Timeout() bool   { return true }
func (errPartial) Temporary() bool { return true }

var ErrPartial net.Error = errPartial{}
var errClosed = errors.New("use of closed network connection")

type vaddr string

func (a vaddr) Network() string { return "tcp" }
func (a vaddr) String() string  { return string(a) }

// Dial is called by the harness's registered dialler.
func Dial(addr string) (net.Conn, error) {
	s, mode := cur()
	if mode != modeSched {
		return nil, errors.New("verif: dial outside a controlled run")
	}
	e := s.env
	e.dialAddrs = append(e.dialAddrs, addr)
	if len(e.dialFail) > 0 {
		err := e.dialFail[0]
		e.dialFail = e.dialFail[1:]
		if err != nil {
			return nil, err
		}
	}
	c := &Conn{s: s, Idx: len(e.conns), Addr: addr}
	c.in.Label = "sock.in"
	c.out.Label = "sock.out"
	s.initObj(&c.in, "sock.in")
	s.initObj(&c.out, "sock.out")
	e.conns = append(e.conns, c)
	if e.ConnSetup != nil {
		e.ConnSetup(c)
	}
	return c, nil
}

// FailNextDial makes the next dial return err (nil = succeed).
func (e *Env) FailNextDial(err error) { e.dialFail = append(e.dialFail, err) }

func (e *Env) Conns() []*Conn { return e.conns }

// ---- client side (net.Conn)

func (c *Conn) readReady() bool {
	return c.closedLocal || len(c.inbound) > 0 || c.eof || c.readErr != nil || (c.ReadErrAt > 0 && c.nReads+1 == c.ReadErrAt)
}

func (c *Conn) Read(b []byte) (int, error) {
	s, mode := cur()
	if mode != modeSched {
		return 0, errClosed
	}
	s.point(&Op{Kind: "sock.Read", Obj: &c.in, Ready: c.readReady})
	c.nReads++
	if c.closedLocal {
		s.event(0x401, &c.in, true)
		return 0, errClosed
	}
	if c.ReadErrAt > 0 && c.nReads == c.ReadErrAt {
		s.event(0x402, &c.in, true)
		if c.OnFault != nil {
			c.OnFault("read-error")
		}
		return 0, ErrInjected
	}
	if len(c.inbound) == 0 {
		s.event(0x403, &c.in, true)
		if c.readErr != nil {
			if c.OnFault != nil {
				c.OnFault("read-error")
			}
			return 0, c.readErr
		}
		if c.OnFault != nil {
			c.OnFault("eof")
		}
		return 0, io.EOF
	}
	seg := c.inbound[0]
	n := len(seg)
	if n > len(b) {
		n = len(b)
	}
	if c.CutMenu != nil && n > 1 {
		if cuts := c.CutMenu(seg[:n]); len(cuts) > 0 {
			k := s.taskChoose('R', len(cuts)+1, 1)
			if k > 0 {
				n = cuts[k-1]
			}
		}
	}
	copy(b, seg[:n])
	if n == len(seg) {
		c.inbound = c.inbound[1:]
	} else {
		c.inbound[0] = seg[n:]
	}
	s.event(0x404^uint64(n)<<16, &c.in, true)
	return n, nil
}

func (c *Conn) writeReady() bool {
	return c.closedLocal || (c.WriteErrAt > 0 && c.nWrites+1 == c.WriteErrAt) || (c.WritePartialAt > 0 && c.nWrites+1 == c.WritePartialAt) || c.PipeCap == 0 || c.pipeUsed < c.PipeCap
}

func (c *Conn) Write(b []byte) (int, error) {
	s, mode := cur()
	if mode != modeSched {
		return 0, errClosed
	}
	s.point(&Op{Kind: "sock.Write", Obj: &c.out, Ready: c.writeReady})
	c.nWrites++
	if c.closedLocal {
		s.event(0x411, &c.out, true)
		return 0, errClosed
	}
	if c.WriteErrAt > 0 && c.nWrites == c.WriteErrAt {
		s.event(0x412, &c.out, true)
		if c.OnFault != nil {
			c.OnFault("write-error")
		}
		return 0, ErrInjected
	}
	name := ""
	if s.cur != nil {
		name = s.cur.Name
	}
	if c.WritePartialAt > 0 && c.nWrites == c.WritePartialAt && len(b) > 1 {
		n := len(b) / 2
		c.Writes = append(c.Writes, WriteRec{Data: string(b[:n]), At: s.now, Task: name})
		c.pipeUsed += n
		s.event(0x414^HashString(string(b[:n])), &c.out, true)
		if c.OnFault != nil {
			c.OnFault("write-error")
		}
		return n, ErrPartial
	}
	c.Writes = append(c.Writes, WriteRec{Data: string(b), At: s.now, Task: name})
	c.pipeUsed += len(b)
	s.event(0x413^HashString(string(b)), &c.out, true)
	return len(b), nil
}

func (c *Conn) Close() error {
	s, mode := cur()
	if mode != modeSched {
		return nil
	}
	s.point(&Op{Kind: "sock.Close", Obj: &c.in})
	c.closedLocal = true
	s.event(0x421, &c.in, true)
	s.event(0x421, &c.out, true)
	return nil
}

func (c *Conn) LocalAddr() net.Addr                { return vaddr("local") }
func (c *Conn) RemoteAddr() net.Addr               { return vaddr(c.Addr) }
func (c *Conn) SetDeadline(t time.Time) error      { return nil }
func (c *Conn) SetReadDeadline(t time.Time) error  { return nil }
func (c *Conn) SetWriteDeadline(t time.Time) error { return nil }

// ---- server side (harness tasks)

// Preload queues inbound data without a scheduling point (used from ConnSetup).
func (c *Conn) Preload(data string) {
	if data != "" {
		c.inbound = append(c.inbound, []byte(data))
	}
}

// PreloadEOF marks end of stream after whatever is queued (no scheduling point).
func (c *Conn) PreloadEOF() { c.eof = true }

// Send queues one inbound segment.
func (c *Conn) Send(data string) {
	s, mode := cur()
	if mode != modeSched {
		return
	}
	s.point(&Op{Kind: "srv.Send", Obj: &c.in})
	if data != "" {
		c.inbound = append(c.inbound, []byte(data))
	}
	s.event(0x431^HashString(data), &c.in, true)
}

// SendLines queues the lines, CRLF-terminated, as one segment.
func (c *Conn) SendLines(lines ...string) {
	c.Send(strings.Join(lines, "\r\n") + "\r\n")
}

// EOF ends the inbound stream (after the queued data).
func (c *Conn) EOF() {
	s, mode := cur()
	if mode != modeSched {
		return
	}
	s.point(&Op{Kind: "srv.EOF", Obj: &c.in})
	c.eof = true
	s.event(0x432, &c.in, true)
}

// FailRead makes reads fail with err once the queued data is consumed.
func (c *Conn) FailRead(err error) {
	s, mode := cur()
	if mode != modeSched {
		return
	}
	s.point(&Op{Kind: "srv.FailRead", Obj: &c.in})
	c.readErr = err
	s.event(0x433, &c.in, true)
}

// Transcript returns everything the client wrote so far (no scheduling point;
// for oracles and for server tasks that have just been woken by a wait).
func (c *Conn) Transcript() string {
	var sb strings.Builder
	for _, w := range c.Writes {
		sb.WriteString(w.Data)
	}
	return sb.String()
}

// Lines returns the complete CRLF-terminated lines written so far.
func (c *Conn) Lines() []string {
	t := c.Transcript()
	parts := strings.Split(t, "\r\n")
	return parts[:len(parts)-1]
}

func (c *Conn) completeLines() int { return strings.Count(c.Transcript(), "\r\n") }

// WaitLines blocks until the client has written at least n complete lines, or
// closed the socket; it reports whether n lines are there.
func (c *Conn) WaitLines(n int) bool {
	s, mode := cur()
	if mode != modeSched {
		return false
	}
	s.point(&Op{Kind: "srv.WaitLines", Obj: &c.out, Ready: func() bool { return c.completeLines() >= n || c.closedLocal }})
	s.event(0x441^uint64(n)<<16, &c.out, false)
	return c.completeLines() >= n
}

// ReadLine returns the next line the client wrote that the server has not yet
// consumed, blocking until there is one; ok=false once the client closed the
// socket and everything was consumed.
func (c *Conn) ReadLine() (string, bool) {
	s, mode := cur()
	if mode != modeSched {
		return "", false
	}
	next := func() (string, bool) {
		t := c.Transcript()
		if i := strings.Index(t[c.scanned:], "\r\n"); i >= 0 {
			return t[c.scanned : c.scanned+i], true
		}
		return "", false
	}
	s.point(&Op{Kind: "srv.ReadLine", Obj: &c.out, Ready: func() bool {
		_, ok := next()
		return ok || c.closedLocal
	}})
	l, ok := next()
	if ok {
		c.scanned += len(l) + 2
		if c.PipeCap > 0 {
			c.pipeUsed -= len(l) + 2
			if c.pipeUsed < 0 {
				c.pipeUsed = 0
			}
		}
	}
	s.event(0x442^HashString(l), &c.out, true)
	return l, ok
}

// PreStall (for ConnSetup; no scheduling point) makes the server not read at all from the start: the very first
// write blocks until StallWrites(0) or Drain releases it.
func (c *Conn) PreStall() { c.PipeCap, c.pipeUsed = 1, 1 }

// Drain frees n bytes of pipe capacity (slow / bursty server).
func (c *Conn) Drain(n int) {
	s, mode := cur()
	if mode != modeSched {
		return
	}
	s.point(&Op{Kind: "srv.Drain", Obj: &c.out})
	c.pipeUsed -= n
	if c.pipeUsed < 0 {
		c.pipeUsed = 0
	}
	s.event(0x443^uint64(n)<<16, &c.out, true)
}

// WaitClosed blocks until the client closed its end.
func (c *Conn) WaitClosed() {
	s, mode := cur()
	if mode != modeSched {
		return
	}
	s.point(&Op{Kind: "srv.WaitClosed", Obj: &c.in, Ready: func() bool { return c.closedLocal }})
	s.event(0x444, &c.in, false)
}

func (c *Conn) ClosedLocal() bool { return c.closedLocal }
func (c *Conn) PendingInbound() int {
	n := 0
	for _, s := range c.inbound {
		n += len(s)
	}
	return n
}

// FailNextWrite makes the next (or a currently blocked) Write fail with ErrInjected.
func (c *Conn) FailNextWrite() {
	s, mode := cur()
	if mode != modeSched {
		return
	}
	s.point(&Op{Kind: "srv.FailNextWrite", Obj: &c.out})
	c.WriteErrAt = c.nWrites + 1
	s.event(0x445, &c.out, true)
}

// FailNextWritePartially makes the next (or a currently blocked) Write take half of its bytes and fail with ErrPartial.
func (c *Conn) FailNextWritePartially() {
	s, mode := cur()
	if mode != modeSched {
		return
	}
	s.point(&Op{Kind: "srv.FailNextWritePartially", Obj: &c.out})
	c.WritePartialAt = c.nWrites + 1
	s.event(0x447, &c.out, true)
}

// NWrites is the number of Write calls made so far.
func (c *Conn) NWrites() int { return c.nWrites }

// StallWrites makes the server stop reading: once n more bytes are pending,
// client writes block (until Drain/ReadLine free capacity, the socket is closed
// locally, or a write error is injected).
func (c *Conn) StallWrites(n int) {
	s, mode := cur()
	if mode != modeSched {
		return
	}
	s.point(&Op{Kind: "srv.StallWrites", Obj: &c.out})
	c.pipeUsed = 0
	c.PipeCap = n
	s.event(0x446^uint64(n)<<16, &c.out, true)
}
