// Package vtime replaces "time" in instrumented code: types are aliases of the
// standard ones (public signatures stay identical), everything that observes or
// waits for the clock is virtual.
package vtime

import (
	"time"

	"verif/vx"
)

type (
	Time       = time.Time
	Duration   = time.Duration
	Month      = time.Month
	Weekday    = time.Weekday
	Location   = time.Location
	ParseError = time.ParseError
	Timer      = vx.Timer
	Ticker     = vx.Ticker
)

const (
	Nanosecond  = time.Nanosecond
	Microsecond = time.Microsecond
	Millisecond = time.Millisecond
	Second      = time.Second
	Minute      = time.Minute
	Hour        = time.Hour

	Layout      = time.Layout
	ANSIC       = time.ANSIC
	UnixDate    = time.UnixDate
	RubyDate    = time.RubyDate
	RFC822      = time.RFC822
	RFC822Z     = time.RFC822Z
	RFC850      = time.RFC850
	RFC1123     = time.RFC1123
	RFC1123Z    = time.RFC1123Z
	RFC3339     = time.RFC3339
	RFC3339Nano = time.RFC3339Nano
	Kitchen     = time.Kitchen
	Stamp       = time.Stamp
	StampMilli  = time.StampMilli
	StampMicro  = time.StampMicro
	StampNano   = time.StampNano
	DateTime    = time.DateTime
	DateOnly    = time.DateOnly
	TimeOnly    = time.TimeOnly

	January   = time.January
	February  = time.February
	March     = time.March
	April     = time.April
	May       = time.May
	June      = time.June
	July      = time.July
	August    = time.August
	September = time.September
	October   = time.October
	November  = time.November
	December  = time.December

	Sunday    = time.Sunday
	Monday    = time.Monday
	Tuesday   = time.Tuesday
	Wednesday = time.Wednesday
	Thursday  = time.Thursday
	Friday    = time.Friday
	Saturday  = time.Saturday
)

var (
	UTC   = time.UTC
	Local = time.Local
)

func Now() Time                             { return vx.NowRead() }
func Since(t Time) Duration                 { return vx.NowRead().Sub(t) }
func Until(t Time) Duration                 { return t.Sub(vx.NowRead()) }
func Sleep(d Duration)                      { vx.Sleep(d) }
func After(d Duration) <-chan Time          { return vx.After(d) }
func Tick(d Duration) <-chan Time           { return vx.Tick(d) }
func NewTimer(d Duration) *Timer            { return vx.NewTimer(d) }
func NewTicker(d Duration) *Ticker          { return vx.NewTicker(d) }
func AfterFunc(d Duration, f func()) *Timer { return vx.AfterFunc(d, f) }

func Unix(sec, nsec int64) Time { return time.Unix(sec, nsec) }
func UnixMilli(ms int64) Time   { return time.UnixMilli(ms) }
func UnixMicro(us int64) Time   { return time.UnixMicro(us) }
func Date(y int, m Month, d, h, mi, s, ns int, loc *Location) Time {
	return time.Date(y, m, d, h, mi, s, ns, loc)
}
func Parse(layout, value string) (Time, error) { return time.Parse(layout, value) }
func ParseInLocation(layout, value string, loc *Location) (Time, error) {
	return time.ParseInLocation(layout, value, loc)
}
func ParseDuration(s string) (Duration, error)    { return time.ParseDuration(s) }
func LoadLocation(name string) (*Location, error) { return time.LoadLocation(name) }
func FixedZone(name string, offset int) *Location { return time.FixedZone(name, offset) }
