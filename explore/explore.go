// Package explore enumerates the executions of a closed harness (Scenario) under
// the vx runtime: depth-first over choice sequences, bounded by the number of
// departures from a deterministic default scheduler (K scheduling deviations, E
// environment deviations), or unbounded, with an optional happens-before state
// cache.
package explore

import (
	"fmt"
	"sort"
	"strings"
	"time"

	"verif/vx"
)

// Finding is one oracle failure on one execution.
type Finding struct {
	Oracle string // outcome class used for known-finding matching: "deadlock", "crash", or an oracle id
	Msg    string
}

// Scenario is a closed harness plus its oracle.
type Scenario struct {
	Family string
	Name   string
	Params map[string]interface{}
	Opt    vx.Options
	Main   func(env *vx.Env)
	// Check is evaluated on every complete execution. It must be a pure function
	// of the outcome (and of state the harness stored for this execution).
	Check func(o *vx.Outcome) []Finding
	// Observation returns extra canonical text that distinguishes outcomes (optional).
	Observation func(o *vx.Outcome) string
	// StepCapIsLivelock: an execution that reaches Opt.MaxSteps is handed to Check like a complete one (Kind
	// "step-cap"): for scenarios whose property is "this always finishes", with MaxSteps far above what any
	// finishing execution takes, a spin loop (polling with a yield inside) is a violation, not a cap.
	StepCapIsLivelock bool
}

type Budget struct{ K, E int } // -1 = unbounded

func (b Budget) String() string {
	f := func(x int) string {
		if x < 0 {
			return "inf"
		}
		return fmt.Sprint(x)
	}
	return "K" + f(b.K) + "E" + f(b.E)
}

type Violation struct {
	Family   string                 `json:"family"`
	Scenario string                 `json:"scenario"`
	Params   map[string]interface{} `json:"params"`
	Variant  int                    `json:"variant"`
	Budget   string                 `json:"budget"`
	Oracle   string                 `json:"oracle"`
	Msg      string                 `json:"message"`
	Detail   string                 `json:"detail"`
	Choices  []int                  `json:"choices"`
	Widths   []int                  `json:"widths"`
	Devs     int                    `json:"deviations"`
	Replayed int                    `json:"replayed_ok"`
	ClockAlt bool                   `json:"clock_alt"`
	Obs      []string               `json:"observations,omitempty"`
}

type Config struct {
	Cache      bool
	MaxExecs   int64
	Deadline   time.Time
	DetCheck   int // number of initial executions that are run twice and compared
	MaxViol    int // stop after this many distinct violation signatures (default 10)
	PrefixOnly [][]int
}

type Result struct {
	Scenario     string         `json:"scenario"`
	Variant      int            `json:"variant"`
	Budget       string         `json:"budget"`
	Executions   int64          `json:"executions"`
	Complete     int64          `json:"complete_executions"`
	Pruned       int64          `json:"pruned"`
	Steps        int64          `json:"steps"`
	States       int64          `json:"states"`
	Outcomes     map[string]int `json:"outcomes"`
	OutcomeKinds map[string]int `json:"outcome_kinds"`
	MaxEnabled   int            `json:"max_enabled"`
	ChoicePoints int64          `json:"choice_points"`
	MaxDepth     int            `json:"max_depth"`
	Violations   []Violation    `json:"violations"`
	CapsHit      []string       `json:"caps_hit"`
	Nondet       int            `json:"nondeterminism"`
	StepCaps     int            `json:"step_caps"`
	Exhaustive   bool           `json:"exhaustive"`
	Sample       []string       `json:"sample,omitempty"`
	WallS        float64        `json:"wall_s"`
}

type workItem struct {
	prefix []int
	widths []int
	usedK  int
	usedE  int
}

type budgetLeft struct{ k, e int }

type cache struct {
	m map[vx.H][]budgetLeft
}

// dominated reports whether (key, left) was already explored with at least this
// much budget; otherwise it records it.
func (c *cache) dominated(key vx.H, left budgetLeft) bool {
	ents := c.m[key]
	for _, e := range ents {
		if e.k >= left.k && e.e >= left.e {
			return true
		}
	}
	k := 0
	for _, e := range ents {
		if !(left.k >= e.k && left.e >= e.e) {
			ents[k] = e
			k++
		}
	}
	c.m[key] = append(ents[:k], left)
	return false
}

type dfsChooser struct {
	prefix []int
	widths []int
	pos    int
	cache  *cache
	left   budgetLeft
	pruned bool
	nondet string
	states *int64
}

const inf = 1 << 30

func (c *dfsChooser) Choose(cp *vx.ChoicePoint) int {
	if c.pos < len(c.prefix) {
		if cp.N != c.widths[c.pos] {
			c.nondet = fmt.Sprintf("replay divergence at point %d: width %d, recorded %d", c.pos, cp.N, c.widths[c.pos])
			c.pos++
			return -1
		}
		x := c.prefix[c.pos]
		c.pos++
		return x
	}
	c.pos++
	if c.cache != nil {
		if c.cache.dominated(cp.Key, c.left) {
			c.pruned = true
			return -1
		}
		*c.states++
	}
	return 0
}

// Explore runs the bounded / unbounded search for one scenario and variant.
func Explore(sc *Scenario, variant int, b Budget, cfg Config) *Result {
	start := time.Now()
	res := &Result{Scenario: sc.Name, Variant: variant, Budget: b.String(), Outcomes: map[string]int{}, OutcomeKinds: map[string]int{}, Exhaustive: true}
	if cfg.MaxViol == 0 {
		cfg.MaxViol = 10
	}
	var ch *cache
	if cfg.Cache {
		ch = &cache{m: make(map[vx.H][]budgetLeft)}
	}
	totK, totE := b.K, b.E
	if totK < 0 {
		totK = inf
	}
	if totE < 0 {
		totE = inf
	}
	stack := []workItem{{}}
	if len(cfg.PrefixOnly) > 0 {
		stack = stack[:0]
	}
	sigs := map[string]bool{}
	opt := sc.Opt
	opt.Variant = variant
	opt.Keys = cfg.Cache
	if b.E != 0 {
		opt.ClockAlt = sc.Opt.ClockAlt
	} else {
		opt.ClockAlt = false
	}
	for len(stack) > 0 {
		if cfg.MaxExecs > 0 && res.Executions >= cfg.MaxExecs {
			res.CapsHit = append(res.CapsHit, fmt.Sprintf("max-executions %d", cfg.MaxExecs))
			res.Exhaustive = false
			break
		}
		if !cfg.Deadline.IsZero() && res.Executions%64 == 0 && time.Now().After(cfg.Deadline) {
			res.CapsHit = append(res.CapsHit, "deadline")
			res.Exhaustive = false
			break
		}
		it := stack[len(stack)-1]
		stack = stack[:len(stack)-1]
		c := &dfsChooser{prefix: it.prefix, widths: it.widths, cache: ch, left: budgetLeft{totK - it.usedK, totE - it.usedE}, states: &res.States}
		o := vx.Run(opt, c, sc.Main)
		res.Executions++
		res.Steps += int64(o.Steps)
		if o.MaxEnabled > res.MaxEnabled {
			res.MaxEnabled = o.MaxEnabled
		}
		if c.nondet != "" || o.Kind == "nondeterminism" {
			res.Nondet++
			res.Exhaustive = false
			continue
		}
		if len(o.Points) > res.MaxDepth {
			res.MaxDepth = len(o.Points)
		}
		// branch on every point at or after the end of the prefix
		for i := len(it.prefix); i < len(o.Points); i++ {
			p := &o.Points[i]
			res.ChoicePoints++
			for alt := 1; alt < p.N; alt++ {
				uk, ue := it.usedK, it.usedE
				if alt >= p.EFrom {
					ue++
				} else {
					uk++
				}
				if uk > totK || ue > totE {
					continue
				}
				np := make([]int, i+1)
				nw := make([]int, i+1)
				for j := 0; j < i; j++ {
					np[j] = o.Points[j].Taken
					nw[j] = o.Points[j].N
				}
				np[i] = alt
				nw[i] = p.N
				stack = append(stack, workItem{prefix: np, widths: nw, usedK: uk, usedE: ue})
			}
		}
		if o.Kind == "pruned" {
			res.Pruned++
			continue
		}
		if o.Kind == "step-cap" && !sc.StepCapIsLivelock {
			res.StepCaps++
			res.Exhaustive = false
			continue
		}
		res.Complete++
		res.OutcomeKinds[o.Kind]++
		obs := canonObs(sc, o)
		h := fmt.Sprintf("%016x", vx.HashString(obs))
		if len(res.Outcomes) < 5000 || res.Outcomes[h] > 0 {
			res.Outcomes[h]++
		}
		if len(res.Sample) == 0 {
			res.Sample = sampleOf(o)
		}
		if cfg.DetCheck > 0 && res.Complete <= int64(cfg.DetCheck) {
			ch2 := &replayChooser{choices: takenOf(o), widths: widthsOf(o)}
			opt2 := opt
			opt2.Keys = false
			o2 := vx.Run(opt2, ch2, sc.Main)
			if ch2.bad != "" || canonObs(sc, o2) != obs {
				res.Nondet++
				res.Exhaustive = false
				continue
			}
		}
		for _, f := range sc.Check(o) {
			v := Violation{Family: sc.Family, Scenario: sc.Name, Params: sc.Params, Variant: variant, Budget: b.String(), Oracle: f.Oracle, Msg: f.Msg,
				Choices: takenOf(o), Widths: widthsOf(o), Devs: it.usedK + it.usedE, ClockAlt: opt.ClockAlt}
			switch o.Kind {
			case "crash":
				v.Detail = o.Crash.Task + ": " + o.Crash.Value + " @ " + o.Crash.Top
			default:
				v.Detail = o.BlockedSig()
			}
			sig := f.Oracle
			if sigs[sig] {
				continue
			}
			sigs[sig] = true
			// confirm by replaying
			for r := 0; r < 5; r++ {
				rc := &replayChooser{choices: v.Choices, widths: v.Widths}
				opt2 := opt
				opt2.Keys = false
				o2 := vx.Run(opt2, rc, sc.Main)
				if rc.bad == "" && hasFinding(sc.Check(o2), f.Oracle) {
					v.Replayed++
				}
			}
			for _, r := range o.Recs {
				if len(v.Obs) < 200 {
					v.Obs = append(v.Obs, r.Log+": "+r.Data)
				}
			}
			res.Violations = append(res.Violations, v)
		}
		if len(sigs) >= cfg.MaxViol {
			res.CapsHit = append(res.CapsHit, "max-violations")
			res.Exhaustive = false
			break
		}
	}
	res.WallS = time.Since(start).Seconds()
	return res
}

func hasFinding(fs []Finding, oracle string) bool {
	for _, f := range fs {
		if f.Oracle == oracle {
			return true
		}
	}
	return false
}

func takenOf(o *vx.Outcome) []int {
	r := make([]int, len(o.Points))
	for i, p := range o.Points {
		r[i] = p.Taken
	}
	return r
}

func widthsOf(o *vx.Outcome) []int {
	r := make([]int, len(o.Points))
	for i, p := range o.Points {
		r[i] = p.N
	}
	return r
}

func canonObs(sc *Scenario, o *vx.Outcome) string {
	var sb strings.Builder
	sb.WriteString(o.Kind)
	sb.WriteString("|")
	sb.WriteString(o.BlockedSig())
	for _, r := range o.Recs {
		sb.WriteString("|")
		sb.WriteString(r.Log)
		sb.WriteString(":")
		sb.WriteString(r.Data)
	}
	for _, c := range o.Conns {
		sb.WriteString("|T:")
		sb.WriteString(c.Transcript())
	}
	if sc.Observation != nil {
		sb.WriteString("|")
		sb.WriteString(sc.Observation(o))
	}
	return sb.String()
}

func sampleOf(o *vx.Outcome) []string {
	var s []string
	for _, r := range o.Recs {
		if len(s) < 40 {
			s = append(s, r.Log+": "+r.Data)
		}
	}
	return s
}

type replayChooser struct {
	choices []int
	widths  []int
	pos     int
	bad     string
}

func (c *replayChooser) Choose(cp *vx.ChoicePoint) int {
	if c.pos < len(c.choices) {
		if c.widths != nil && cp.N != c.widths[c.pos] {
			c.bad = fmt.Sprintf("divergence at %d: width %d recorded %d", c.pos, cp.N, c.widths[c.pos])
			c.pos++
			return -1
		}
		x := c.choices[c.pos]
		c.pos++
		return x
	}
	c.pos++
	return 0
}

// Replay re-executes one recorded schedule, with a readable trace.
func Replay(sc *Scenario, variant int, choices, widths []int, clockAlt, trace bool) (*vx.Outcome, string) {
	opt := sc.Opt
	opt.Variant = variant
	opt.Trace = trace
	// a replay must offer the same alternatives as the search did
	opt.ClockAlt = clockAlt
	rc := &replayChooser{choices: choices, widths: widths}
	o := vx.Run(opt, rc, sc.Main)
	return o, rc.bad
}

// RunDefault runs the scenario once under the default scheduler of the variant.
func RunDefault(sc *Scenario, variant int) *vx.Outcome {
	opt := sc.Opt
	opt.Variant = variant
	opt.ClockAlt = false
	return vx.Run(opt, &replayChooser{}, sc.Main)
}

// SortedKinds renders an outcome-kind histogram.
func SortedKinds(m map[string]int) string {
	var ks []string
	for k := range m {
		ks = append(ks, k)
	}
	sort.Strings(ks)
	var sb strings.Builder
	for _, k := range ks {
		fmt.Fprintf(&sb, "%s=%d ", k, m[k])
	}
	return strings.TrimSpace(sb.String())
}
