#!/bin/bash
# usage: tools/seedtest.sh <dir-with-changeN.diff+demoN> <n> <prop>...
# Confirms a seeded change (applies to a scratch copy of /repo HEAD, repo tests, demo with/without) and runs the given checks on it.
set -u
export GOFLAGS=-mod=mod GOPROXY=off GOSUMDB=off GOTOOLCHAIN=local
dir=$(readlink -f "$1"); n=$2; shift 2
patch=$dir/change$n.diff
[ -f "$patch" ] || patch=$dir/patch.diff
scratch=/root/scratch-mut/seed-$$
rm -rf "$scratch"; mkdir -p "$scratch/with" "$scratch/without"
trap 'rm -rf "$scratch"' EXIT
for d in with without; do git -C /repo archive ${BASE:-HEAD} | tar -x -C "$scratch/$d"; done
cd "$scratch/with"
if ! patch -p1 -s --dry-run < "$patch" >/dev/null 2>&1; then echo "PATCH DOES NOT APPLY to current /repo HEAD: $patch"; exit 2; fi
patch -p1 -s < "$patch"
if go build ./... 2>/dev/null; then echo "builds: yes"; else echo "builds: NO"; exit 2; fi
fails=0; for i in 1 2 3; do timeout 120 go test -vet=off -count=1 -timeout 60s ./... >"$scratch/t.log" 2>&1 || { fails=$((fails+1)); grep -E "^--- FAIL" "$scratch/t.log" | head -3; }; done
echo "repo tests with change: $((3-fails))/3 runs pass"
# demo
demo=""
for f in "$dir/demo${n}_test.go" "$dir/demo_test.go"; do [ -f "$f" ] && demo=$f; done
if [ -n "$demo" ]; then
  pkg=$(grep -m1 '^package ' "$demo" | awk '{print $2}' | sed 's/_test$//')
  sub=client; [ "$pkg" = state ] && sub=state
  for d in with without; do
    cp "$demo" "$scratch/$d/$sub/zz_seed_demo_test.go"
    ok=0; for i in 1 2 3; do (cd "$scratch/$d" && timeout 100 go test -vet=off -count=1 -timeout 40s -run 'Seed|seed|Demo|ZZ|Zz' ./$sub >"$scratch/d.log" 2>&1) && ok=$((ok+1)); done
    echo "demo $d change: $ok/3 runs pass $(grep -m1 -E '^(ok|FAIL|---)' "$scratch/d.log" | cut -c1-120)"
    rm -f "$scratch/$d/$sub/zz_seed_demo_test.go"
  done
else
  echo "demo: (no test-file demo found; check by hand)"
fi
SNAP=${VERIF_SNAP:-/root/verif-snap}
cd $SNAP
for p in "$@"; do
  ev=$(mktemp -d)
  out=$(VERIF_DIR=$SNAP VERIF_REPO="$scratch/with" VERIF_EVIDENCE_DIR="$ev" VERIF_REPLAY_DIR="$ev" VERIF_BUDGET_S=${VERIF_BUDGET_S:-200} ./bin/verif check "$p" ${TIER:+--tier $TIER} 2>&1); rc=$?
  echo "check $p: exit=$rc $(echo "$out" | grep -c '^VIOLATION') violation line(s)"
  echo "$out" | grep -A2 '^VIOLATION' | cut -c1-300 | head -${MUTEST_LINES:-6}
  echo "$out" | grep -v "^VIOLATION\|^  " | tail -3 | cut -c1-400
  rm -rf "$ev"
done
