package vx

import (
	"reflect"
	"runtime"
	"sort"
	"sync"
	"unsafe"
)

// Channels stay real Go channels. The runtime only gates *when* an operation is
// attempted: a task parks before each channel operation and is enabled when the
// operation can complete without blocking (probed while nothing else runs).
// Unbuffered channels are handled by an explicit hand-off between the active
// party and a parked partner, which makes the rendezvous atomic.

const (
	evSend = 0x200 + iota
	evRecv
	evClose
	evSelect
	evSelDefault
	evChanLen
)

type chanInfo struct {
	obj    Obj
	closed bool
	keep   interface{} // the channel itself: keeps it alive so that its address cannot be reused within the run
}

type selCase struct {
	rch   reflect.Value // outside a controlled run: the channel and the value to send, for reflect.Select
	rval  reflect.Value
	p     uintptr
	send  bool
	isNil bool
	cap0  bool
	ready func() bool // buffered readiness / closedness probe
	val   interface{} // send value (unbuffered hand-off only)
	info  *chanInfo
}

// SelCase is one communication clause of an instrumented select.
type SelCase struct{ c selCase }

func chanPtr[T any](ch chan T) uintptr    { return uintptr(*(*unsafe.Pointer)(unsafe.Pointer(&ch))) }
func rchanPtr[T any](ch <-chan T) uintptr { return uintptr(*(*unsafe.Pointer)(unsafe.Pointer(&ch))) }
func schanPtr[T any](ch chan<- T) uintptr { return uintptr(*(*unsafe.Pointer)(unsafe.Pointer(&ch))) }

func (s *Sched) chanInfo(p uintptr, label string, ch interface{}) *chanInfo {
	ci := s.chans[p]
	if ci == nil {
		ci = &chanInfo{keep: ch}
		ci.obj.Label = label
		s.initObj(&ci.obj, "chan")
		s.chans[p] = ci
	}
	return ci
}

// MakeChan replaces make(chan T, n) in instrumented code.
func MakeChan[T any](n int, label string) chan T {
	s, mode := cur()
	if mode != modeSched {
		return make(chan T, n)
	}
	if s.opt.ChanCap > 0 && n > 1 {
		n = s.opt.ChanCap
	}
	ch := make(chan T, n)
	s.chanInfo(chanPtr(ch), label, ch)
	return ch
}

func isClosedRecv[T any](ch <-chan T, ci *chanInfo) bool {
	if ci.closed {
		return true
	}
	if len(ch) != 0 {
		return false
	}
	x, ok := reflect.ValueOf(ch).TryRecv()
	if x.IsValid() && !ok {
		ci.closed = true
		return true
	}
	if x.IsValid() && ok {
		panic("vx: probe consumed a value from a channel (uncontrolled sender?)")
	}
	return false
}

func recvCase[T any](s *Sched, ch <-chan T) selCase {
	if ch == nil {
		return selCase{isNil: true}
	}
	p := rchanPtr(ch)
	ci := s.chanInfo(p, "chan", ch)
	c := selCase{p: p, info: ci, cap0: cap(ch) == 0}
	c.ready = func() bool { return len(ch) > 0 || isClosedRecv(ch, ci) }
	return c
}

func sendCase[T any](s *Sched, ch chan<- T, v T, keep bool) selCase {
	if ch == nil {
		return selCase{isNil: true, send: true}
	}
	p := schanPtr(ch)
	ci := s.chanInfo(p, "chan", ch)
	c := selCase{p: p, send: true, info: ci, cap0: cap(ch) == 0}
	if c.cap0 || keep {
		c.val = v
	}
	c.ready = func() bool { return ci.closed || len(ch) < cap(ch) }
	return c
}

// partner looks for a parked task with a complementary, not yet completed case on the same unbuffered channel.
func (s *Sched) partners(c *selCase) (ts []*Task, idx []int) {
	for _, t := range s.tasks {
		if t == s.cur || t.done || t.pend == nil || t.pend.handed || t.pend.nonblocking {
			continue // (a select with a default clause never waits: it cannot be the passive side of a rendezvous)
		}
		for i := range t.pend.cases {
			pc := &t.pend.cases[i]
			if !pc.isNil && pc.p == c.p && pc.send != c.send {
				ts = append(ts, t)
				idx = append(idx, i)
				break
			}
		}
	}
	return
}

func (s *Sched) caseReady(c *selCase) bool {
	if c.isNil {
		return false
	}
	if c.cap0 {
		if c.send {
			if c.info.closed {
				return true
			}
		} else if c.ready() { // closed
			return true
		}
		ts, _ := s.partners(c)
		return len(ts) > 0
	}
	return c.ready()
}

// complete0 performs the active side of an unbuffered rendezvous for case c
// (which must be ready) and returns the received value for receives.
func (s *Sched) complete0(c *selCase) (val interface{}, ok bool) {
	if !c.send && c.ready() { // closed
		return nil, false
	}
	if c.send && c.info.closed {
		panic("send on closed channel")
	}
	ts, idx := s.partners(c)
	k := 0
	if len(ts) > 1 {
		k = s.taskChoose('S', len(ts), len(ts))
	}
	p := ts[k].pend
	p.handed = true
	p.handCase = idx[k]
	// which of several waiting partners got the value is part of the state at once (not only when the partner runs
	// again): otherwise the alternatives of this choice look alike to the state cache and all but one are pruned
	if pt := ts[k]; s.opt.Keys {
		old := pt.h
		pt.h = pt.h.Mix(0x21f, uint64(idx[k]))
		s.rehash(pt, old)
	}
	if c.send {
		p.handVal, p.handOK = c.val, true
		return nil, true
	}
	return p.cases[idx[k]].val, true
}

// Send replaces `ch <- v`.
func Send[T any](ch chan<- T, v T, site string) {
	s, mode := cur()
	switch mode {
	case modeReal:
		ch <- v
		return
	case modeAbort:
		return
	}
	c := sendCase(s, ch, v, false)
	op := &Op{Kind: "chan send", Site: site, cases: []selCase{c}}
	if c.isNil {
		op.Ready = func() bool { return false }
		op.Obj = &Obj{Label: "nil chan"}
	} else {
		op.Obj = &c.info.obj
		op.Ready = func() bool { return s.caseReady(&op.cases[0]) }
	}
	s.point(op)
	if op.handed {
		s.event(evSend+1<<16, op.Obj, true)
		return
	}
	if c.cap0 {
		s.complete0(&c)
		s.event(evSend, op.Obj, true)
		s.afterRendezvous()
		return
	}
	s.event(evSend, op.Obj, true)
	s.hbRelease(op.Obj)
	ch <- v // cannot block: len<cap (or panics: closed)
}

// Recv replaces `<-ch` (value form).
func Recv[T any](ch <-chan T, site string) T {
	v, _ := Recv2(ch, site)
	return v
}

// Recv2 replaces `v, ok := <-ch`.
func Recv2[T any](ch <-chan T, site string) (T, bool) {
	s, mode := cur()
	switch mode {
	case modeReal:
		v, ok := <-ch
		return v, ok
	case modeAbort:
		var z T
		return z, false
	}
	c := recvCase(s, ch)
	op := &Op{Kind: "chan recv", Site: site, cases: []selCase{c}}
	if c.isNil {
		op.Ready = func() bool { return false }
		op.Obj = &Obj{Label: "nil chan"}
	} else {
		op.Obj = &c.info.obj
		op.Ready = func() bool { return s.caseReady(&op.cases[0]) }
	}
	s.point(op)
	if op.handed {
		s.event(evRecv+1<<16, op.Obj, true)
		if op.handVal == nil {
			var z T
			return z, true
		}
		return op.handVal.(T), true
	}
	if c.cap0 {
		val, ok := s.complete0(&c)
		s.event(evRecv, op.Obj, true)
		if !ok {
			var z T
			return z, false
		}
		s.afterRendezvous()
		if val == nil {
			var z T
			return z, true
		}
		return val.(T), true
	}
	s.event(evRecv, op.Obj, true)
	s.hbAcquire(op.Obj)
	v, ok := <-ch
	return v, ok
}

// Close replaces close(ch).
func Close[T any](ch chan T) {
	s, mode := cur()
	switch mode {
	case modeReal:
		close(ch)
		return
	case modeAbort:
		return
	}
	if ch == nil {
		panic("close of nil channel")
	}
	ci := s.chanInfo(chanPtr(ch), "chan", ch)
	s.point(&Op{Kind: "chan close", Obj: &ci.obj})
	ci.closed = true
	s.event(evClose, &ci.obj, true)
	close(ch)
}

// Len replaces len(ch) on a channel: a scheduling point, and a read of the channel's state whose answer
// (it depends on the order against the sends and receives of other tasks) goes into the state key.
func Len[T any](ch chan T, site string) int {
	s, mode := cur()
	if mode != modeSched || ch == nil {
		return len(ch)
	}
	ci := s.chanInfo(chanPtr(ch), "chan", ch)
	s.point(&Op{Kind: "chan len", Obj: &ci.obj, Site: site})
	n := len(ch)
	s.event(evChanLen+uint64(n)<<16, &ci.obj, false)
	return n
}

// LenRecv / LenSend are Len for directional channel values.
func LenRecv[T any](ch <-chan T, site string) int {
	s, mode := cur()
	if mode != modeSched || ch == nil {
		return len(ch)
	}
	ci := s.chanInfo(rchanPtr(ch), "chan", ch)
	s.point(&Op{Kind: "chan len", Obj: &ci.obj, Site: site})
	n := len(ch)
	s.event(evChanLen+uint64(n)<<16, &ci.obj, false)
	return n
}

func LenSend[T any](ch chan<- T, site string) int {
	s, mode := cur()
	if mode != modeSched || ch == nil {
		return len(ch)
	}
	ci := s.chanInfo(schanPtr(ch), "chan", ch)
	s.point(&Op{Kind: "chan len", Obj: &ci.obj, Site: site})
	n := len(ch)
	s.event(evChanLen+uint64(n)<<16, &ci.obj, false)
	return n
}

// ReadState is a scheduling point followed by a non-blocking read of state that changes together with
// channel ch (ctx.Err() against ctx.Done()); the answer goes into the state key.
func ReadState(ch <-chan struct{}, kind, site string, read func() uint64) {
	s, mode := cur()
	if mode != modeSched || ch == nil {
		read()
		return
	}
	ci := s.chanInfo(rchanPtr(ch), "chan", ch)
	s.point(&Op{Kind: kind, Obj: &ci.obj, Site: site})
	v := read()
	s.event(evChanLen+1<<40+v<<16, &ci.obj, false)
}

// CloseSend is Close for send-only channel values.
func CloseSend[T any](ch chan<- T) {
	s, mode := cur()
	switch mode {
	case modeReal:
		close(ch)
		return
	case modeAbort:
		return
	}
	ci := s.chanInfo(schanPtr(ch), "chan", ch)
	s.point(&Op{Kind: "chan close", Obj: &ci.obj})
	ci.closed = true
	s.event(evClose, &ci.obj, true)
	close(ch)
}

// NoteCancel records that the Done channel of a context is about to be closed by
// the (uninstrumented) context package: a write on that channel.
func NoteCancel(done <-chan struct{}) {
	s, mode := cur()
	if mode != modeSched || done == nil {
		return
	}
	ci := s.chanInfo(rchanPtr(done), "ctx.Done", done)
	s.event(evClose, &ci.obj, true)
}

// CaseRecv / CaseSend build the clauses of an instrumented select.
func CaseRecv[T any](ch <-chan T) SelCase {
	s, mode := cur()
	if mode != modeSched {
		return SelCase{selCase{rch: reflect.ValueOf(ch), p: rchanPtr(ch), isNil: ch == nil}}
	}
	return SelCase{recvCase(s, ch)}
}

func CaseSend[T any](ch chan<- T, v T) SelCase {
	s, mode := cur()
	if mode != modeSched {
		return SelCase{selCase{rch: reflect.ValueOf(ch), rval: reflect.ValueOf(&v).Elem(), p: schanPtr(ch), send: true, isNil: ch == nil}}
	}
	return SelCase{sendCase(s, ch, v, false)}
}

// Select replaces the choice made by a select statement: it returns the index
// of the clause to execute, or len(cases) for the default clause. The rewritten
// clause then performs its communication with SelRecv/SelRecv2/SelSend, which
// cannot block.
func Select(hasDefault bool, site string, cases ...SelCase) int {
	s, mode := cur()
	if mode == modeAbort {
		runtime.Goexit()
	}
	if mode == modeReal {
		return realSelect(hasDefault, cases)
	}
	op := &Op{Kind: "select", Site: site, nonblocking: hasDefault}
	op.cases = make([]selCase, len(cases))
	lab := ""
	for i := range cases {
		op.cases[i] = cases[i].c
		if cases[i].c.info != nil {
			if lab != "" {
				lab += ","
			}
			lab += cases[i].c.info.obj.Label
		}
	}
	op.Obj = &Obj{Label: lab}
	if !hasDefault {
		op.Ready = func() bool {
			for i := range op.cases {
				if s.caseReady(&op.cases[i]) {
					return true
				}
			}
			return false
		}
	}
	s.point(op)
	t := s.cur
	if op.handed {
		c := &op.cases[op.handCase]
		s.event(evSelect+uint64(op.handCase)<<16+1<<32, &c.info.obj, true)
		t.selHand = op
		return op.handCase
	}
	var ready []int
	for i := range op.cases {
		if s.caseReady(&op.cases[i]) {
			ready = append(ready, i)
		}
	}
	if len(ready) == 0 {
		if !hasDefault {
			panic("vx.Select: resumed with no ready case")
		}
		for i := range op.cases {
			if op.cases[i].info != nil {
				s.event(evSelDefault, &op.cases[i].info.obj, false)
			}
		}
		return len(cases)
	}
	k := 0
	if len(ready) > 1 {
		if s.opt.Variant == 2 {
			// default = last ready case
			for i, j := 0, len(ready)-1; i < j; i, j = i+1, j-1 {
				ready[i], ready[j] = ready[j], ready[i]
			}
		}
		k = s.taskChoose('S', len(ready), len(ready))
	}
	ci := ready[k]
	c := &op.cases[ci]
	if c.cap0 {
		val, ok := s.complete0(c)
		op.handVal, op.handOK = val, ok
		op.handed = true
		t.selHand = op
		s.event(evSelect+uint64(ci)<<16, &c.info.obj, true)
		if ok {
			s.afterRendezvous()
		}
		return ci
	}
	s.event(evSelect+uint64(ci)<<16, &c.info.obj, true)
	return ci
}

// Outside a controlled run (a harness calling library code directly, package initialisation) a select is an
// ordinary select: reflect.Select performs the chosen communication, and the SelRecv / SelSend of the rewritten
// clause pick up what it did.
type realDone struct {
	val interface{}
	ok  bool
}

var (
	realMu    sync.Mutex
	realStash = map[uintptr][]realDone{}
)

func realSelect(hasDefault bool, cases []SelCase) int {
	rc := make([]reflect.SelectCase, 0, len(cases)+1)
	for _, c := range cases {
		switch {
		case c.c.isNil:
			rc = append(rc, reflect.SelectCase{Dir: reflect.SelectRecv}) // a nil channel: never ready
		case c.c.send:
			rc = append(rc, reflect.SelectCase{Dir: reflect.SelectSend, Chan: c.c.rch, Send: c.c.rval})
		default:
			rc = append(rc, reflect.SelectCase{Dir: reflect.SelectRecv, Chan: c.c.rch})
		}
	}
	if hasDefault {
		rc = append(rc, reflect.SelectCase{Dir: reflect.SelectDefault})
	}
	i, v, ok := reflect.Select(rc)
	if i < len(cases) {
		d := realDone{ok: ok}
		if !cases[i].c.send && ok {
			d.val = v.Interface()
		}
		realMu.Lock()
		realStash[cases[i].c.p] = append(realStash[cases[i].c.p], d)
		realMu.Unlock()
	}
	return i
}

func realTake(p uintptr) (realDone, bool) {
	realMu.Lock()
	defer realMu.Unlock()
	q := realStash[p]
	if len(q) == 0 {
		return realDone{}, false
	}
	d := q[0]
	if len(q) == 1 {
		delete(realStash, p)
	} else {
		realStash[p] = q[1:]
	}
	return d, true
}

// SelRecv performs the receive of the chosen select clause.
func SelRecv[T any](ch <-chan T) T {
	v, _ := SelRecv2(ch)
	return v
}

func SelRecv2[T any](ch <-chan T) (T, bool) {
	s, mode := cur()
	if mode == modeSched {
		t := s.cur
		if op := t.selHand; op != nil {
			t.selHand = nil
			if !op.handOK || op.handVal == nil {
				var z T
				if op.handOK {
					return z, true
				}
				return z, false
			}
			return op.handVal.(T), true
		}
	} else if d, done := realTake(rchanPtr(ch)); done {
		var z T
		if d.val != nil {
			z = d.val.(T)
		}
		return z, d.ok
	}
	v, ok := <-ch
	return v, ok
}

// SelSend performs the send of the chosen select clause.
func SelSend[T any](ch chan<- T, v T) {
	s, mode := cur()
	if mode == modeSched {
		t := s.cur
		if op := t.selHand; op != nil {
			t.selHand = nil
			return // value was handed over directly
		}
	} else if _, done := realTake(schanPtr(ch)); done {
		return // reflect.Select has sent it
	}
	ch <- v
}

// afterRendezvous is the scheduling point right after an unbuffered hand-off:
// both parties are runnable and either may proceed first.
func (s *Sched) afterRendezvous() {
	s.point(&Op{Kind: "after-rendezvous"})
	s.event(0x210, nil, true)
}

// SortedKeys replaces the iteration order of `range` over a map with string keys in instrumented code: Go's
// order is random, which would make statement-granularity schedules irreproducible.
func SortedKeys[M ~map[K]V, K ~string, V any](m M) []K {
	ks := make([]K, 0, len(m))
	for k := range m {
		ks = append(ks, k)
	}
	sort.Slice(ks, func(i, j int) bool { return ks[i] < ks[j] })
	return ks
}
