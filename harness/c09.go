package harness

import (
	"fmt"
	"strings"
	"sync"
	"time"

	"github.com/fluffle/goirc/client"

	"verif/explore"
	"verif/vx"
)

// C09: outgoing lines reach the server in order, once each.

type c09Params struct {
	Senders  int           // concurrent user tasks
	Lines    int           // lines per user task
	Events   int           // incoming events, each answered by a foreground handler...
	HLines   int           // ...with this many lines
	Slow     bool          // server reads slowly: 64-byte pipe drained line by line by a server task
	ChanCap  int           // 0 real (32) | 1 | 2
	Overlap  bool          // senders start while the registration lines are still in flight
	Pings    int           // server PINGs arriving meanwhile (answered by the built-in handler)
	HPong    bool          // the foreground handler sends a PONG of its own between its first and second line
	Quit     bool          // sender 0 says QUIT after its lines (the server goes on reading and does not hang up): everything queued before it is still written
	Timeout0 bool          // Config.Timeout = 0 ("wait indefinitely")
	Pause    time.Duration // > 0: the server does not read at all for this long after the registration (longer than any Config.Timeout), then reads everything
	SrvErr   bool          // the server sends an ERROR line (and keeps the connection open) while the senders are at work
}

func (p c09Params) name() string {
	n := fmt.Sprintf("sendorder/senders=%dx%d/events=%dx%d/slow=%v/cap=%d/overlap=%v", p.Senders, p.Lines, p.Events, p.HLines, p.Slow, p.ChanCap, p.Overlap)
	if p.Pings > 0 || p.HPong {
		n += fmt.Sprintf("/pings=%d/hpong=%v", p.Pings, p.HPong)
	}
	if p.SrvErr {
		n += "/server-error-line"
	}
	if p.Timeout0 {
		n += "/timeout=0"
	}
	if p.Quit {
		n += "/then-quit"
	}
	if p.Pause > 0 {
		n += fmt.Sprintf("/server-pause=%s", p.Pause)
	}
	return n
}

// every line carries bytes that make "byte for byte" observable: format verbs, control bytes, quotes,
// backslashes, UTF-8, NUL; every third line is long
const c09Special = "100%s %d %% %v %! tab\there \x01x\x01 \"q\" \\ back h\u00e9llo \u2603 \x00nul"

func c09Text(who string, i int) string {
	t := fmt.Sprintf("%s-%d %s", who, i, c09Special)
	if i%3 == 2 {
		t += " " + strings.Repeat("long-", 60)
	}
	return t
}

func c09Scenario(p c09Params) *explore.Scenario {
	sc := &explore.Scenario{
		Family: "sendorder",
		Name:   p.name(),
		Params: map[string]interface{}{"senders": p.Senders, "lines": p.Lines, "events": p.Events, "hlines": p.HLines, "slow": p.Slow, "chancap": p.ChanCap, "overlap": p.Overlap, "pings": p.Pings, "hpong": p.HPong, "server_error": p.SrvErr, "timeout0": p.Timeout0, "pause": p.Pause.String(), "quit": p.Quit},
		Opt:    vx.Options{ChanCap: p.ChanCap, MaxSteps: 40000, Horizon: 24 * time.Hour},
	}
	total := 2 + p.Senders*p.Lines + p.Events*p.HLines + p.Pings
	if p.HPong {
		total += p.Events
	}
	if p.Quit {
		total++
	}
	sc.Main = func(env *vx.Env) {
		c := NewClient("me", func(cfg *client.Config) {
			if p.Timeout0 {
				cfg.Timeout = 0
			}
		})
		c.HandleFunc("PRIVMSG", func(conn *client.Conn, line *client.Line) {
			for i := 0; i < p.HLines; i++ {
				if i%2 == 0 {
					conn.Privmsg("#c", c09Text("h-"+line.Text(), i))
				} else {
					conn.Raw("PRIVMSG #c :" + c09Text("h-"+line.Text(), i))
				}
				if i == 0 && p.HPong {
					conn.Pong("hp-" + line.Text())
				}
			}
		})
		var vc *vx.Conn
		env.ConnSetup = func(x *vx.Conn) {
			vc = x
			if p.Slow {
				x.PipeCap = 64
			}
		}
		if err := c.Connect(); err != nil {
			return
		}
		if !p.Overlap {
			vx.Quiesce()
		}
		if p.Pause > 0 {
			vc.StallWrites(1)
			env.Go("server-resumes", func() {
				vx.Sleep(p.Pause)
				vc.StallWrites(0)
			})
		}
		if p.Slow {
			env.Go("server-reader", func() {
				for n := 0; n < total; n++ {
					if _, ok := vc.ReadLine(); !ok {
						return
					}
				}
			})
		}
		done := vx.NewCounter("senders-done")
		for s := 0; s < p.Senders; s++ {
			s := s
			env.Go(fmt.Sprintf("sender%d", s), func() {
				for i := 0; i < p.Lines; i++ {
					if (s+i)%2 == 0 {
						c.Raw("PRIVMSG #c :" + c09Text(fmt.Sprintf("u%d", s), i))
					} else {
						c.Privmsg("#c", c09Text(fmt.Sprintf("u%d", s), i))
					}
				}
				if p.Quit && s == 0 {
					c.Quit("done for today")
				}
				done.Add(1)
			})
		}
		if p.Events > 0 {
			env.Go("server-events", func() {
				for e := 0; e < p.Events; e++ {
					vc.SendLines(fmt.Sprintf(":o!u@h PRIVMSG #c :e%d", e))
				}
			})
		}
		if p.SrvErr {
			vc.SendLines("ERROR :Closing Link: me[host] (this server only says so)", ":irc.example NOTICE me :*** You are still here")
			if !p.Overlap {
				vx.Quiesce()
			}
		}
		if p.Pings > 0 {
			env.Go("server-pings", func() {
				for i := 0; i < p.Pings; i++ {
					vc.SendLines(fmt.Sprintf("PING :p%d", i))
				}
			})
		}
		done.WaitFor(p.Senders)
		if p.Pause > 0 {
			vx.Sleep(p.Pause)
		}
		vx.Quiesce()
		vx.Observe("ev", fmt.Sprintf("end connected=%v", c.Connected()))
	}
	sc.Check = func(o *vx.Outcome) []explore.Finding {
		if fs := stdOutcome(o); fs != nil {
			return fs
		}
		var fs []explore.Finding
		if len(o.Conns) != 1 {
			return []explore.Finding{{Oracle: "no-connection", Msg: "no socket"}}
		}
		tr := o.Conns[0].Transcript()
		bad := func(id, msg string) {
			fs = append(fs, explore.Finding{Oracle: id, Msg: msg + " :: wire=" + Q(tr)})
		}
		if !strings.HasSuffix(tr, "\r\n") && tr != "" {
			bad("partial-line", "the wire ends in the middle of a line although the client is idle")
		}
		lines := o.Conns[0].Lines()
		// expected multiset
		want := map[string]int{} // the registration lines are C18's business; here only their relative order
		for s := 0; s < p.Senders; s++ {
			for i := 0; i < p.Lines; i++ {
				want["PRIVMSG #c :"+c09Text(fmt.Sprintf("u%d", s), i)]++
			}
		}
		for e := 0; e < p.Events; e++ {
			for i := 0; i < p.HLines; i++ {
				want["PRIVMSG #c :"+c09Text(fmt.Sprintf("h-e%d", e), i)]++
			}
		}
		for i := 0; i < p.Pings; i++ {
			want[fmt.Sprintf("PONG :p%d", i)]++
		}
		if p.Quit {
			want["QUIT :done for today"]++
		}
		if p.HPong {
			for e := 0; e < p.Events; e++ {
				want[fmt.Sprintf("PONG :hp-e%d", e)]++
			}
		}
		for i, l := range lines {
			lines[i] = NormLine(l)
		}
		got := map[string]int{}
		for _, l := range lines {
			if strings.HasPrefix(l, "NICK ") || strings.HasPrefix(l, "USER ") {
				continue
			}
			got[l]++
		}
		for l, n := range want {
			if got[l] < n {
				bad("line-lost", fmt.Sprintf("line %q was handed to the client but never written (connection still up)", l))
			} else if got[l] > n {
				bad("line-duplicated", fmt.Sprintf("line %q written %d times", l, got[l]))
			}
		}
		for l := range got {
			if want[l] == 0 {
				bad("line-corrupted", fmt.Sprintf("line %q on the wire was never issued", l))
			}
		}
		// per-sender order
		last := map[string]int{}
		for _, l := range lines {
			var who string
			var s, i, e int
			if n, _ := fmt.Sscanf(l, "PRIVMSG #c :u%d-%d ", &s, &i); n == 2 {
				who = fmt.Sprintf("sender%d", s)
			} else if n, _ := fmt.Sscanf(l, "PRIVMSG #c :h-e%d-%d ", &e, &i); n == 2 {
				who = fmt.Sprintf("handler-e%d", e)
			} else {
				continue
			}
			if prev, ok := last[who]; ok && i < prev {
				bad("order", fmt.Sprintf("lines of %s are out of order on the wire (%d after %d)", who, i, prev))
			}
			last[who] = i
		}
		// the handler's own PONG sits between its first and second line
		if p.HPong && p.HLines >= 2 {
			for e := 0; e < p.Events; e++ {
				pos := map[string]int{}
				for j, l := range lines {
					pos[l] = j + 1
				}
				a, b, c := pos["PRIVMSG #c :"+c09Text(fmt.Sprintf("h-e%d", e), 0)], pos[fmt.Sprintf("PONG :hp-e%d", e)], pos["PRIVMSG #c :"+c09Text(fmt.Sprintf("h-e%d", e), 1)]
				if a > 0 && b > 0 && c > 0 && !(a < b && b < c) {
					bad("order", fmt.Sprintf("the handler for event e%d issued line 0, a PONG, line 1 in this order but the wire has them at positions %d, %d, %d", e, a, b, c))
				}
			}
		}
		// registration order (same goroutine: the caller of Connect)
		ni, ui := -1, -1
		for j, l := range lines {
			if l == "NICK me" {
				ni = j
			}
			if strings.HasPrefix(l, "USER ") {
				ui = j
			}
		}
		if ni >= 0 && ui >= 0 && ui < ni {
			bad("order", "USER was written before NICK although issued after it by the same goroutine")
		}
		ev := o.Log("ev")
		if len(ev) == 0 || ev[len(ev)-1] != "end connected=true" {
			bad("connection-dropped", "the connection went down during the scenario")
		}
		return fs
	}
	return sc
}

// ---------------------------------------------------------------- concurrent senders of messages that are split

// c09SplitCall issues sender s's k-th message: a different command method and target per sender, a text of about
// 150 bytes, split into several lines by SplitLen = 60.
func c09SplitCall(c *client.Conn, s, k int) { c09SplitCallM(c, s, k, s%4) }

func c09SplitCallM(c *client.Conn, s, k, method int) {
	text := fmt.Sprintf("s%d-m%d ", s, k) + strings.Repeat(fmt.Sprintf("w%d%d ", s, k), 30)
	switch method {
	case 0:
		c.Privmsg(fmt.Sprintf("#c%d", s), text)
	case 1:
		c.Notice(fmt.Sprintf("nick%d", s), text)
	case 2:
		c.Ctcp(fmt.Sprintf("#c%d", s), "ACTION", text)
	case 3:
		c.CtcpReply(fmt.Sprintf("nick%d", s), "FINGER", text)
	}
}

func c09SplitScenario(senders, msgs, chanCap int) *explore.Scenario {
	return c09SplitScenarioM(senders, msgs, chanCap, -1)
}

// c09SplitScenarioM: method >= 0 makes every sender use that one command method (to its own target), after a
// warm-up message of the same method from the main task (so that whatever the method keeps between calls exists).
func c09SplitScenarioM(senders, msgs, chanCap, method int) *explore.Scenario {
	sc := &explore.Scenario{
		Family: "sendsplit",
		Name:   fmt.Sprintf("sendsplit/senders=%dx%d/cap=%d", senders, msgs, chanCap),
		Params: map[string]interface{}{"senders": senders, "messages": msgs, "chancap": chanCap, "method": method},
		Opt:    vx.Options{ChanCap: chanCap, MaxSteps: 60000},
	}
	call := c09SplitCall
	if method >= 0 {
		sc.Name += fmt.Sprintf("/method=%d", method)
		call = func(c *client.Conn, s, k int) { c09SplitCallM(c, s, k, method) }
	}
	mod := func(cfg *client.Config) { cfg.SplitLen = 60 }
	sc.Main = func(env *vx.Env) {
		c := NewClient("me", mod)
		if err := c.Connect(); err != nil {
			return
		}
		vx.Quiesce()
		if method >= 0 {
			call(c, 9, 9)
			vx.Quiesce()
		}
		done := vx.NewCounter("senders-done")
		for s := 0; s < senders; s++ {
			s := s
			env.Go(fmt.Sprintf("sender%d", s), func() {
				for k := 0; k < msgs; k++ {
					call(c, s, k)
				}
				done.Add(1)
			})
		}
		done.WaitFor(senders)
		vx.Quiesce()
		vx.Observe("ev", fmt.Sprintf("end connected=%v", c.Connected()))
	}
	// what each sender's messages look like on the wire when it is alone: a sequential run of the same calls
	var once sync.Once
	var expect [][]string
	sc.Check = func(o *vx.Outcome) []explore.Finding {
		if fs := stdOutcome(o); fs != nil {
			return fs
		}
		once.Do(func() {
			for s := 0; s < senders; s++ {
				s := s
				po := RunSeq(vx.Options{}, func(env *vx.Env) {
					sess, err := StartSession(env, "me", mod, nil)
					if err != nil {
						return
					}
					n := len(sess.Wire())
					for k := 0; k < msgs; k++ {
						call(sess.C, s, k)
					}
					vx.Quiesce()
					vx.Observe("pilot", strings.Join(sess.WireSince(n), "\n"))
					sess.End()
				})
				var ls []string
				if p := po.Log("pilot"); len(p) == 1 {
					ls = strings.Split(p[0], "\n")
				}
				expect = append(expect, ls)
			}
		})
		if len(o.Conns) != 1 {
			return []explore.Finding{{Oracle: "no-connection", Msg: "no socket"}}
		}
		var fs []explore.Finding
		tr := o.Conns[0].Transcript()
		bad := func(id, msg string) {
			fs = append(fs, explore.Finding{Oracle: id, Msg: msg + " :: wire=" + Q(tr)})
		}
		owner := map[string]int{}
		for s, ls := range expect {
			if len(ls) < 2*msgs {
				return []explore.Finding{{Oracle: "pilot-failed", Msg: fmt.Sprintf("the sequential run of sender %d produced %d lines; the messages were meant to be split", s, len(ls))}}
			}
			for _, l := range ls {
				owner[l] = s
			}
		}
		next := make([]int, senders)
		for _, l := range o.Conns[0].Lines() {
			if strings.HasPrefix(l, "NICK ") || strings.HasPrefix(l, "USER ") || strings.Contains(l, "s9-m9") || strings.Contains(l, "w99 ") {
				continue // registration, warm-up
			}
			s, ok := owner[l]
			switch {
			case !ok:
				bad("line-corrupted", fmt.Sprintf("line %q on the wire is not one any sender's messages are split into", l))
			case next[s] < len(expect[s]) && expect[s][next[s]] == l:
				next[s]++
			default:
				bad("order", fmt.Sprintf("line %q of sender %d is duplicated or out of order (expected next: %q)", l, s, append(expect[s], "<nothing more>")[next[s]]))
			}
			if len(fs) > 0 {
				return fs
			}
		}
		for s := range expect {
			if next[s] != len(expect[s]) {
				bad("line-lost", fmt.Sprintf("sender %d: %d of its %d lines reached the wire (connection still up)", s, next[s], len(expect[s])))
			}
		}
		ev := o.Log("ev")
		if len(ev) == 0 || ev[len(ev)-1] != "end connected=true" {
			bad("connection-dropped", "the connection went down during the scenario")
		}
		return fs
	}
	return sc
}

// c09StmtScenario: two senders, one short message each, with a scheduling point before EVERY statement of package
// client while they are at it (no state cache: plain memory is not part of the state key). Whatever a command
// method assembles in memory that the other call can reach shows up as a corrupted, lost or duplicated line.
func c09StmtScenario(m0, m1 int) *explore.Scenario {
	sc := &explore.Scenario{
		Family: "sendstmt",
		Name:   fmt.Sprintf("sendstmt/methods=%d+%d", m0, m1),
		Params: map[string]interface{}{"method0": m0, "method1": m1},
		Opt:    vx.Options{MaxSteps: 60000},
	}
	call := func(c *client.Conn, s int) {
		text := fmt.Sprintf("s%d says hello %%s", s)
		m := m0
		if s == 1 {
			m = m1
		}
		switch m {
		case 0:
			c.Privmsg(fmt.Sprintf("#c%d", s), text)
		case 1:
			c.Notice(fmt.Sprintf("nick%d", s), text)
		case 2:
			c.Ctcp(fmt.Sprintf("#c%d", s), "ACTION", text)
		case 3:
			c.CtcpReply(fmt.Sprintf("nick%d", s), "FINGER", text)
		case 4:
			c.Action(fmt.Sprintf("#c%d", s), text)
		case 5:
			c.Join(fmt.Sprintf("#c%d", s), "key")
		case 6:
			c.Mode(fmt.Sprintf("#c%d", s), "+o", fmt.Sprintf("nick%d", s))
		case 7:
			c.Privmsgf(fmt.Sprintf("#c%d", s), "%s-%d", "formatted", s)
		}
	}
	sc.Main = func(env *vx.Env) {
		c := NewClient("me", nil)
		if err := c.Connect(); err != nil {
			return
		}
		vx.Quiesce()
		call(c, 9) // whatever the method keeps between calls exists
		vx.Quiesce()
		vx.StmtAllMode(true)
		done := vx.NewCounter("senders-done")
		for s := 0; s < 2; s++ {
			s := s
			env.Go(fmt.Sprintf("sender%d", s), func() { call(c, s); done.Add(1) })
		}
		done.WaitFor(2)
		vx.StmtAllMode(false)
		vx.Quiesce()
		vx.Observe("ev", fmt.Sprintf("end connected=%v", c.Connected()))
	}
	var once sync.Once
	var expect [2][]string
	sc.Check = func(o *vx.Outcome) []explore.Finding {
		if fs := stdOutcome(o); fs != nil {
			return fs
		}
		once.Do(func() {
			for s := 0; s < 2; s++ {
				s := s
				po := RunSeq(vx.Options{}, func(env *vx.Env) {
					sess, err := StartSession(env, "me", nil, nil)
					if err != nil {
						return
					}
					n := len(sess.Wire())
					call(sess.C, s)
					vx.Quiesce()
					vx.Observe("pilot", strings.Join(sess.WireSince(n), "\n"))
					sess.End()
				})
				if p := po.Log("pilot"); len(p) == 1 && p[0] != "" {
					expect[s] = strings.Split(p[0], "\n")
				}
			}
		})
		if len(o.Conns) != 1 || len(expect[0]) == 0 || len(expect[1]) == 0 {
			return []explore.Finding{{Oracle: "pilot-failed", Msg: "no socket, or the sequential runs wrote nothing"}}
		}
		want := map[string]int{}
		for s := 0; s < 2; s++ {
			for _, l := range expect[s] {
				want[l]++
			}
		}
		var fs []explore.Finding
		tr := o.Conns[0].Transcript()
		got := map[string]int{}
		seenWarm := false
		for _, l := range o.Conns[0].Lines() {
			if strings.HasPrefix(l, "NICK ") || strings.HasPrefix(l, "USER ") {
				continue
			}
			if !seenWarm && (strings.Contains(l, "s9 says") || strings.Contains(l, "#c9") || strings.Contains(l, "nick9") || strings.Contains(l, "formatted-9")) {
				continue // warm-up call (possibly several lines)
			}
			got[l]++
		}
		for l, n := range want {
			if got[l] != n {
				fs = append(fs, explore.Finding{Oracle: "line-lost-or-duplicated", Msg: fmt.Sprintf("line %q is on the wire %d times, expected %d :: wire=%s", l, got[l], n, Q(tr))})
				break
			}
		}
		for l := range got {
			if want[l] == 0 {
				fs = append(fs, explore.Finding{Oracle: "line-corrupted", Msg: fmt.Sprintf("line %q on the wire is not one either call produces on its own :: wire=%s", l, Q(tr))})
				break
			}
		}
		return fs
	}
	return sc
}

// c09TwoClientsScenario: two clients in one process, each with one sender of one line, under statement-granularity
// interleaving of package client: whatever the library keeps at package level must not carry bytes from one
// connection to the other.
func c09TwoClientsScenario() *explore.Scenario {
	sc := &explore.Scenario{
		Family: "sendstmt",
		Name:   "sendstmt/two-clients",
		Params: map[string]interface{}{"clients": 2},
		Opt:    vx.Options{MaxSteps: 60000},
	}
	lines := [2]string{"PRIVMSG #a :from the first client, a line that is a good deal longer than the other one", "NOTICE b :second"}
	sc.Main = func(env *vx.Env) {
		var cs [2]*client.Conn
		for i := range cs {
			cs[i] = NewClient(fmt.Sprintf("me%d", i), nil)
			if err := cs[i].Connect(); err != nil {
				return
			}
			vx.Quiesce()
			cs[i].Raw("PING :warm-up")
			vx.Quiesce()
		}
		vx.StmtAllMode(true)
		done := vx.NewCounter("senders-done")
		for i := range cs {
			i := i
			env.Go(fmt.Sprintf("sender%d", i), func() { cs[i].Raw(lines[i]); done.Add(1) })
		}
		done.WaitFor(2)
		vx.StmtAllMode(false)
		vx.Quiesce()
		vx.Observe("ev", fmt.Sprintf("end connected=%v,%v", cs[0].Connected(), cs[1].Connected()))
	}
	sc.Check = func(o *vx.Outcome) []explore.Finding {
		if fs := stdOutcome(o); fs != nil {
			return fs
		}
		if len(o.Conns) != 2 {
			return []explore.Finding{{Oracle: "no-connection", Msg: "not two sockets"}}
		}
		var fs []explore.Finding
		for i, vc := range o.Conns {
			var got []string
			for _, l := range vc.Lines() {
				if strings.HasPrefix(l, "NICK ") || strings.HasPrefix(l, "USER ") || l == "PING :warm-up" {
					continue
				}
				got = append(got, l)
			}
			if len(got) != 1 || got[0] != lines[i] {
				fs = append(fs, explore.Finding{Oracle: "line-corrupted", Msg: fmt.Sprintf("client %d sent %q; its connection carries %s :: wire=%s", i, lines[i], joinQ(got), Q(vc.Transcript()))})
			}
		}
		if ev := o.Log("ev"); len(ev) == 0 || ev[len(ev)-1] != "end connected=true,true" {
			fs = append(fs, explore.Finding{Oracle: "connection-dropped", Msg: "a connection went down during the scenario"})
		}
		return fs
	}
	return sc
}

// c09LadderSession hands Raw one line of each of the given lengths over one connection and compares the wire.
func c09LadderSession(lens []int) (oracle, msg string) {
	line := func(n int) string {
		h := fmt.Sprintf("L%d:", n)
		if n <= len(h) {
			return h[:n]
		}
		return h + strings.Repeat("abcdefghij", n/10+1)[:n-len(h)]
	}
	var want []string
	for _, n := range lens {
		want = append(want, line(n))
	}
	return c09LinesSession(want)
}

// c09LinesSession hands the given lines to Raw over one connection and compares the wire byte for byte.
func c09LinesSession(want []string) (oracle, msg string) {
	var got string
	o := RunSeq(vx.Options{}, func(env *vx.Env) {
		s, err := StartSession(env, "me", nil, nil)
		if err != nil {
			return
		}
		n0 := len(s.VC.Transcript())
		for _, l := range want {
			s.C.Raw(l)
		}
		vx.Quiesce()
		got = s.VC.Transcript()[n0:]
		s.End()
	})
	exp := strings.Join(want, "\r\n") + "\r\n"
	if o.Kind != "ok" {
		return o.Kind, "session outcome " + o.Kind
	}
	if got == exp {
		return "", ""
	}
	k := 0
	for k < len(got) && k < len(exp) && got[k] == exp[k] {
		k++
	}
	at := strings.Count(exp[:k], "\n")
	if at >= len(want) {
		at = len(want) - 1
	}
	return "not-byte-for-byte", fmt.Sprintf("the bytes on the wire differ from the lines handed to Raw from byte %d on (in the line of %d bytes): got %s, expected %s", k, len(want[at]), Q(got[k:minInt(len(got), k+40)]), Q(exp[k:minInt(len(exp), k+40)]))
}

// c09LadderJob: "byte for byte" for every line length: one sender, Raw lines of every length from 1 to 1300 and
// around the 4096 / 8192-byte buffer sizes, 100 per session.
func c09LadderJob() Job {
	return Job{Name: "sendorder/length-ladder", Cost: 20, Run: func(jc *JobCtx) *JobResult {
		e := NewEnum("sendorder/length-ladder")
		var lens []int
		for n := 1; n <= 1300; n++ {
			lens = append(lens, n)
		}
		for _, c := range []int{2048, 4096, 8192} {
			for n := c - 6; n <= c+6; n++ {
				lens = append(lens, n)
			}
		}
		// lines that begin or end in white space, or consist of it (the bytes are the caller's, all of them)
		edged := []string{" lead", "trail ", "  both  ", "\ttab\t", "TOPIC #c : ", "PRIVMSG #c :x  ", "PRIVMSG #c : indented", " ", "\t", "\u00a0nbsp\u00a0", "\u0085nel\u0085", "\v\f", "x\x00",
			// bytes that are not UTF-8 (Latin-1 text, a truncated sequence, raw high bytes), and the empty line
			"caf\xe9 au lait", "\xff\xfe", "\xe2\x82", "\x80", "", "after the empty line"}
		for _, l := range edged {
			e.Case("edged " + Q(l))
		}
		if oracle, msg := c09LinesSession(edged); oracle != "" {
			e.Fail("sendorder", oracle, "Raw lines with white space at the edges", msg, map[string]interface{}{"lines": edged})
		}
		for i := 0; i < len(lens); i += 100 {
			j := i + 100
			if j > len(lens) {
				j = len(lens)
			}
			for _, n := range lens[i:j] {
				e.Case(fmt.Sprint(n))
			}
			if oracle, msg := c09LadderSession(lens[i:j]); oracle != "" {
				e.Fail("sendorder", oracle, fmt.Sprintf("Raw lines of lengths %d..%d", lens[i], lens[j-1]), msg, map[string]interface{}{"ladder": lens[i:j]})
			}
			if jc.Expired() {
				e.Incomplete("deadline")
				break
			}
		}
		return e.Done()
	}}
}

func init() {
	prev := replayInput
	replayInput = func(v *Violation) int {
		if ls, ok := v.Params["lines"].([]interface{}); ok && v.Property == "C09" {
			var want []string
			for _, x := range ls {
				s, _ := x.(string)
				want = append(want, s)
			}
			oracle, msg := c09LinesSession(want)
			if oracle != "" {
				fmt.Printf("FINDING oracle=%s %s\n", oracle, msg)
			}
			if oracle == v.Oracle {
				fmt.Println("REPRODUCED")
				return 1
			}
			fmt.Println("NOT REPRODUCED")
			return 0
		}
		l, ok := v.Params["ladder"].([]interface{})
		if v.Property != "C09" || !ok {
			if prev != nil {
				return prev(v)
			}
			fmt.Println("violation has no schedule; input:", v.Input)
			return 0
		}
		var lens []int
		for _, x := range l {
			f, _ := x.(float64)
			lens = append(lens, int(f))
		}
		oracle, msg := c09LadderSession(lens)
		if oracle != "" {
			fmt.Printf("FINDING oracle=%s %s\n", oracle, msg)
		}
		if oracle == v.Oracle {
			fmt.Println("REPRODUCED")
			return 1
		}
		fmt.Println("NOT REPRODUCED")
		return 0
	}
	Register(&Prop{
		ID:   "C09",
		Rule: "2-3 concurrent user senders x 1-3 lines (alternating Raw / Privmsg), optionally a foreground handler answering 1-2 incoming events with 1-2 lines, server reading at once or through a 64-byte pipe drained line by line by a server task, queue capacity 32 / 2 / 1, senders started after or during registration; 2-4 concurrent senders of messages that SplitLen = 60 splits into 3-4 lines each (Privmsg, Notice, Ctcp, CtcpReply to different targets, mixed or all senders using the same method after a warm-up message; expected lines = what the same calls produce alone); one sender with Raw lines of every length 1..1300 and around 2048 / 4096 / 8192 bytes compared byte for byte, plus lines that begin / end in or consist of white space, lines with bytes that are not UTF-8, and the empty line; a server ERROR line that is not followed by a hang-up; Config.Timeout = 0; QUIT said by a sender while its and other senders' lines are still queued (the server does not hang up); a server that stops reading for five virtual minutes (longer than Config.Timeout) while senders are up to 40 lines ahead of it; two senders with one message each under statement-granularity interleaving of package client (seven method pairs, K<=2, no state cache), and two clients in one process with one line each under the same interleaving; small harnesses are explored without any deviation bound (state cache), the rest within K<=2-3; distinct = distinct wire transcripts per scenario",
		Assumptions: []string{
			"interleavings at synchronisation/channel/socket granularity (DESIGN.md 3.8)",
			"unbounded mode relies on the happens-before state cache; cache-on/off agreement is cross-checked at a small bound",
		},
		Jobs: func(tier string) []Job {
			var jobs []Job
			unb := []explore.Budget{{K: -1, E: -1}}
			b2 := []explore.Budget{{0, 0}, {1, 0}, {2, 0}}
			b3 := []explore.Budget{{0, 0}, {1, 0}, {2, 0}, {3, 0}}
			add := func(p c09Params, bs []explore.Budget, variants []int, cost int, cross bool) {
				spec := ExploreSpec{Sc: c09Scenario(p), Variants: variants, Budgets: bs, Cache: true}
				if cross {
					spec.CrossChk = &explore.Budget{K: 2}
				}
				jobs = append(jobs, ExploreJob("C09", spec, cost))
			}
			// unbounded: every interleaving
			add(c09Params{Senders: 2, Lines: 1}, unb, []int{1}, 50, true)
			add(c09Params{Senders: 2, Lines: 1, ChanCap: 1}, unb, []int{1}, 50, false)
			add(c09Params{Senders: 2, Lines: 1, Slow: true, ChanCap: 1}, unb, []int{1}, 60, false)
			add(c09Params{Senders: 2, Lines: 2}, unb, []int{1}, 500, false)
			add(c09Params{Senders: 2, Lines: 2, Slow: true}, unb, []int{1}, 500, false)
			add(c09Params{Senders: 2, Lines: 2, ChanCap: 1}, unb, []int{1}, 500, false)
			if tier == "thorough" {
				add(c09Params{Senders: 2, Lines: 2, Slow: true, ChanCap: 1}, unb, []int{1}, 500, false)
				add(c09Params{Senders: 2, Lines: 3, Slow: true}, unb, []int{1}, 500, false)
				add(c09Params{Senders: 3, Lines: 1}, unb, []int{1}, 500, false)
				add(c09Params{Senders: 2, Lines: 1, Overlap: true}, unb, []int{1}, 500, false)
			}
			// Config.Timeout = 0, and a server that stops reading for five minutes while a sender is 40 lines ahead of it
			add(c09Params{Senders: 2, Lines: 2, Timeout0: true}, b2, []int{1, 2, 3}, 60, false)
			add(c09Params{Senders: 2, Lines: 2, Timeout0: true, Slow: true, ChanCap: 1}, b2, []int{1, 2, 3}, 60, false)
			add(c09Params{Senders: 1, Lines: 40, Pause: 5 * time.Minute}, []explore.Budget{{0, 0}, {1, 0}}, []int{1, 2, 3}, 80, false)
			// QUIT said while lines are still queued, to a server that goes on reading and does not hang up
			add(c09Params{Senders: 2, Lines: 3, Quit: true, Slow: true, ChanCap: 2}, b2, []int{1, 2, 3}, 60, false)
			add(c09Params{Senders: 1, Lines: 40, Quit: true, Pause: 5 * time.Minute}, []explore.Budget{{0, 0}}, []int{1, 2, 3}, 80, false)
			add(c09Params{Senders: 2, Lines: 3, Pause: 5 * time.Minute, ChanCap: 2, Events: 1, HLines: 2}, b2, []int{1, 2, 3}, 60, false)
			bs := b2
			if tier == "thorough" {
				bs = b3
			}
			for _, cap := range []int{0, 2, 1} {
				for _, slow := range []bool{false, true} {
					add(c09Params{Senders: 2, Lines: 2, Slow: slow, ChanCap: cap}, bs, []int{1, 2, 3}, 20, false)
					add(c09Params{Senders: 3, Lines: 2, Slow: slow, ChanCap: cap}, bs, []int{1, 2, 3}, 30, false)
					add(c09Params{Senders: 2, Lines: 3, Events: 1, HLines: 2, Slow: slow, ChanCap: cap}, bs, []int{1, 2, 3}, 30, false)
					add(c09Params{Senders: 1, Lines: 2, Events: 2, HLines: 2, Slow: slow, ChanCap: cap}, bs, []int{1, 2, 3}, 30, false)
				}
				add(c09Params{Senders: 2, Lines: 2, ChanCap: cap, Overlap: true}, bs, []int{1, 2, 3}, 30, false)
			}
			// server PINGs answered by the built-in handler while others are sending; a handler mixing lines and a PONG
			for _, cap := range []int{0, 1} {
				for _, slow := range []bool{false, true} {
					add(c09Params{Senders: 2, Lines: 2, Slow: slow, ChanCap: cap, Pings: 2}, bs, []int{1, 2, 3}, 30, false)
					add(c09Params{Senders: 1, Lines: 2, Events: 2, HLines: 2, Slow: slow, ChanCap: cap, Pings: 1, HPong: true}, bs, []int{1, 2, 3}, 30, false)
				}
			}
			// concurrent senders whose messages are split into several lines (different command methods and targets)
			if tier == "thorough" {
				jobs = append(jobs, ExploreJob("C09", ExploreSpec{Sc: c09SplitScenario(2, 1, 0), Variants: []int{1}, Budgets: unb, Cache: true}, 600))
			} else {
				jobs = append(jobs, ExploreJob("C09", ExploreSpec{Sc: c09SplitScenario(2, 1, 0), Variants: []int{1, 2, 3}, Budgets: b3, Cache: true}, 100))
			}
			jobs = append(jobs, ExploreJob("C09", ExploreSpec{Sc: c09SplitScenario(2, 1, 1), Variants: []int{1, 2, 3}, Budgets: bs, Cache: true}, 30))
			jobs = append(jobs, ExploreJob("C09", ExploreSpec{Sc: c09SplitScenario(3, 2, 0), Variants: []int{1, 2, 3}, Budgets: b2, Cache: true}, 30))
			jobs = append(jobs, ExploreJob("C09", ExploreSpec{Sc: c09SplitScenario(4, 1, 2), Variants: []int{1, 2, 3}, Budgets: b2, Cache: true}, 30))
			for method := 0; method < 4; method++ {
				jobs = append(jobs, ExploreJob("C09", ExploreSpec{Sc: c09SplitScenarioM(2, 1, 1, method), Variants: []int{1, 2, 3}, Budgets: b2, Cache: true}, 30))
			}
			jobs = append(jobs, ExploreJob("C09", ExploreSpec{Sc: c09SplitScenarioM(3, 2, 2, 0), Variants: []int{1, 2, 3}, Budgets: b2, Cache: true}, 30))
			// statement-granularity interleaving of two command methods (no state cache)
			for _, pr := range [][2]int{{2, 3}, {0, 1}, {2, 2}, {0, 0}, {4, 7}, {5, 6}, {3, 3}} {
				jobs = append(jobs, ExploreJob("C09", ExploreSpec{Sc: c09StmtScenario(pr[0], pr[1]), Variants: []int{1, 2, 3}, Budgets: b2, Cache: false}, 40))
			}
			{
				jobs = append(jobs, ExploreJob("C09", ExploreSpec{Sc: c09TwoClientsScenario(), Variants: []int{1, 2, 3}, Budgets: b2, Cache: false}, 40))
			}
			jobs = append(jobs, c09LadderJob())
			// an ERROR line from a server that does not hang up afterwards: the connection is up, lines are still due
			add(c09Params{Senders: 2, Lines: 2, SrvErr: true}, b2, []int{1, 2, 3}, 20, false)
			add(c09Params{Senders: 1, Lines: 2, Events: 1, HLines: 2, Pings: 1, SrvErr: true, Overlap: true}, b2, []int{1, 2, 3}, 20, false)
			// many lines through the real queue: senders really block on the 32-slot queue when the server is slow
			add(c09Params{Senders: 2, Lines: 40, Slow: true}, []explore.Budget{{0, 0}, {1, 0}}, []int{1, 2, 3}, 60, false)
			return jobs
		},
	})
}
