package vx

import (
	"time"
)

// Virtual time: timers are delivered by the scheduler's clock, which by default
// only advances when no task can run.

type Timer struct {
	C     <-chan time.Time
	c     chan time.Time
	tm    *vtimer
	f     func()
	real  *time.Timer
	fired bool
}

func (s *Sched) timerChan(label string) chan time.Time {
	c := make(chan time.Time, 1)
	ci := s.chanInfo(chanPtr(c), label, c)
	_ = ci
	return c
}

func NewTimer(d time.Duration) *Timer {
	s, mode := cur()
	if mode != modeSched {
		rt := time.NewTimer(d)
		return &Timer{C: rt.C, real: rt}
	}
	t := &Timer{}
	t.c = s.timerChan("timer")
	t.C = t.c
	t.arm(s, d)
	return t
}

func (t *Timer) arm(s *Sched, d time.Duration) {
	t.fired = false
	t.tm = s.addTimer(d, "timer", func() {
		t.fired = true
		if t.f != nil {
			f := t.f
			nt := s.newTask(nil2(s), "AfterFunc", f)
			nt.Client = true
			return
		}
		select {
		case t.c <- Epoch.Add(s.now):
		default:
		}
	})
}

// timers fire outside any task; give AfterFunc tasks the root as canonical parent.
func nil2(s *Sched) *Task { return s.rootT }

func (t *Timer) Stop() bool {
	s, mode := cur()
	if t.real != nil {
		return t.real.Stop()
	}
	if mode != modeSched {
		return false
	}
	s.point(&Op{Kind: "Timer.Stop", Obj: &s.clock})
	s.event(0x301, &s.clock, true)
	was := !t.fired && !t.tm.stopped
	t.tm.stopped = true
	return was
}

func (t *Timer) Reset(d time.Duration) bool {
	s, mode := cur()
	if t.real != nil {
		return t.real.Reset(d)
	}
	if mode != modeSched {
		return false
	}
	s.point(&Op{Kind: "Timer.Reset", Obj: &s.clock})
	s.event(0x302^uint64(d)<<8, &s.clock, true)
	was := !t.fired && !t.tm.stopped
	t.tm.stopped = true
	t.arm(s, d)
	return was
}

func After(d time.Duration) <-chan time.Time {
	s, mode := cur()
	if mode != modeSched {
		return time.After(d)
	}
	s.event(0x303^uint64(d)<<8, &s.clock, false)
	return NewTimer(d).C
}

func AfterFunc(d time.Duration, f func()) *Timer {
	s, mode := cur()
	if mode != modeSched {
		rt := time.AfterFunc(d, f)
		return &Timer{real: rt}
	}
	t := &Timer{f: f}
	s.event(0x304^uint64(d)<<8, &s.clock, false)
	t.arm(s, d)
	return t
}

type Ticker struct {
	C       <-chan time.Time
	c       chan time.Time
	d       time.Duration
	tm      *vtimer
	stopped bool
	real    *time.Ticker
}

func NewTicker(d time.Duration) *Ticker {
	s, mode := cur()
	if mode != modeSched {
		rt := time.NewTicker(d)
		return &Ticker{C: rt.C, real: rt}
	}
	if d <= 0 {
		panic("non-positive interval for NewTicker")
	}
	t := &Ticker{d: d}
	t.c = s.timerChan("ticker")
	t.C = t.c
	s.event(0x305^uint64(d)<<8, &s.clock, false)
	t.arm(s)
	return t
}

func (t *Ticker) arm(s *Sched) {
	t.tm = s.addTimer(t.d, "ticker", func() {
		select {
		case t.c <- Epoch.Add(s.now):
		default:
		}
		if !t.stopped {
			t.arm(s)
		}
	})
}

func (t *Ticker) Stop() {
	s, mode := cur()
	if t.real != nil {
		t.real.Stop()
		return
	}
	if mode != modeSched {
		return
	}
	s.point(&Op{Kind: "Ticker.Stop", Obj: &s.clock})
	s.event(0x306, &s.clock, true)
	t.stopped = true
	t.tm.stopped = true
}

func (t *Ticker) Reset(d time.Duration) {
	s, mode := cur()
	if t.real != nil {
		t.real.Reset(d)
		return
	}
	if mode != modeSched {
		return
	}
	s.point(&Op{Kind: "Ticker.Reset", Obj: &s.clock})
	s.event(0x307^uint64(d)<<8, &s.clock, true)
	t.tm.stopped = true
	t.d = d
	t.arm(s)
}

func Tick(d time.Duration) <-chan time.Time {
	if d <= 0 {
		return nil
	}
	return NewTicker(d).C
}

// NowRead is time.Now() for instrumented code: a read of the clock.
func NowRead() time.Time {
	s, mode := cur()
	if mode == modeReal {
		return time.Now()
	}
	if mode == modeSched {
		s.event(0x308, &s.clock, false)
	}
	return Epoch.Add(s.now)
}
