package harness

import (
	"encoding/json"
	"flag"
	"fmt"
	"os"
	"strings"

	"verif/explore"
)

// WorkerMain is the entry point of the vcheck binary.
func WorkerMain() {
	spike := flag.String("spike", "", "run an ad-hoc exploration (debug)")
	flag.Parse()
	if *spike != "" {
		runSpike(*spike)
		return
	}
	fmt.Fprintln(os.Stderr, "nothing to do")
}

func runSpike(arg string) {
	var backlog, emit, k, e, cc, variant int
	cause := "close"
	cacheOn := true
	for _, kv := range strings.Split(arg, ",") {
		p := strings.SplitN(kv, "=", 2)
		if len(p) != 2 {
			continue
		}
		switch p[0] {
		case "backlog":
			fmt.Sscan(p[1], &backlog)
		case "emit":
			fmt.Sscan(p[1], &emit)
		case "k":
			fmt.Sscan(p[1], &k)
		case "e":
			fmt.Sscan(p[1], &e)
		case "cap":
			fmt.Sscan(p[1], &cc)
		case "v":
			fmt.Sscan(p[1], &variant)
		case "cause":
			cause = p[1]
		case "cache":
			cacheOn = p[1] == "1"
		}
	}
	if variant == 0 {
		variant = 1
	}
	sc := c07Scenario(c07Params{Backlog: backlog, Cause: cause, Emit: emit}, cc)
	if os.Getenv("TRACE") != "" {
		o, _ := explore.Replay(sc, variant, nil, nil, false, true)
		for _, l := range o.Trace {
			fmt.Println(l)
		}
		fmt.Println(o.Kind, o.BlockedSig())
		return
	}
	res := explore.Explore(sc, variant, explore.Budget{K: k, E: e}, explore.Config{Cache: cacheOn, DetCheck: 20})
	vs := res.Violations
	res.Violations = nil
	b, _ := json.Marshal(res)
	fmt.Println(string(b))
	for _, v := range vs {
		fmt.Printf("VIOL oracle=%s devs=%d replayed=%d msg=%s detail=%s\n", v.Oracle, v.Devs, v.Replayed, v.Msg, v.Detail)
	}
}
