// Package vnet replaces net.Dialer in instrumented code: a direct (proxy-less)
// dial goes to the in-memory network of the running scenario exactly like the
// dial through the registered proxy type does. The dialer's settings are kept so
// that a harness can look at them; nothing is resolved or opened for real.
package vnet

import (
	"context"
	"net"
	"syscall"
	"time"

	"verif/vx"
)

type Dialer struct {
	Timeout       time.Duration
	Deadline      time.Time
	LocalAddr     net.Addr
	DualStack     bool
	FallbackDelay time.Duration
	KeepAlive     time.Duration
	Resolver      *net.Resolver
	Cancel        <-chan struct{}
	Control       func(network, address string, c syscall.RawConn) error
}

func (d *Dialer) Dial(network, address string) (net.Conn, error) {
	return d.DialContext(context.Background(), network, address)
}

func (d *Dialer) DialContext(ctx context.Context, network, address string) (net.Conn, error) {
	if ctx == nil {
		panic("nil context")
	}
	if err := ctx.Err(); err != nil {
		return nil, &net.OpError{Op: "dial", Net: network, Err: err}
	}
	if !d.Deadline.IsZero() && !vx.Now().Before(d.Deadline) {
		// an absolute deadline that has passed (in virtual time): the dial fails at once, as net.Dialer's does
		return nil, &net.OpError{Op: "dial", Net: network, Err: errTimeout{}}
	}
	return vx.Dial(address)
}

type errTimeout struct{}

func (errTimeout) Error() string   { return "i/o timeout" }
func (errTimeout) Timeout() bool   { return true }
func (errTimeout) Temporary() bool { return true }
