package harness

import (
	"fmt"
	"sort"
	"strings"
	"sync"
	"time"

	"github.com/fluffle/goirc/client"
	"github.com/fluffle/goirc/state"

	"verif/explore"
	"verif/vx"
)

// C05: state tracking is applied before user handlers observe a line.

var c05Nicks = []string{"me", "me2", "a", "a2", "b"}
var c05Chans = []string{"#x", "#y"}

func privStr(p *state.ChanPrivs) string {
	if p == nil {
		return "nil"
	}
	return fmt.Sprintf("%v%v%v%v%v", b2i(p.Owner), b2i(p.Admin), b2i(p.Op), b2i(p.HalfOp), b2i(p.Voice))
}

func b2i(b bool) int {
	if b {
		return 1
	}
	return 0
}

func chanStr(c *state.Channel) string {
	if c == nil {
		return "-"
	}
	var ns []string
	for n, p := range c.Nicks {
		ns = append(ns, n+":"+privStr(p))
	}
	sort.Strings(ns)
	m := "nil"
	if c.Modes != nil {
		m = fmt.Sprintf("%+v", *c.Modes)
	}
	return fmt.Sprintf("%s|%s|%s|%s", c.Name, c.Topic, m, strings.Join(ns, ","))
}

func nickStr(n *state.Nick) string {
	if n == nil {
		return "-"
	}
	var cs []string
	for c, p := range n.Channels {
		cs = append(cs, c+":"+privStr(p))
	}
	sort.Strings(cs)
	m := "nil"
	if n.Modes != nil {
		m = fmt.Sprintf("%+v", *n.Modes)
	}
	return fmt.Sprintf("%s|%s|%s|%s|%s|%s", n.Nick, n.Ident, n.Host, n.Name, m, strings.Join(cs, ","))
}

// trackerVector is a vector of single, atomic tracker queries over the universe.
func trackerVector(st state.Tracker) []string {
	var v []string
	v = append(v, "Me="+st.Me().Nick)
	for _, c := range c05Chans {
		v = append(v, "chan "+c+"="+chanStr(st.GetChannel(c)))
	}
	for _, n := range c05Nicks {
		v = append(v, "nick "+n+"="+nickStr(st.GetNick(n)))
	}
	return v
}

var c05Prefix = []string{
	":me!ident@host JOIN #x",
	":irc.example 353 me = #x :@a me",
}

var c05Pool = map[string]string{
	"joinb":  ":b!ub@hb JOIN #x",
	"nicka":  ":a!ua@ha NICK a2",
	"opme":   ":a!ua@ha MODE #x +o me",
	"topic":  ":a!ua@ha TOPIC #x :new topic",
	"parta":  ":a!ua@ha PART #x",
	"kickme": ":a!ua@ha KICK #x me :bye",
	"quita":  ":a!ua@ha QUIT :gone",
	"nickme": ":me!ident@host NICK me2",
	"who":    ":irc.example 352 me #x ua2 ha2 irc.example a H@ :0 Real A",
	"joiny":  ":me!ident@host JOIN #y",
	"modes":  ":a!ua@ha MODE #x +nk key",
	// replies that change tracked state too
	"whois":      ":irc.example 311 me a ua3 ha3 * :Real A again",
	"chanmodes":  ":irc.example 324 me #x +ntl 12",
	"topicreply": ":irc.example 332 me #x :topic from the reply",
	"secure":     ":irc.example 671 me a :is using a secure connection",
}

func c05Lines(tail []string) []string {
	ls := append([]string{}, c05Prefix...)
	for _, t := range tail {
		ls = append(ls, c05Pool[t])
	}
	return ls
}

func c05Scenario(tail []string) *explore.Scenario { return c05ScenarioSlow(tail, 0) }

// c05ScenarioSlow: with slow > 0 every foreground handler stays in its handler for that long (virtual time, far
// longer than Config.Timeout) and looks at the tracker again before it returns.
func c05ScenarioSlow(tail []string, slow time.Duration) *explore.Scenario {
	lines := c05Lines(tail)
	idx := map[string]int{}
	for i, l := range lines {
		idx[l] = i
	}
	sc := &explore.Scenario{
		Family: "tracking-order",
		Name:   "tracking-order/" + strings.Join(tail, "+"),
		Params: map[string]interface{}{"tail": strings.Join(tail, "+"), "lines": len(lines)},
		Opt:    vx.Options{MaxSteps: 60000, Horizon: 24 * time.Hour},
	}
	if slow > 0 {
		sc.Name += fmt.Sprintf("/slow=%v", slow)
		sc.Params["slow"] = slow.String()
	}
	mk := func(pilot bool) func(env *vx.Env) {
		return func(env *vx.Env) {
			c := NewClient("me", nil)
			c.EnableStateTracking()
			rec := func(kind string) client.HandlerFunc {
				return func(conn *client.Conn, line *client.Line) {
					i, ok := idx[line.Raw]
					if !ok {
						return
					}
					v := trackerVector(conn.StateTracker())
					vx.Observe("ev", fmt.Sprintf("%s %d %s", kind, i, strings.Join(v, " ;; ")))
					if slow > 0 && kind == "fg" {
						vx.Sleep(slow)
						v := trackerVector(conn.StateTracker())
						vx.Observe("ev", fmt.Sprintf("fg-late %d %s", i, strings.Join(v, " ;; ")))
					}
				}
			}
			if !pilot {
				for _, verb := range []string{"JOIN", "353", "NICK", "MODE", "TOPIC", "PART", "KICK", "QUIT", "352", "311", "324", "332", "671"} {
					c.HandleFunc(verb, rec("fg"))
					if slow > 0 {
						// a second foreground handler, registered later, that returns at once: the slow one outlasts it
						c.HandleFunc(verb, rec("fg2"))
					}
					c.HandleBG(verb, rec("bg"))
				}
			}
			var vc *vx.Conn
			env.ConnSetup = func(x *vx.Conn) { vc = x }
			if err := c.Connect(); err != nil {
				return
			}
			if pilot {
				vx.Observe("pilot", fmt.Sprintf("-1 %s", strings.Join(trackerVector(c.StateTracker()), " ;; ")))
				for i, l := range lines {
					vc.SendLines(l)
					vx.Quiesce()
					vx.Observe("pilot", fmt.Sprintf("%d %s", i, strings.Join(trackerVector(c.StateTracker()), " ;; ")))
				}
			} else {
				vc.SendLines(lines...)
				if slow > 0 {
					vx.Sleep(time.Duration(len(lines)+2) * slow)
				}
				vx.Quiesce()
			}
			vc.EOF()
			vx.Quiesce()
		}
	}
	sc.Main = mk(false)
	var once sync.Once
	var expected [][]string // expected[k] = vector after line k
	var initial []string    // vector before the first line
	sc.Check = func(o *vx.Outcome) []explore.Finding {
		if fs := stdOutcome(o); fs != nil {
			return fs
		}
		once.Do(func() {
			po := RunSeq(vx.Options{}, mk(true))
			for _, r := range po.Log("pilot") {
				sp := strings.SplitN(r, " ", 2)
				if sp[0] == "-1" {
					initial = strings.Split(sp[1], " ;; ")
					continue
				}
				expected = append(expected, strings.Split(sp[1], " ;; "))
			}
		})
		var fs []explore.Finding
		if len(expected) != len(lines) {
			return []explore.Finding{{Oracle: "pilot-failed", Msg: "the sequential pilot run did not complete"}}
		}
		seenFG := map[int]int{}
		seenBG := map[int]int{}
		seenLate := map[int]int{}
		seenFG2 := map[int]int{}
		for _, r := range o.Log("ev") {
			sp := strings.SplitN(r, " ", 3)
			var k int
			fmt.Sscan(sp[1], &k)
			v := strings.Split(sp[2], " ;; ")
			switch sp[0] {
			case "fg", "fg-late", "fg2":
				switch sp[0] {
				case "fg":
					seenFG[k]++
				case "fg-late":
					seenLate[k]++
				default:
					seenFG2[k]++
				}
				for q := range v {
					if v[q] != expected[k][q] {
						which := "does not yet reflect line"
						for j := k + 1; j < len(expected); j++ {
							if v[q] == expected[j][q] && (k == 0 || v[q] != expected[k-1][q]) {
								which = "already reflects a later line than"
							}
						}
						fs = append(fs, explore.Finding{Oracle: "foreground-handler-sees-wrong-state", Msg: fmt.Sprintf("foreground handler of line %d (%s): tracker %s %d: got %q, expected %q", k, lines[k], which, k, v[q], expected[k][q])})
						break
					}
				}
			case "bg":
				seenBG[k]++
				// A background handler runs concurrently with the processing of later lines, so a
				// query may show the state after its own line, after any later line, or a state in the
				// middle of a later line's processing (built-in handlers update the tracker in several
				// steps). What it must never show is a state from BEFORE its own line was applied.
				for q := range v {
					ok := false
					for j := k; j < len(expected); j++ {
						if v[q] == expected[j][q] {
							ok = true
						}
					}
					if ok {
						continue
					}
					stale := -2
					for j := k - 1; j >= -1; j-- {
						old := initial
						if j >= 0 {
							old = expected[j]
						}
						if v[q] == old[q] {
							stale = j
							break
						}
					}
					if stale >= -1 {
						fs = append(fs, explore.Finding{Oracle: "background-handler-sees-stale-state", Msg: fmt.Sprintf("background handler of line %d (%s): query answered %q, the state from before that line was applied (state after line %d; after line %d it is %q)", k, lines[k], v[q], stale, k, expected[k][q])})
						break
					}
				}
			}
		}
		for k := range lines {
			if slow > 0 && seenFG2[k] != 1 {
				fs = append(fs, explore.Finding{Oracle: "delivery-count", Msg: fmt.Sprintf("the second foreground handler of line %d ran %d times, expected 1", k, seenFG2[k])})
			}
			if slow > 0 && seenLate[k] != 1 {
				fs = append(fs, explore.Finding{Oracle: "delivery-count", Msg: fmt.Sprintf("the slow foreground handler of line %d finished %d times, expected 1", k, seenLate[k])})
			}
			if seenFG[k] != 1 || seenBG[k] != 1 {
				fs = append(fs, explore.Finding{Oracle: "delivery-count", Msg: fmt.Sprintf("line %d delivered to %d foreground / %d background handlers, expected 1/1", k, seenFG[k], seenBG[k])})
			}
		}
		return fs
	}
	return sc
}

func init() {
	Register(&Prop{
		ID:   "C05",
		Rule: "tracked sessions = own JOIN + NAMES followed by 1-3 state-changing lines from {other JOIN, NICK (other, own), MODE +o, MODE +nk, TOPIC, PART, KICK of the client, QUIT, WHO reply, second own JOIN, WHOIS reply (311), channel mode reply (324), topic reply (332), 671}; a foreground and a background user handler on every verb record a vector (four sessions also with a foreground handler that takes five virtual minutes and looks again before returning, next to a second, later registered one that returns at once) of single tracker queries over the universe; every execution within the deviation budgets; expected vectors come from a sequential pilot run of the same lines with quiescence after each; distinct = distinct canonical observation per session",
		Assumptions: []string{
			"interleavings at synchronisation/channel/socket granularity (DESIGN.md 3.8)",
			"each recorded vector component is one atomic tracker call; background handlers are judged per component (some state at or after their line)",
			"the expectation is differential (sequential run of the same client), C12/C13 judge the tracker's content itself",
		},
		Jobs: func(tier string) []Job {
			var tails [][]string
			singles := []string{"joinb", "nicka", "opme", "topic", "parta", "kickme", "quita", "nickme", "who", "joiny", "modes", "whois", "chanmodes", "topicreply", "secure"}
			for _, s := range singles {
				tails = append(tails, []string{s})
			}
			pairs := [][]string{{"joinb", "nicka"}, {"opme", "topic"}, {"nicka", "quita"}, {"joinb", "kickme"}, {"nickme", "opme"}, {"topic", "parta"}, {"who", "nicka"}, {"joiny", "quita"}, {"modes", "kickme"}, {"quita", "joinb"}, {"whois", "nicka"}, {"chanmodes", "opme"}, {"topicreply", "topic"}}
			if tier == "thorough" {
				pairs = nil
				for _, a := range singles {
					for _, b := range singles {
						if a != b {
							pairs = append(pairs, []string{a, b})
						}
					}
				}
			}
			tails = append(tails, pairs...)
			triples := [][]string{{"joinb", "opme", "nicka"}, {"topic", "nickme", "parta"}, {"who", "quita", "kickme"}}
			tails = append(tails, triples...)
			var jobs []Job
			for _, t := range tails {
				bs := []explore.Budget{{0, 0}, {1, 0}, {2, 0}}
				if len(t) >= 2 && tier != "thorough" {
					bs = []explore.Budget{{0, 0}, {1, 0}}
				}
				if len(t) == 1 && tier == "thorough" {
					bs = append(bs, explore.Budget{K: 3})
				}
				spec := ExploreSpec{Sc: c05Scenario(t), Variants: []int{1, 2, 3}, Budgets: bs, Cache: true}
				if tier != "thorough" {
					spec.Shallow = []int{2, 3}
				}
				if len(t) == 1 && t[0] == "joinb" {
					spec.CrossChk = &explore.Budget{K: 1}
				}
				jobs = append(jobs, ExploreJob("C05", spec, 10*len(t)))
			}
			// handlers that stay in the handler for five virtual minutes (far longer than any timeout the library knows)
			for _, t := range [][]string{{"joinb"}, {"nickme", "opme"}, {"topic", "parta"}, {"joinb", "kickme"}} {
				jobs = append(jobs, ExploreJob("C05", ExploreSpec{Sc: c05ScenarioSlow(t, 5*time.Minute), Variants: []int{1, 2, 3}, Budgets: []explore.Budget{{0, 0}, {1, 0}}, Cache: true}, 20))
			}
			return jobs
		},
	})
}
