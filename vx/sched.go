// Package vx is the controlled runtime under which the instrumented goirc
// packages are executed: a cooperative scheduler (exactly one task runs at a
// time, every synchronisation / channel / socket / timer operation is a
// scheduling point), virtual time, an in-memory socket, and the bookkeeping
// (choice points, happens-before state keys) the explorer needs.
//
// One execution = one call of Run. Everything is deterministic given the
// sequence of answers the Chooser gives.
package vx

import (
	"fmt"
	"runtime"
	"runtime/debug"
	"sort"
	"strings"
	"time"
)

// ---------------------------------------------------------------- hashing

// H is a 128-bit hash (two independent 64-bit lanes).
type H struct{ A, B uint64 }

func mix64(x uint64) uint64 {
	x ^= x >> 30
	x *= 0xbf58476d1ce4e5b9
	x ^= x >> 27
	x *= 0x94d049bb133111eb
	x ^= x >> 31
	return x
}

// Mix folds the values into h, order-sensitively.
func (h H) Mix(vals ...uint64) H {
	for _, v := range vals {
		h.A = mix64(h.A ^ (v + 0x9e3779b97f4a7c15))
		h.B = mix64(h.B + (v ^ 0xc2b2ae3d27d4eb4f) + 0x165667b19e3779f9)
	}
	return h
}

func (h H) MixH(o H) H { return h.Mix(o.A, o.B) }

func (h *H) addComm(o H) { h.A += o.A; h.B += o.B }
func (h *H) subComm(o H) { h.A -= o.A; h.B -= o.B }

func (h H) String() string { return fmt.Sprintf("%016x%016x", h.A, h.B) }

// HashString hashes a string (FNV-1a, then mixed).
func HashString(s string) uint64 {
	var x uint64 = 14695981039346656037
	for i := 0; i < len(s); i++ {
		x ^= uint64(s[i])
		x *= 1099511628211
	}
	return mix64(x)
}

// ---------------------------------------------------------------- objects

// Obj is the identity of a synchronisation object for labels and for the
// happens-before hashing. The zero value is ready to use; it is (re)initialised
// lazily the first time it is touched in a run.
type Obj struct {
	run   uint64
	id    uint64
	w, r  H
	Label string
	vc    vclock
}

// ---------------------------------------------------------------- tasks / ops

// Op describes the operation a task is parked at.
type Op struct {
	Kind        string
	Obj         *Obj
	Site        string
	Ready       func() bool // nil: always enabled
	nonblocking bool        // a select with a default clause
	// quiesce ops are only enabled by grant
	quiesce bool
	granted bool
	// channel operations (rendezvous bookkeeping)
	cases []selCase
	// result of a hand-off performed by a partner (unbuffered channels)
	handed    bool
	handCase  int
	handVal   interface{}
	handOK    bool
	holderFn  func() string // who holds what we wait for (diagnostics)
	sleepTill time.Duration
}

type Task struct {
	Name     string
	Path     string // canonical id: parent path + "." + spawn index
	pathH    uint64
	idx      int
	wake     chan struct{}
	exited   chan struct{}
	pend     *Op
	done     bool
	started  bool
	h        H
	nspawn   int
	nobj     int
	selHand  *Op
	vc       vclock
	ByDesign bool // may stay blocked for ever (declared by the harness)
	Client   bool // spawned by instrumented goirc code (not by the harness)
}

// BlockedTask describes a task that was still parked when the execution ended.
type BlockedTask struct {
	Name, Path, Op, Obj, Site, Holder string
	Client, ByDesign                  bool
}

func (b BlockedTask) String() string {
	s := b.Name + "@" + b.Op
	if b.Obj != "" {
		s += "(" + b.Obj + ")"
	}
	return s
}

// ChoicePoint is one recorded nondeterministic decision.
type ChoicePoint struct {
	Kind  byte // 'T' task, 'S' select case, 'R' read cut, 'D' delay, 'X' harness
	N     int  // number of alternatives (alt 0 = default)
	EFrom int  // alternatives with index >= EFrom cost an environment deviation; others a scheduling deviation
	Taken int
	Key   H // state key before the decision
	Step  int
}

type CrashInfo struct {
	Task  string
	Value string
	Stack string
	Top   string // first goirc frame
}

type Rec struct {
	Log  string
	Data string
	Task string
	Step int
	Now  time.Duration
}

// Outcome of one execution.
type Outcome struct {
	Kind       string // ok | deadlock | crash | step-cap | nondeterminism | pruned
	RootDone   bool
	Blocked    []BlockedTask
	Crash      *CrashInfo
	Steps      int
	Points     []ChoicePoint
	Recs       []Rec
	VirtualEnd time.Duration
	MaxEnabled int
	Tasks      int
	FinalKey   H
	Trace      []string // only when Options.Trace
	NondetMsg  string
	Races      []RaceInfo
	Conns      []*Conn // sockets dialled in this run
	DialAddrs  []string
	Logs       []LogRec
}

type LogRec struct {
	Level, Format string
	Args          []interface{}
}

func (o *Outcome) Log(name string) []string {
	var r []string
	for i := range o.Recs {
		if o.Recs[i].Log == name {
			r = append(r, o.Recs[i].Data)
		}
	}
	return r
}

// BlockedSig is the sorted list of blocked client/harness tasks (diagnostic detail).
func (o *Outcome) BlockedSig() string {
	var ss []string
	for _, b := range o.Blocked {
		if b.ByDesign {
			continue
		}
		ss = append(ss, b.String())
	}
	sort.Strings(ss)
	return strings.Join(ss, " | ")
}

// Chooser answers choice points. It may return -1 to abandon the execution
// (outcome "pruned").
type Chooser interface {
	Choose(cp *ChoicePoint) int
}

type Options struct {
	Variant  int           // default-scheduler variant 1..3
	MaxSteps int           // step cap (default 200000)
	Horizon  time.Duration // virtual horizon: timers later than this never fire (default 1h)
	Trace    bool          // record a readable trace
	ClockAlt bool          // offer "fire the earliest timer now" as an E alternative
	Keys     bool          // compute state keys at choice points
	StmtMode bool          // statement-granularity points in package state (C14)
	ChanCap  int           // >0: capacity override for channels made by instrumented code with cap>1
}

type vtimer struct {
	when    time.Duration
	seq     int
	fire    func()
	stopped bool
	label   string
}

type Sched struct {
	opt       Options
	chooser   Chooser
	tasks     []*Task
	cur       *Task
	last      *Task
	doneCh    chan struct{}
	aborting  bool
	ended     bool
	now       time.Duration
	timers    []*vtimer
	tseq      int
	steps     int
	out       *Outcome
	runID     uint64
	sum       H // commutative sum over tasks of mix(path, h_t)
	clock     Obj
	clockH    H
	chans     map[uintptr]*chanInfo
	env       *Env
	nchoice   int
	rootT     *Task
	shadows   map[uintptr]*shadow
	stmtOn    bool
	stmtAllOn bool
}

// S is the scheduler of the execution in progress (nil outside Run).
var S *Sched
var runCounter uint64

const (
	modeReal = iota
	modeSched
	modeAbort
)

func cur() (*Sched, int) {
	s := S
	if s == nil {
		return nil, modeReal
	}
	if s.aborting {
		return s, modeAbort
	}
	return s, modeSched
}

// Active reports whether a controlled execution is in progress.
func Active() bool { return S != nil && !S.aborting }

// Run executes root as the root task of a fresh controlled execution.
func Run(opt Options, ch Chooser, root func(env *Env)) *Outcome {
	if S != nil {
		panic("vx.Run: nested run")
	}
	if opt.MaxSteps == 0 {
		opt.MaxSteps = 200000
	}
	if opt.Horizon == 0 {
		opt.Horizon = time.Hour
	}
	if opt.Variant == 0 {
		opt.Variant = 1
	}
	runCounter++
	s := &Sched{opt: opt, chooser: ch, doneCh: make(chan struct{}, 1), runID: runCounter,
		out: &Outcome{}, chans: make(map[uintptr]*chanInfo)}
	s.env = &Env{s: s}
	s.clock.run = s.runID
	s.clock.id = 0xc10c
	s.clock.Label = "clock"
	S = s
	t := s.newTask(nil, "root", func() { root(s.env) })
	s.rootT = t
	// start: the root is the only task; run it.
	s.cur = t
	s.last = t
	t.pend = nil
	t.started = true
	t.wake <- struct{}{}
	<-s.doneCh
	s.finishRun()
	S = nil
	return s.out
}

func (s *Sched) newTask(parent *Task, name string, f func()) *Task {
	t := &Task{Name: name, idx: len(s.tasks), wake: make(chan struct{}, 1), exited: make(chan struct{})}
	if parent == nil {
		t.Path = "0"
		t.h = H{1, 2}
	} else {
		t.Path = fmt.Sprintf("%s.%d", parent.Path, parent.nspawn)
		t.h = parent.h.Mix(0x5a, uint64(parent.nspawn))
		old := parent.h
		parent.nspawn++
		parent.h = parent.h.Mix(0x5b, uint64(parent.nspawn))
		s.rehash(parent, old)
	}
	if s.opt.StmtMode {
		if parent != nil {
			t.vc = parent.vc.copy()
			parent.vc[parent.idx]++
		} else {
			t.vc = vclock{}
		}
		t.vc[t.idx] = 1
	}
	t.pathH = HashString(t.Path)
	s.sum.addComm(H{}.Mix(t.pathH, t.h.A, t.h.B))
	t.pend = &Op{Kind: "start"}
	s.tasks = append(s.tasks, t)
	go func() {
		defer close(t.exited)
		<-t.wake
		if s.aborting {
			return
		}
		defer s.taskExit(t)
		t.pend = nil
		f()
	}()
	return t
}

func (s *Sched) rehash(t *Task, old H) {
	s.sum.subComm(H{}.Mix(t.pathH, old.A, old.B))
	s.sum.addComm(H{}.Mix(t.pathH, t.h.A, t.h.B))
}

func (s *Sched) taskExit(t *Task) {
	r := recover()
	if s.aborting {
		return
	}
	if r != nil {
		st := string(debug.Stack())
		s.out.Crash = &CrashInfo{Task: t.Name, Value: fmt.Sprint(r), Stack: st, Top: topFrame(st)}
	}
	t.done = true
	t.pend = nil
	old := t.h
	t.h = t.h.Mix(0xdead)
	s.rehash(t, old)
	if s.opt.Trace {
		s.trace(t, "exit", "", "")
	}
	if s.out.Crash != nil {
		s.endRun()
		return
	}
	next := s.pickNext()
	if next == nil {
		s.endRun()
		return
	}
	s.resume(next)
}

func topFrame(stack string) string {
	lines := strings.Split(stack, "\n")
	for i := 0; i+1 < len(lines); i++ {
		l := lines[i]
		if strings.Contains(l, "fluffle/goirc/") && !strings.Contains(l, "verif") {
			fn := l
			if j := strings.LastIndex(fn, "("); j > 0 {
				fn = fn[:j]
			}
			if j := strings.LastIndex(fn, "/"); j >= 0 {
				fn = fn[j+1:]
			}
			return fn
		}
	}
	return ""
}

func (s *Sched) resume(t *Task) {
	s.cur = t
	s.last = t
	t.wake <- struct{}{}
}

func (s *Sched) endRun() {
	if s.ended {
		return
	}
	s.ended = true
	s.doneCh <- struct{}{}
}

// point parks the current task at op and returns when the scheduler has
// selected it to perform op.
func (s *Sched) point(op *Op) {
	t := s.cur
	if t == nil {
		panic("vx: scheduling point reached outside any task (stray goroutine?)")
	}
	s.steps++
	if s.steps > s.opt.MaxSteps {
		s.out.Kind = "step-cap"
		t.pend = op
		s.endRun()
		<-t.wake
		runtime.Goexit()
	}
	t.pend = op
	next := s.pickNext()
	if next == nil {
		s.endRun()
		<-t.wake
		runtime.Goexit()
	}
	if next != t {
		s.resume(next)
		<-t.wake
		if s.aborting {
			runtime.Goexit()
		}
	} else {
		s.last = t
	}
	t.pend = nil
	if s.opt.Trace {
		lab := ""
		if op.Obj != nil {
			lab = op.Obj.Label
		}
		s.trace(t, op.Kind, lab, op.Site)
	}
}

func (s *Sched) trace(t *Task, kind, obj, site string) {
	if len(s.out.Trace) < 20000 {
		s.out.Trace = append(s.out.Trace, fmt.Sprintf("%4d t=%-9v %-28s %-10s %s %s", s.steps, s.now, t.Name+"["+t.Path+"]", kind, obj, site))
	}
}

func (s *Sched) ready(t *Task) bool {
	op := t.pend
	if op == nil || t.done {
		return false
	}
	if op.quiesce {
		return op.granted
	}
	if op.handed {
		return true
	}
	if op.Ready == nil {
		return true
	}
	return op.Ready()
}

// pickNext decides which task runs next; nil = nothing can run.
func (s *Sched) pickNext() *Task {
	var en []*Task
	for {
		en = en[:0]
		for _, t := range s.tasks {
			if s.ready(t) {
				en = append(en, t)
			}
		}
		tm := s.nextTimer()
		if len(en) == 0 {
			// grant quiescence before letting time pass
			if q := s.grantQuiesce(); q {
				continue
			}
			if tm != nil {
				s.fireTimer(tm)
				continue
			}
			return nil
		}
		if len(en) > s.out.MaxEnabled {
			s.out.MaxEnabled = len(en)
		}
		s.order(en)
		n := len(en)
		if tm != nil && s.opt.ClockAlt {
			n++
		}
		idx := 0
		if n > 1 {
			idx = s.choose('T', n, len(en))
			if idx < 0 {
				return nil
			}
		}
		if idx == len(en) {
			s.fireTimer(tm)
			continue
		}
		return en[idx]
	}
}

func (s *Sched) grantQuiesce() bool {
	var best *Task
	for _, t := range s.tasks {
		if t.pend != nil && !t.done && t.pend.quiesce && !t.pend.granted {
			if best == nil || t.idx < best.idx {
				best = t
			}
		}
	}
	if best == nil {
		return false
	}
	best.pend.granted = true
	return true
}

// order sorts the enabled set so that index 0 is the variant's default.
func (s *Sched) order(en []*Task) {
	switch s.opt.Variant {
	case 2:
		// highest canonical id first
		sort.Slice(en, func(i, j int) bool { return pathLess(en[j].Path, en[i].Path) })
	case 3:
		// round robin: first task strictly after the last one in cyclic canonical order
		sort.Slice(en, func(i, j int) bool { return pathLess(en[i].Path, en[j].Path) })
		if s.last != nil {
			k := 0
			for k < len(en) && !pathLess(s.last.Path, en[k].Path) {
				k++
			}
			if k > 0 && k < len(en) {
				rot := append(append([]*Task{}, en[k:]...), en[:k]...)
				copy(en, rot)
			}
		}
	default:
		sort.Slice(en, func(i, j int) bool {
			if en[i] == s.last {
				return true
			}
			if en[j] == s.last {
				return false
			}
			return pathLess(en[i].Path, en[j].Path)
		})
	}
}

func pathLess(a, b string) bool {
	// compare dotted integer paths lexicographically by component
	for {
		if a == "" || b == "" {
			return a == "" && b != ""
		}
		var x, y int
		i := 0
		for i < len(a) && a[i] != '.' {
			x = x*10 + int(a[i]-'0')
			i++
		}
		j := 0
		for j < len(b) && b[j] != '.' {
			y = y*10 + int(b[j]-'0')
			j++
		}
		if x != y {
			return x < y
		}
		if i < len(a) {
			a = a[i+1:]
		} else {
			a = ""
		}
		if j < len(b) {
			b = b[j+1:]
		} else {
			b = ""
		}
	}
}

// stateKey identifies the Mazurkiewicz trace of the prefix executed so far.
func (s *Sched) stateKey() H {
	var lp uint64
	if s.last != nil {
		lp = s.last.pathH
	}
	return s.sum.Mix(uint64(s.now), lp, s.clockH.A)
}

func (s *Sched) choose(kind byte, n, eFrom int) int {
	cp := ChoicePoint{Kind: kind, N: n, EFrom: eFrom, Step: s.steps}
	if s.opt.Keys {
		cp.Key = s.stateKey().Mix(uint64(kind), uint64(n))
	}
	idx := s.chooser.Choose(&cp)
	if idx < 0 {
		s.out.Kind = "pruned"
		return -1
	}
	if idx >= n {
		s.out.Kind = "nondeterminism"
		s.out.NondetMsg = fmt.Sprintf("choice %d out of range (n=%d kind=%c step=%d)", idx, n, kind, s.steps)
		return -1
	}
	cp.Taken = idx
	s.out.Points = append(s.out.Points, cp)
	return idx
}

// Choose lets a task (socket, harness) take an owned nondeterministic decision.
// If the chooser abandons the execution the task never returns.
func (s *Sched) taskChoose(kind byte, n, eFrom int) int {
	if n <= 1 {
		return 0
	}
	idx := s.choose(kind, n, eFrom)
	if idx < 0 {
		t := s.cur
		t.pend = &Op{Kind: "abandoned", Ready: func() bool { return false }}
		s.endRun()
		<-t.wake
		runtime.Goexit()
	}
	return idx
}

// event records an executed operation for the happens-before hashing.
func (s *Sched) event(code uint64, o *Obj, write bool) {
	if !s.opt.Keys {
		return
	}
	t := s.cur
	old := t.h
	if o == nil {
		t.h = t.h.Mix(code)
	} else if write {
		t.h = t.h.Mix(code, o.id).MixH(o.w).MixH(o.r)
		o.w = t.h
		o.r = H{}
	} else {
		t.h = t.h.Mix(code, o.id).MixH(o.w)
		o.r.addComm(t.h)
	}
	s.rehash(t, old)
}

func (s *Sched) initObj(o *Obj, kind string) {
	o.run = s.runID
	t := s.cur
	if t != nil {
		o.id = t.h.Mix(0x0b1, uint64(t.nobj)).A
		t.nobj++
	} else {
		o.id = s.clockH.Mix(0x0b2, uint64(s.tseq)).A
	}
	o.w, o.r = H{}, H{}
	o.vc = nil
	if o.Label == "" {
		o.Label = kind
	}
}

// ---------------------------------------------------------------- timers

func (s *Sched) addTimer(d time.Duration, label string, fire func()) *vtimer {
	if d < 0 {
		d = 0
	}
	tm := &vtimer{when: s.now + d, seq: s.tseq, fire: fire, label: label}
	s.tseq++
	s.timers = append(s.timers, tm)
	return tm
}

func (s *Sched) nextTimer() *vtimer {
	var best *vtimer
	k := 0
	for _, tm := range s.timers {
		if tm.stopped {
			continue
		}
		s.timers[k] = tm
		k++
		if tm.when > s.opt.Horizon {
			continue
		}
		if best == nil || tm.when < best.when || (tm.when == best.when && tm.seq < best.seq) {
			best = tm
		}
	}
	s.timers = s.timers[:k]
	return best
}

func (s *Sched) fireTimer(tm *vtimer) {
	tm.stopped = true
	if tm.when > s.now {
		s.now = tm.when
	}
	s.clockH = s.clockH.Mix(uint64(tm.when), uint64(tm.seq))
	if s.opt.Trace && len(s.out.Trace) < 20000 {
		s.out.Trace = append(s.out.Trace, fmt.Sprintf("%4d t=%-9v %-28s %-10s %s", s.steps, s.now, "<clock>", "fire", tm.label))
	}
	saved := s.cur
	s.cur = nil
	tm.fire()
	s.cur = saved
}

// ---------------------------------------------------------------- end of run

func (s *Sched) finishRun() {
	o := s.out
	o.Steps = s.steps
	o.VirtualEnd = s.now
	o.Tasks = len(s.tasks)
	o.RootDone = s.rootT.done
	for _, t := range s.tasks {
		if t.done {
			continue
		}
		b := BlockedTask{Name: t.Name, Path: t.Path, Client: t.Client, ByDesign: t.ByDesign}
		if t.pend != nil {
			b.Op = t.pend.Kind
			b.Site = t.pend.Site
			if t.pend.Obj != nil {
				b.Obj = t.pend.Obj.Label
			}
			if t.pend.holderFn != nil {
				b.Holder = t.pend.holderFn()
			}
		}
		o.Blocked = append(o.Blocked, b)
	}
	if s.opt.Keys {
		o.FinalKey = s.stateKey()
	}
	if o.Kind == "" {
		switch {
		case o.Crash != nil:
			o.Kind = "crash"
		case !o.RootDone:
			o.Kind = "deadlock"
		default:
			o.Kind = "ok"
		}
	}
	o.Conns = s.env.conns
	o.DialAddrs = s.env.dialAddrs
	o.Logs = s.env.logs
	// abort whatever is left, one task at a time
	s.aborting = true
	for _, t := range s.tasks {
		if t.done {
			continue
		}
		select {
		case t.wake <- struct{}{}:
		default:
		}
		<-t.exited
	}
}

// ---------------------------------------------------------------- public task API

// Go starts f as a new task. Used by instrumented `go` statements (client=true)
// and by harnesses.
func Go(name string, f func()) {
	s, m := cur()
	switch m {
	case modeReal:
		go f()
		return
	case modeAbort:
		return
	}
	t := s.newTask(s.cur, name, f)
	t.Client = true
}

// Env is the harness's handle on the execution.
type Env struct {
	s         *Sched
	conns     []*Conn
	dialAddrs []string
	dialFail  []error
	logs      []LogRec
	ConnSetup func(c *Conn) // called for every dialled connection (before Dial returns)
}

func (e *Env) Go(name string, f func()) *Task {
	s := e.s
	if s.aborting {
		return nil
	}
	return s.newTask(s.cur, name, f)
}

// GoBlocked starts a task that is allowed to remain blocked for ever.
func (e *Env) GoBlocked(name string, f func()) *Task {
	t := e.Go(name, f)
	if t != nil {
		t.ByDesign = true
	}
	return t
}

func (e *Env) Now() time.Duration { return e.s.now }
func (e *Env) Steps() int         { return e.s.steps }

// CurTask returns the name of the running task.
func CurTask() string {
	if s := S; s != nil && s.cur != nil {
		return s.cur.Name
	}
	return ""
}

// MarkByDesign declares that the current task may stay blocked for ever.
func MarkByDesign() {
	if s := S; s != nil && s.cur != nil {
		s.cur.ByDesign = true
	}
}

// Yield is a pure scheduling point.
func Yield() {
	s, m := cur()
	if m != modeSched {
		return
	}
	s.point(&Op{Kind: "yield"})
	s.event(0x11, nil, true)
}

// Quiesce returns when no other task can make progress at the current virtual
// instant (pending timers are not waited for).
func Quiesce() {
	s, m := cur()
	if m != modeSched {
		return
	}
	s.point(&Op{Kind: "quiesce", quiesce: true})
	// a quiescence is a global read: fold the whole state so that it forces a distinct key
	if s.opt.Keys {
		t := s.cur
		old := t.h
		t.h = t.h.Mix(0x12).MixH(s.sum)
		s.rehash(t, old)
	}
}

// Sleep advances virtual time for the calling task.
func Sleep(d time.Duration) {
	s, m := cur()
	switch m {
	case modeReal:
		time.Sleep(d)
		return
	case modeAbort:
		return
	}
	fired := false
	s.addTimer(d, "sleep", func() { fired = true })
	s.point(&Op{Kind: "sleep", Ready: func() bool { return fired }})
	s.event(0x13, &s.clock, false)
}

// Now returns the virtual time as an absolute time.
var Epoch = time.Date(2020, 1, 1, 0, 0, 0, 0, time.UTC)

func Now() time.Time {
	s, m := cur()
	if m == modeReal {
		return time.Now()
	}
	return Epoch.Add(s.now)
}

// Choose is a harness-owned choice point with n alternatives costing an
// environment deviation each (alt 0 is the default).
func Choose(n int) int {
	s, m := cur()
	if m != modeSched {
		return 0
	}
	return s.taskChoose('X', n, 1)
}

// Observe appends a record to the observation log.
func Observe(log, data string) {
	s, m := cur()
	if m != modeSched {
		return
	}
	lo := s.env.logObj(log)
	s.point(&Op{Kind: "observe", Obj: lo})
	s.event(0x14^HashString(data), lo, true)
	name := ""
	if s.cur != nil {
		name = s.cur.Name
	}
	s.out.Recs = append(s.out.Recs, Rec{Log: log, Data: data, Task: name, Step: s.steps, Now: s.now})
}

// ObserveNoPoint records without a scheduling point (the record is attached to
// the current step).
func ObserveNoPoint(log, data string) {
	s, m := cur()
	if m != modeSched {
		return
	}
	lo := s.env.logObj(log)
	s.event(0x14^HashString(data), lo, true)
	name := ""
	if s.cur != nil {
		name = s.cur.Name
	}
	s.out.Recs = append(s.out.Recs, Rec{Log: log, Data: data, Task: name, Step: s.steps, Now: s.now})
}

var logObjs = map[string]*Obj{}

func (e *Env) logObj(name string) *Obj {
	o := logObjs[name]
	if o == nil {
		o = &Obj{Label: "log:" + name}
		logObjs[name] = o
	}
	if o.run != e.s.runID {
		o.run = e.s.runID
		o.id = HashString("log:" + name)
		o.w, o.r = H{}, H{}
	}
	return o
}

// CaptureLog is called by the harness's logging.Logger implementation.
func CaptureLog(level, format string, args []interface{}) {
	s := S
	if s == nil || s.aborting {
		return
	}
	s.env.logs = append(s.env.logs, LogRec{Level: level, Format: format, Args: args})
}
