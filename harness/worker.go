package harness

import (
	"runtime/debug"
	"bufio"
	"encoding/json"
	"flag"
	"fmt"
	"os"
	"strings"
	"time"

	"verif/explore"
)

type jobInfo struct {
	I    int    `json:"i"`
	Name string `json:"name"`
	Cost int    `json:"cost"`
}

type propMeta struct {
	ID          string   `json:"id"`
	Rule        string   `json:"rule"`
	Assumptions []string `json:"assumptions"`
	Props       []string `json:"props,omitempty"`
}

// WorkerMain is the entry point of the vcheck binary.
func WorkerMain() {
	// unbounded recursion in the code under test ends in the runtime's fatal "stack overflow" after 128 MB, not 1 GB
	debug.SetMaxStack(128 << 20)
	prop := flag.String("prop", "", "property id")
	tier := flag.String("tier", "quick", "quick | thorough")
	list := flag.Bool("list", false, "list jobs as JSON")
	meta := flag.Bool("meta", false, "print property metadata")
	serve := flag.Bool("serve", false, "read job indices from stdin, print one RESULT line per job")
	one := flag.Int("job", -1, "run one job and print its result")
	replay := flag.String("replay", "", "replay a violation file")
	seed := flag.Int64("seed", 0, "VERIF_SEED (only permutes visiting order)")
	flag.Parse()

	if *replay != "" {
		os.Exit(replayFile(*replay))
	}
	if *meta && *prop == "" {
		b, _ := json.Marshal(propMeta{Props: PropIDs()})
		fmt.Println(string(b))
		return
	}
	p := registry[*prop]
	if p == nil {
		fmt.Fprintf(os.Stderr, "unknown property %q (have %v)\n", *prop, PropIDs())
		os.Exit(2)
	}
	if *meta {
		b, _ := json.Marshal(propMeta{ID: p.ID, Rule: p.Rule, Assumptions: p.Assumptions})
		fmt.Println(string(b))
		return
	}
	jobs := p.Jobs(*tier)
	if d := os.Getenv("VERIF_DIFF_DEFAULT"); d != "" {
		// debugging aid: run the named job's scenario twice under the default schedule of variant N
		// ("<job substring>:<N>") with a full trace and show the first difference
		sp := strings.SplitN(d, ":", 2)
		v := 1
		if len(sp) == 2 {
			fmt.Sscan(sp[1], &v)
		}
		for _, j := range jobs {
			if j.Scenario == nil || !strings.Contains(j.Name, sp[0]) {
				continue
			}
			sc := *j.Scenario
			sc.Opt.Trace = true
			o1 := explore.RunDefault(&sc, v)
			o2 := explore.RunDefault(&sc, v)
			fmt.Printf("%s: %d / %d trace lines, kinds %s / %s\n", j.Name, len(o1.Trace), len(o2.Trace), o1.Kind, o2.Kind)
			for i := 0; i < len(o1.Trace) && i < len(o2.Trace); i++ {
				if o1.Trace[i] != o2.Trace[i] {
					for k := i - 6; k <= i+3; k++ {
						if k >= 0 && k < len(o1.Trace) && k < len(o2.Trace) {
							fmt.Printf("%5d A %s\n      B %s\n", k, o1.Trace[k], o2.Trace[k])
						}
					}
					break
				}
			}
			return
		}
		fmt.Println("no such job")
		return
	}
	if *list {
		var out []jobInfo
		for i, j := range jobs {
			out = append(out, jobInfo{i, j.Name, j.Cost})
		}
		b, _ := json.Marshal(out)
		fmt.Println(string(b))
		return
	}
	runJob := func(i int, deadline time.Time) {
		start := time.Now()
		var r *JobResult
		func() {
			defer func() {
				if e := recover(); e != nil {
					r = &JobResult{Job: jobs[i].Name, Error: fmt.Sprint("harness panic: ", e)}
				}
			}()
			r = jobs[i].Run(&JobCtx{Tier: *tier, Deadline: deadline, Seed: *seed})
		}()
		if r.WallS == 0 {
			r.WallS = time.Since(start).Seconds()
		}
		for k := range r.Violations {
			r.Violations[k].Property = p.ID
			r.Violations[k].Tier = *tier
			if r.Violations[k].Job == "" {
				r.Violations[k].Job = jobs[i].Name
			}
		}
		b, err := json.Marshal(r)
		if err != nil {
			b, _ = json.Marshal(&JobResult{Job: jobs[i].Name, Error: "marshal: " + err.Error()})
		}
		fmt.Printf("RESULT %d %s\n", i, b)
	}
	if *one >= 0 {
		runJob(*one, time.Time{})
		return
	}
	if *serve {
		sc := bufio.NewScanner(os.Stdin)
		for sc.Scan() {
			var i int
			var dl int64
			if n, _ := fmt.Sscan(sc.Text(), &i, &dl); n < 1 {
				continue
			}
			var deadline time.Time
			if dl > 0 {
				deadline = time.Unix(dl, 0)
			}
			if i < 0 || i >= len(jobs) {
				fmt.Printf("RESULT %d {\"error\":\"no such job\"}\n", i)
				continue
			}
			runJob(i, deadline)
		}
		return
	}
	fmt.Fprintln(os.Stderr, "nothing to do (use -list, -serve, -job or -replay)")
	os.Exit(2)
}

// replayFile re-executes one recorded violation without any search.
func replayFile(path string) int {
	b, err := os.ReadFile(path)
	if err != nil {
		fmt.Fprintln(os.Stderr, err)
		return 2
	}
	var v Violation
	if err := json.Unmarshal(b, &v); err != nil {
		fmt.Fprintln(os.Stderr, err)
		return 2
	}
	p := registry[v.Property]
	if p == nil {
		fmt.Fprintln(os.Stderr, "unknown property", v.Property)
		return 2
	}
	var job *Job
	for _, t := range []string{v.Tier, "quick", "thorough"} {
		jobs := p.Jobs(t)
		for i := range jobs {
			if jobs[i].Name == v.Job {
				job = &jobs[i]
				break
			}
		}
		if job != nil {
			break
		}
	}
	if job == nil {
		fmt.Fprintln(os.Stderr, "job not found:", v.Job)
		return 2
	}
	if job.Scenario == nil && job.FindScenario != nil {
		job.Scenario = job.FindScenario(v.Scenario)
	}
	if v.Sched != nil && job.Scenario != nil {
		o, bad := explore.Replay(job.Scenario, v.Sched.Variant, v.Sched.Choices, v.Sched.Widths, v.Sched.ClockAlt, true)
		for _, l := range o.Trace {
			fmt.Println(l)
		}
		fmt.Println("---- observations")
		for _, r := range o.Recs {
			fmt.Printf("%5d %-24s %s: %s\n", r.Step, r.Task, r.Log, r.Data)
		}
		for i, c := range o.Conns {
			fmt.Printf("---- transcript of connection %d\n%s", i, strings.ReplaceAll(c.Transcript(), "\r\n", "\\r\\n\n"))
		}
		for _, rc := range o.Races {
			fmt.Println("---- race:", rc.String())
		}
		fmt.Println("---- outcome:", o.Kind, "|", o.BlockedSig())
		if o.Crash != nil {
			fmt.Println(o.Crash.Value)
			fmt.Println(o.Crash.Stack)
		}
		if bad != "" {
			fmt.Println("REPLAY DIVERGED:", bad)
			return 3
		}
		fs := job.Scenario.Check(o)
		for _, f := range fs {
			fmt.Printf("FINDING oracle=%s %s\n", f.Oracle, f.Msg)
			if f.Oracle == v.Oracle {
				fmt.Println("REPRODUCED")
				return 1
			}
		}
		fmt.Println("NOT REPRODUCED")
		return 0
	}
	if replayInput != nil {
		return replayInput(&v)
	}
	fmt.Println("violation has no schedule; input:", v.Input)
	return 0
}

// replayInput is set by enumeration-type harnesses to re-check a single input.
var replayInput func(v *Violation) int
