// Package vatomic replaces "sync/atomic" in instrumented code: each operation
// is a scheduling point followed by the real operation.
package vatomic

import (
	"sync/atomic"
	"unsafe"

	"verif/vx"
)

func AddInt32(a *int32, d int32) int32         { vx.AtomicPoint(true); return atomic.AddInt32(a, d) }
func AddInt64(a *int64, d int64) int64         { vx.AtomicPoint(true); return atomic.AddInt64(a, d) }
func AddUint32(a *uint32, d uint32) uint32     { vx.AtomicPoint(true); return atomic.AddUint32(a, d) }
func AddUint64(a *uint64, d uint64) uint64     { vx.AtomicPoint(true); return atomic.AddUint64(a, d) }
func AddUintptr(a *uintptr, d uintptr) uintptr { vx.AtomicPoint(true); return atomic.AddUintptr(a, d) }
func LoadInt32(a *int32) int32                 { vx.AtomicPoint(false); return atomic.LoadInt32(a) }
func LoadInt64(a *int64) int64                 { vx.AtomicPoint(false); return atomic.LoadInt64(a) }
func LoadUint32(a *uint32) uint32              { vx.AtomicPoint(false); return atomic.LoadUint32(a) }
func LoadUint64(a *uint64) uint64              { vx.AtomicPoint(false); return atomic.LoadUint64(a) }
func LoadUintptr(a *uintptr) uintptr           { vx.AtomicPoint(false); return atomic.LoadUintptr(a) }
func LoadPointer(a *unsafe.Pointer) unsafe.Pointer {
	vx.AtomicPoint(false)
	return atomic.LoadPointer(a)
}
func StoreInt32(a *int32, v int32)       { vx.AtomicPoint(true); atomic.StoreInt32(a, v) }
func StoreInt64(a *int64, v int64)       { vx.AtomicPoint(true); atomic.StoreInt64(a, v) }
func StoreUint32(a *uint32, v uint32)    { vx.AtomicPoint(true); atomic.StoreUint32(a, v) }
func StoreUint64(a *uint64, v uint64)    { vx.AtomicPoint(true); atomic.StoreUint64(a, v) }
func StoreUintptr(a *uintptr, v uintptr) { vx.AtomicPoint(true); atomic.StoreUintptr(a, v) }
func StorePointer(a *unsafe.Pointer, v unsafe.Pointer) {
	vx.AtomicPoint(true)
	atomic.StorePointer(a, v)
}
func SwapInt32(a *int32, v int32) int32     { vx.AtomicPoint(true); return atomic.SwapInt32(a, v) }
func SwapInt64(a *int64, v int64) int64     { vx.AtomicPoint(true); return atomic.SwapInt64(a, v) }
func SwapUint32(a *uint32, v uint32) uint32 { vx.AtomicPoint(true); return atomic.SwapUint32(a, v) }
func SwapUint64(a *uint64, v uint64) uint64 { vx.AtomicPoint(true); return atomic.SwapUint64(a, v) }
func CompareAndSwapInt32(a *int32, o, n int32) bool {
	vx.AtomicPoint(true)
	return atomic.CompareAndSwapInt32(a, o, n)
}
func CompareAndSwapInt64(a *int64, o, n int64) bool {
	vx.AtomicPoint(true)
	return atomic.CompareAndSwapInt64(a, o, n)
}
func CompareAndSwapUint32(a *uint32, o, n uint32) bool {
	vx.AtomicPoint(true)
	return atomic.CompareAndSwapUint32(a, o, n)
}
func CompareAndSwapUint64(a *uint64, o, n uint64) bool {
	vx.AtomicPoint(true)
	return atomic.CompareAndSwapUint64(a, o, n)
}
func CompareAndSwapPointer(a *unsafe.Pointer, o, n unsafe.Pointer) bool {
	vx.AtomicPoint(true)
	return atomic.CompareAndSwapPointer(a, o, n)
}

type Int32 struct{ v atomic.Int32 }

func (x *Int32) Load() int32        { vx.AtomicPoint(false); return x.v.Load() }
func (x *Int32) Store(n int32)      { vx.AtomicPoint(true); x.v.Store(n) }
func (x *Int32) Add(d int32) int32  { vx.AtomicPoint(true); return x.v.Add(d) }
func (x *Int32) Swap(n int32) int32 { vx.AtomicPoint(true); return x.v.Swap(n) }
func (x *Int32) CompareAndSwap(o, n int32) bool {
	vx.AtomicPoint(true)
	return x.v.CompareAndSwap(o, n)
}

type Int64 struct{ v atomic.Int64 }

func (x *Int64) Load() int64        { vx.AtomicPoint(false); return x.v.Load() }
func (x *Int64) Store(n int64)      { vx.AtomicPoint(true); x.v.Store(n) }
func (x *Int64) Add(d int64) int64  { vx.AtomicPoint(true); return x.v.Add(d) }
func (x *Int64) Swap(n int64) int64 { vx.AtomicPoint(true); return x.v.Swap(n) }
func (x *Int64) CompareAndSwap(o, n int64) bool {
	vx.AtomicPoint(true)
	return x.v.CompareAndSwap(o, n)
}

type Uint32 struct{ v atomic.Uint32 }

func (x *Uint32) Load() uint32         { vx.AtomicPoint(false); return x.v.Load() }
func (x *Uint32) Store(n uint32)       { vx.AtomicPoint(true); x.v.Store(n) }
func (x *Uint32) Add(d uint32) uint32  { vx.AtomicPoint(true); return x.v.Add(d) }
func (x *Uint32) Swap(n uint32) uint32 { vx.AtomicPoint(true); return x.v.Swap(n) }
func (x *Uint32) CompareAndSwap(o, n uint32) bool {
	vx.AtomicPoint(true)
	return x.v.CompareAndSwap(o, n)
}

type Uint64 struct{ v atomic.Uint64 }

func (x *Uint64) Load() uint64         { vx.AtomicPoint(false); return x.v.Load() }
func (x *Uint64) Store(n uint64)       { vx.AtomicPoint(true); x.v.Store(n) }
func (x *Uint64) Add(d uint64) uint64  { vx.AtomicPoint(true); return x.v.Add(d) }
func (x *Uint64) Swap(n uint64) uint64 { vx.AtomicPoint(true); return x.v.Swap(n) }
func (x *Uint64) CompareAndSwap(o, n uint64) bool {
	vx.AtomicPoint(true)
	return x.v.CompareAndSwap(o, n)
}

type Bool struct{ v atomic.Bool }

func (x *Bool) Load() bool                    { vx.AtomicPoint(false); return x.v.Load() }
func (x *Bool) Store(n bool)                  { vx.AtomicPoint(true); x.v.Store(n) }
func (x *Bool) Swap(n bool) bool              { vx.AtomicPoint(true); return x.v.Swap(n) }
func (x *Bool) CompareAndSwap(o, n bool) bool { vx.AtomicPoint(true); return x.v.CompareAndSwap(o, n) }

type Value struct{ v atomic.Value }

func (x *Value) Load() any                    { vx.AtomicPoint(false); return x.v.Load() }
func (x *Value) Store(n any)                  { vx.AtomicPoint(true); x.v.Store(n) }
func (x *Value) Swap(n any) any               { vx.AtomicPoint(true); return x.v.Swap(n) }
func (x *Value) CompareAndSwap(o, n any) bool { vx.AtomicPoint(true); return x.v.CompareAndSwap(o, n) }

type Pointer[T any] struct{ v atomic.Pointer[T] }

func (x *Pointer[T]) Load() *T     { vx.AtomicPoint(false); return x.v.Load() }
func (x *Pointer[T]) Store(n *T)   { vx.AtomicPoint(true); x.v.Store(n) }
func (x *Pointer[T]) Swap(n *T) *T { vx.AtomicPoint(true); return x.v.Swap(n) }
func (x *Pointer[T]) CompareAndSwap(o, n *T) bool {
	vx.AtomicPoint(true)
	return x.v.CompareAndSwap(o, n)
}
