package harness

import (
	"errors"
	"fmt"
	"strings"

	"github.com/fluffle/goirc/client"
	"github.com/fluffle/goirc/state"

	"verif/explore"
	"verif/vx"
)

// C16: a misbehaving handler cannot stop event delivery.

type c16Err struct{ Code int }

// c16NilErr / c16NilStr: an error and a Stringer whose methods dereference the receiver; panicking with a nil
// pointer of these types is legal, and formatting the value with %v copes with it ("<nil>" / PANIC=...).
type c16NilErr struct{ msg string }

func (e *c16NilErr) Error() string { return e.msg }

type c16NilStr struct{ s string }

func (x *c16NilStr) String() string { return x.s }

type c16Params struct {
	Who     string // which handler misbehaves: fg | bg | builtin-ping | builtin-433 | builtin-cap | bg-block
	At      int    // at which event (0-based) of the sequence
	Value   string // panic value kind: string | error | struct
	Custom  bool   // custom recovery hook instead of the default LogPanic
	NEvents int
	Late    bool   // the custom hook is installed through Config() after every handler is registered and the client is connected
	LateOwn bool   // with Late: it is written through the *Config the application handed to Client() instead ("the Config struct used by the client")
	LoneBG  bool   // the misbehaving background handler is the only background handler on its verb
	Depth   int    // the panic is raised this many calls below the handler (0 = in the handler itself)
	Literal string // "" = NewConfig | nil-me, empty-nick, empty-ident: the Config is a struct literal whose identity Client() has to repair
	Churn   bool   // a well-behaved foreground handler registers a background handler at every event and removes the one it registered before
}

func (p c16Params) name() string {
	n := fmt.Sprintf("misbehave/%s/at=%d/of=%d/value=%s/custom=%v", p.Who, p.At, p.NEvents, p.Value, p.Custom)
	if p.Late {
		n += "/late-hook"
	}
	if p.LateOwn {
		n += "-through-own-pointer"
	}
	if p.Churn {
		n += "/churn"
	}
	if p.LoneBG {
		n += "/lone-bg"
	}
	if p.Depth > 0 {
		n += fmt.Sprintf("/depth=%d", p.Depth)
	}
	if p.Literal != "" {
		n += "/config-literal=" + p.Literal
	}
	return n
}

func c16PanicValue(kind string) interface{} {
	switch kind {
	case "error":
		return errors.New("boom-error")
	case "struct":
		return c16Err{Code: 42}
	case "nil-error":
		var e *c16NilErr
		return error(e)
	case "nil-stringer":
		var x *c16NilStr
		return x
	}
	return "boom-string"
}

func c16Scenario(p c16Params) *explore.Scenario {
	sc := &explore.Scenario{
		Family: "misbehave",
		Name:   p.name(),
		Params: map[string]interface{}{"who": p.Who, "at": p.At, "events": p.NEvents, "value": p.Value, "custom": p.Custom, "late": p.Late, "churn": p.Churn, "lone_bg": p.LoneBG, "depth": p.Depth, "literal": p.Literal, "late_own": p.LateOwn},
		Opt:    vx.Options{MaxSteps: 400000},
	}
	// the event sequence: PRIVMSGs numbered 0..n-1; a built-in handler is driven into a panic by an extra
	// malformed line of its verb sent right after event p.At
	var lines []string
	for i := 0; i < p.NEvents; i++ {
		lines = append(lines, fmt.Sprintf(":o!u@h PRIVMSG #c :e%d", i))
		if i == p.At {
			switch p.Who {
			case "builtin-ping":
				lines = append(lines, "PING") // no token: the built-in handler indexes Args[0]
			case "builtin-433":
				lines = append(lines, ":irc.example 433")
			case "builtin-cap":
				lines = append(lines, ":irc.example CAP *")
			case "builtin-stjoin":
				lines = append(lines, ":o!u@h JOIN") // state tracking on: the tracker's JOIN handler indexes Args[0]
			}
		}
	}
	builtin := strings.HasPrefix(p.Who, "builtin-")
	sc.Main = func(env *vx.Env) {
		hook := func(conn *client.Conn, line *client.Line) {
			if r := recover(); r != nil {
				vx.Observe("ev", fmt.Sprintf("recovered cmd=%s value=%v type=%T", line.Cmd, r, r))
			}
		}
		var c *client.Conn
		var own *client.Config
		if p.Literal == "" {
			c = NewClient("me", func(cfg *client.Config) {
				own = cfg
				if p.Custom && !p.Late {
					cfg.Recover = hook
				}
			})
		} else {
			// a hand-built Config: Client() repairs the identity and must leave everything else alone
			cfg := &client.Config{Server: "irc.example:6667", Proxy: "verif://proxy", Flood: true, NewNick: client.DefaultNewNick, Recover: (*client.Conn).LogPanic}
			switch p.Literal {
			case "empty-nick":
				cfg.Me = &state.Nick{Ident: "ident", Name: "Real Name"}
			case "empty-ident":
				cfg.Me = &state.Nick{Nick: "me", Name: "Real Name"}
			}
			if p.Custom && !p.Late {
				cfg.Recover = hook
			}
			c = client.Client(cfg)
			// (where to connect is written again through Config(), as an application may: the scenario is about
			// the recovery function, not about what else a repaired Config keeps)
			live := c.Config()
			live.Server, live.Proxy, live.Flood = "irc.example:6667", "verif://proxy", true
		}
		var boom func(d int, v interface{})
		boom = func(d int, v interface{}) {
			if d <= 0 {
				panic(v)
			}
			boom(d-1, v)
			vx.ObserveNoPoint("ev", "unreachable") // keeps the call from becoming a tail call
		}
		evNo := func(line *client.Line) int {
			var i int
			fmt.Sscanf(line.Text(), "e%d", &i)
			return i
		}
		good := func(id string) client.HandlerFunc {
			return func(conn *client.Conn, line *client.Line) {
				vx.Observe("ev", fmt.Sprintf("good %s e%d", id, evNo(line)))
			}
		}
		c.HandleFunc("PRIVMSG", good("fg-a"))
		c.HandleFunc("PRIVMSG", func(conn *client.Conn, line *client.Line) {
			i := evNo(line)
			vx.Observe("ev", fmt.Sprintf("enter fg-x e%d", i))
			if p.Who == "fg" && i == p.At {
				boom(p.Depth, c16PanicValue(p.Value))
			}
			vx.Observe("ev", fmt.Sprintf("good fg-x e%d", i))
		})
		c.HandleFunc("PRIVMSG", good("fg-b"))
		if p.Churn {
			var prev client.Remover
			c.HandleFunc("PRIVMSG", func(conn *client.Conn, line *client.Line) {
				i := evNo(line)
				if prev != nil {
					prev.Remove()
				}
				prev = conn.HandleBG("PRIVMSG", client.HandlerFunc(func(conn *client.Conn, line *client.Line) {}))
				vx.Observe("ev", fmt.Sprintf("good fg-churn e%d", i))
			})
		}
		if !p.LoneBG {
			c.HandleBG("PRIVMSG", good("bg-a"))
		}
		c.HandleBG("PRIVMSG", client.HandlerFunc(func(conn *client.Conn, line *client.Line) {
			i := evNo(line)
			if p.Who == "bg" && i == p.At {
				boom(p.Depth, c16PanicValue(p.Value))
			}
			if (p.Who == "bg-block" && i == p.At) || p.Who == "bg-block-all" {
				vx.MarkByDesign()
				vx.Observe("ev", fmt.Sprintf("blocking bg-x e%d", i))
				vx.NewEvent("never").Wait()
			}
			vx.Observe("ev", fmt.Sprintf("good bg-x e%d", i))
		}))
		// user handlers on the verbs whose built-in handler panics: they must still run
		if p.Who == "builtin-stjoin" {
			c.EnableStateTracking()
		}
		for _, v := range []string{"PING", "433", "CAP", "JOIN"} {
			v := v
			c.HandleFunc(v, func(conn *client.Conn, line *client.Line) { vx.Observe("ev", "good fg-on-"+v) })
			c.HandleBG(v, client.HandlerFunc(func(conn *client.Conn, line *client.Line) { vx.Observe("ev", "good bg-on-"+v) }))
		}
		var vc *vx.Conn
		env.ConnSetup = func(x *vx.Conn) { vc = x }
		if err := c.Connect(); err != nil {
			return
		}
		vx.Quiesce()
		if p.Custom && p.Late {
			if p.LateOwn && own != nil {
				own.Recover = hook
			} else {
				c.Config().Recover = hook
			}
		}
		vc.SendLines(lines...)
		vc.SendLines("PING :still-alive")
		vx.Quiesce()
		if p.Who == "builtin-stjoin" {
			// the tracker can still be switched off afterwards, and the session goes on
			c.DisableStateTracking()
			vc.SendLines("PING :after-disable")
			vx.Quiesce()
			vx.Observe("ev", fmt.Sprintf("after-disable pong=%v", HasLine(vc.Lines(), "PONG :after-disable")))
		}
		vx.Observe("ev", fmt.Sprintf("end connected=%v", c.Connected()))
		vc.EOF()
		vx.Quiesce()
	}
	sc.Check = func(o *vx.Outcome) []explore.Finding {
		if fs := stdOutcome(o); fs != nil {
			return fs
		}
		var fs []explore.Finding
		ev := o.Log("ev")
		bad := func(id, msg string) {
			fs = append(fs, explore.Finding{Oracle: id, Msg: msg + " :: " + strings.Join(ev, "; ")})
		}
		cnt := func(s string) int {
			n := 0
			for _, r := range ev {
				if r == s {
					n++
				}
			}
			return n
		}
		for i := 0; i < p.NEvents; i++ {
			for _, h := range []string{"fg-a", "fg-b", "bg-a"} {
				if h == "bg-a" && p.LoneBG {
					continue
				}
				if cnt(fmt.Sprintf("good %s e%d", h, i)) != 1 {
					bad("sibling-not-delivered", fmt.Sprintf("well-behaved handler %s ran %d times for event %d", h, cnt(fmt.Sprintf("good %s e%d", h, i)), i))
				}
			}
			if p.Churn && cnt(fmt.Sprintf("good fg-churn e%d", i)) != 1 {
				bad("later-event-not-delivered", fmt.Sprintf("the foreground handler that adds and removes background handlers completed %d times for event %d", cnt(fmt.Sprintf("good fg-churn e%d", i)), i))
			}
			wantX := 1
			if p.Who == "fg" && i == p.At {
				wantX = 0
			}
			if cnt(fmt.Sprintf("good fg-x e%d", i)) != wantX || cnt(fmt.Sprintf("enter fg-x e%d", i)) != 1 {
				bad("later-event-not-delivered", fmt.Sprintf("handler fg-x: event %d entered %d times, completed %d times", i, cnt(fmt.Sprintf("enter fg-x e%d", i)), cnt(fmt.Sprintf("good fg-x e%d", i))))
			}
			wantB := 1
			if ((p.Who == "bg" || p.Who == "bg-block") && i == p.At) || p.Who == "bg-block-all" {
				wantB = 0
			}
			if cnt(fmt.Sprintf("good bg-x e%d", i)) != wantB {
				bad("later-event-not-delivered", fmt.Sprintf("handler bg-x completed %d times for event %d, expected %d", cnt(fmt.Sprintf("good bg-x e%d", i)), i, wantB))
			}
		}
		// foreground order of the well-behaved handler is the wire order
		last := -1
		for _, r := range ev {
			var i int
			if n, _ := fmt.Sscanf(r, "good fg-a e%d", &i); n == 1 {
				if i < last {
					bad("order", "foreground delivery out of order after a handler misbehaved")
				}
				last = i
			}
		}
		if builtin {
			v := map[string]string{"builtin-ping": "PING", "builtin-433": "433", "builtin-cap": "CAP", "builtin-stjoin": "JOIN"}[p.Who]
			if p.Who == "builtin-stjoin" && cnt("after-disable pong=true") != 1 {
				bad("later-event-not-delivered", "after a tracker handler had panicked, DisableStateTracking() did not return or the PING sent after it was not answered")
			}
			// the PING verb also receives the final well-formed PING
			want := 1
			if v == "PING" {
				want = 2
			}
			if cnt("good fg-on-"+v) != want || cnt("good bg-on-"+v) != want {
				bad("sibling-not-delivered", fmt.Sprintf("user handlers on %s ran %d/%d times although only the built-in handler panicked (expected %d)", v, cnt("good fg-on-"+v), cnt("good bg-on-"+v), want))
			}
		}
		// recovery
		panics := 1
		if p.Who == "bg-block" || p.Who == "bg-block-all" {
			panics = 0
		}
		if p.Custom {
			n := 0
			for _, r := range ev {
				if strings.HasPrefix(r, "recovered ") {
					n++
					want := map[string]string{"string": "value=boom-string type=string", "error": "value=boom-error type=*errors.errorString", "struct": "value={42} type=harness.c16Err",
						"nil-error": "type=*harness.c16NilErr", "nil-stringer": "type=*harness.c16NilStr"}[p.Value]
					if !builtin && !strings.HasSuffix(r, want) {
						bad("recover-value", "the recovery function did not receive the panic value: "+r)
					}
				}
			}
			if n != panics {
				bad("recover-count", fmt.Sprintf("the configured recovery function recovered %d panics, expected %d", n, panics))
			}
		} else {
			// "by default it is logged": some record, at whatever level, must show the panic value
			// for the typed nil values any record made while recovering counts (what %v makes of them is fmt's business)
			val := map[string]string{"string": "boom-string", "error": "boom-error", "struct": "42", "nil-error": "", "nil-stringer": ""}[p.Value]
			if builtin {
				val = "index out of range"
			}
			n := 0
			for _, l := range o.Logs {
				if strings.Contains(fmt.Sprintf(l.Format, l.Args...), val) {
					n++
				}
			}
			if n < panics {
				bad("panic-not-logged", fmt.Sprintf("the default recovery logged %d records showing the panic value %q, expected at least %d", n, val, panics))
			}
		}
		// the connection is alive and responsive afterwards
		if cnt("end connected=true") != 1 {
			bad("connection-dropped", "the connection went down after a handler misbehaved")
		}
		if !HasLine(o.Conns[0].Lines(), "PONG :still-alive") {
			bad("later-event-not-delivered", "a PING sent after the misbehaving handler was not answered")
		}
		// nothing but the blocked-by-design handler is left
		leaks := ClientLeaks(o)
		if p.Who == "bg-block" || p.Who == "bg-block-all" {
			// the goroutine that dispatched the background set waits for the handler that never returns: inherent
			allowed := 1
			if p.Who == "bg-block-all" {
				allowed = p.NEvents
			}
			var rest []string
			waiting := 0
			for _, b := range o.Blocked {
				if b.Client && !b.ByDesign {
					if b.Op == "WaitGroup.Wait" && waiting < allowed {
						waiting++
						continue
					}
					rest = append(rest, b.String())
				}
			}
			leaks = rest
		}
		if len(leaks) > 0 {
			bad("leak", "tasks left at the end: "+strings.Join(leaks, " | "))
		}
		if p.Who == "bg-block-all" {
			nb := 0
			for _, b := range o.Blocked {
				if b.ByDesign {
					nb++
				}
			}
			if nb != p.NEvents {
				bad("blocked-count", fmt.Sprintf("%d blocked-by-design tasks at the end, expected one background handler per event (%d)", nb, p.NEvents))
			}
		}
		if p.Who == "bg-block" {
			nb := 0
			for _, b := range o.Blocked {
				if b.ByDesign {
					nb++
				}
			}
			if nb != 1 {
				bad("blocked-count", fmt.Sprintf("%d blocked-by-design tasks at the end, expected exactly the one background handler", nb))
			}
		}
		return fs
	}
	return sc
}

// c16LifecycleScenario: the misbehaving handler sits on one of the events the client generates itself (REGISTER,
// CONNECTED, DISCONNECTED), registered FIRST of three foreground resp. two background handlers; its siblings
// still get the event, the panic reaches the recovery function, and the session goes on (two connections).
func c16LifecycleScenario(event, who string, custom bool) *explore.Scenario {
	sc := &explore.Scenario{
		Family: "misbehave",
		Name:   fmt.Sprintf("misbehave-lifecycle/%s/%s/custom=%v", event, who, custom),
		Params: map[string]interface{}{"event": event, "who": who, "custom": custom},
		Opt:    vx.Options{MaxSteps: 400000},
	}
	sc.Main = func(env *vx.Env) {
		c := NewClient("me", func(cfg *client.Config) {
			if custom {
				cfg.Recover = func(conn *client.Conn, line *client.Line) {
					if r := recover(); r != nil {
						vx.Observe("ev", fmt.Sprintf("recovered cmd=%s value=%v", line.Cmd, r))
					}
				}
			}
		})
		mk := func(id string, bad bool) client.HandlerFunc {
			return func(conn *client.Conn, line *client.Line) {
				if bad {
					panic("boom-" + id)
				}
				vx.Observe("ev", "good "+id)
			}
		}
		c.HandleFunc(event, mk("fg-x", who == "fg"))
		c.HandleFunc(event, mk("fg-a", false))
		c.HandleFunc(event, mk("fg-b", false))
		c.HandleBG(event, mk("bg-x", who == "bg"))
		c.HandleBG(event, mk("bg-a", false))
		for cycle := 0; cycle < 2; cycle++ {
			var vc *vx.Conn
			env.ConnSetup = func(x *vx.Conn) { vc = x }
			if err := c.Connect(); err != nil {
				vx.Observe("ev", "connect-failed "+err.Error())
				return
			}
			vx.Quiesce()
			vc.SendLines(welcome, "PING :still-alive")
			vx.Quiesce()
			vx.Observe("ev", fmt.Sprintf("up connected=%v pong=%v", c.Connected(), HasLine(vc.Lines(), "PONG :still-alive")))
			vc.EOF()
			vx.Quiesce()
			vx.Observe("ev", fmt.Sprintf("down connected=%v", c.Connected()))
		}
	}
	sc.Check = func(o *vx.Outcome) []explore.Finding {
		if fs := stdOutcome(o); fs != nil {
			return fs
		}
		var fs []explore.Finding
		ev := o.Log("ev")
		bad := func(id, msg string) {
			fs = append(fs, explore.Finding{Oracle: id, Msg: msg + " :: " + strings.Join(ev, "; ")})
		}
		cnt := func(s string) int {
			n := 0
			for _, r := range ev {
				if r == s {
					n++
				}
			}
			return n
		}
		for _, h := range []string{"fg-x", "fg-a", "fg-b", "bg-x", "bg-a"} {
			want := 2
			if h == who+"-x" {
				want = 0
			}
			if cnt("good "+h) != want {
				bad("sibling-not-delivered", fmt.Sprintf("handler %s on %s completed %d times over two connections, expected %d", h, event, cnt("good "+h), want))
			}
		}
		if cnt("up connected=true pong=true") != 2 || cnt("down connected=false") != 2 {
			bad("later-event-not-delivered", "the two connections did not both come up, answer a PING and go down")
		}
		if custom {
			n := 0
			for _, r := range ev {
				if strings.HasPrefix(r, "recovered ") {
					n++
					if !strings.HasSuffix(r, "value=boom-"+who+"-x") {
						bad("recover-value", "the recovery function did not receive the panic value: "+r)
					}
				}
			}
			if n != 2 {
				bad("recover-count", fmt.Sprintf("the configured recovery function recovered %d panics, expected 2", n))
			}
		} else {
			n := 0
			for _, l := range o.Logs {
				if strings.Contains(fmt.Sprintf(l.Format, l.Args...), "boom-"+who+"-x") {
					n++
				}
			}
			if n < 2 {
				bad("panic-not-logged", fmt.Sprintf("the default recovery logged %d records showing the panic value, expected at least 2", n))
			}
		}
		if leaks := ClientLeaks(o); len(leaks) > 0 {
			bad("leak", "tasks left at the end: "+strings.Join(leaks, " | "))
		}
		return fs
	}
	return sc
}

// c16TrackingRaceScenario: the one way to make the built-in 001 handler panic is to switch state tracking off
// between two of its statements (the library does not synchronise the two). Whether it panics or not, CONNECTED
// and every later event are delivered. Statement-granularity scheduling on Conn while the welcome is processed.
func c16TrackingRaceScenario(custom bool) *explore.Scenario {
	sc := &explore.Scenario{
		Family: "misbehave",
		Name:   fmt.Sprintf("misbehave/builtin-001-vs-DisableStateTracking/custom=%v", custom),
		Params: map[string]interface{}{"who": "builtin-001-race", "custom": custom},
		Opt:    vx.Options{MaxSteps: 100000, StmtMode: true},
	}
	sc.Main = func(env *vx.Env) {
		c := NewClient("me", func(cfg *client.Config) {
			if custom {
				cfg.Recover = func(conn *client.Conn, line *client.Line) {
					if r := recover(); r != nil {
						vx.Observe("ev", "recovered cmd="+line.Cmd)
					}
				}
			}
		})
		c.EnableStateTracking()
		c.HandleFunc(client.CONNECTED, func(conn *client.Conn, line *client.Line) { vx.Observe("ev", "CONNECTED") })
		c.HandleFunc("PRIVMSG", func(conn *client.Conn, line *client.Line) { vx.Observe("ev", "good fg "+line.Text()) })
		c.HandleBG("PRIVMSG", client.HandlerFunc(func(conn *client.Conn, line *client.Line) { vx.Observe("ev", "good bg "+line.Text()) }))
		var vc *vx.Conn
		env.ConnSetup = func(x *vx.Conn) { vc = x }
		if err := c.Connect(); err != nil {
			return
		}
		vx.Quiesce()
		vx.StmtMode(true)
		done := vx.NewEvent("racer-done")
		env.Go("racer", func() {
			c.DisableStateTracking()
			done.Set()
		})
		vc.SendLines(welcome)
		done.Wait()
		vx.Quiesce()
		vx.StmtMode(false)
		vc.SendLines(":o!u@h PRIVMSG #c :e0", ":o!u@h PRIVMSG #c :e1", "PING :still-alive")
		vx.Quiesce()
		vx.Observe("ev", fmt.Sprintf("end connected=%v", c.Connected()))
		vc.EOF()
		vx.Quiesce()
	}
	sc.Check = func(o *vx.Outcome) []explore.Finding {
		if fs := stdOutcome(o); fs != nil {
			return fs
		}
		ev := o.Log("ev")
		var fs []explore.Finding
		bad := func(id, msg string) {
			fs = append(fs, explore.Finding{Oracle: id, Msg: msg + " :: " + strings.Join(ev, "; ")})
		}
		if n := count(ev, "CONNECTED"); n != 1 {
			bad("later-event-not-delivered", fmt.Sprintf("CONNECTED was delivered %d times after the welcome (the built-in 001 handler may have panicked; that must not matter)", n))
		}
		for _, e := range []string{"e0", "e1"} {
			if count(ev, "good fg "+e) != 1 || count(ev, "good bg "+e) != 1 {
				bad("later-event-not-delivered", "event "+e+" after the welcome did not reach both user handlers once")
			}
		}
		if count(ev, "end connected=true") != 1 || !HasLine(o.Conns[0].Lines(), "PONG :still-alive") {
			bad("connection-dropped", "the connection is not alive and responsive after the welcome")
		}
		if l := ClientLeaks(o); len(l) > 0 {
			bad("leak", "tasks left at the end: "+strings.Join(l, " | "))
		}
		return fs
	}
	return sc
}

// c16TwoPanicsScenario: two foreground and two background handlers of one event panic at the same time, under
// statement-granularity interleaving of the recovery path on Conn: whatever the recovery does with the connection
// object, the four recoveries must not race with each other (a racing map write kills the process).
func c16TwoPanicsScenario() *explore.Scenario {
	sc := &explore.Scenario{
		Family: "misbehave",
		Name:   "misbehave/four-panics-at-once/default-recovery",
		Params: map[string]interface{}{"who": "four-at-once"},
		Opt:    vx.Options{MaxSteps: 100000, StmtMode: true},
	}
	sc.Main = func(env *vx.Env) {
		c := NewClient("me", nil)
		for i := 0; i < 2; i++ {
			i := i
			c.HandleFunc("PRIVMSG", func(conn *client.Conn, line *client.Line) {
				if line.Text() == "e0" {
					panic(fmt.Sprintf("boom-fg%d", i))
				}
				vx.Observe("ev", fmt.Sprintf("good fg%d %s", i, line.Text()))
			})
			c.HandleBG("PRIVMSG", client.HandlerFunc(func(conn *client.Conn, line *client.Line) {
				if line.Text() == "e0" {
					panic(fmt.Sprintf("boom-bg%d", i))
				}
				vx.Observe("ev", fmt.Sprintf("good bg%d %s", i, line.Text()))
			}))
		}
		var vc *vx.Conn
		env.ConnSetup = func(x *vx.Conn) { vc = x }
		if err := c.Connect(); err != nil {
			return
		}
		vx.Quiesce()
		vx.StmtMode(true)
		vc.SendLines(":o!u@h PRIVMSG #c :e0")
		vx.Quiesce()
		_ = c.String()
		vx.StmtMode(false)
		vc.SendLines(":o!u@h PRIVMSG #c :e1", "PING :still-alive")
		vx.Quiesce()
		vx.Observe("ev", fmt.Sprintf("end connected=%v", c.Connected()))
		vc.EOF()
		vx.Quiesce()
	}
	sc.Check = func(o *vx.Outcome) []explore.Finding {
		if fs := stdOutcome(o); fs != nil {
			return fs
		}
		ev := o.Log("ev")
		var fs []explore.Finding
		bad := func(id, msg string) {
			fs = append(fs, explore.Finding{Oracle: id, Msg: msg + " :: " + strings.Join(ev, "; ")})
		}
		for _, r := range o.Races {
			if strings.Contains(r.Field, ":Conn.") && (r.WriteA || r.WriteB) {
				bad("data-race-in-recovery", "two recoveries (or a recovery and a query) touch the connection object without synchronisation: "+r.String())
				break
			}
		}
		for _, h := range []string{"fg0", "fg1", "bg0", "bg1"} {
			if count(ev, "good "+h+" e1") != 1 {
				bad("later-event-not-delivered", "handler "+h+" did not get the event after the one at which all four handlers panicked")
			}
		}
		n := 0
		for _, l := range o.Logs {
			if strings.Contains(fmt.Sprintf(l.Format, l.Args...), "boom-") {
				n++
			}
		}
		if n < 4 {
			bad("panic-not-logged", fmt.Sprintf("the default recovery logged %d of the 4 panics", n))
		}
		if count(ev, "end connected=true") != 1 || !HasLine(o.Conns[0].Lines(), "PONG :still-alive") {
			bad("connection-dropped", "the connection is not alive and responsive afterwards")
		}
		if l := ClientLeaks(o); len(l) > 0 {
			bad("leak", "tasks left at the end: "+strings.Join(l, " | "))
		}
		return fs
	}
	return sc
}

func init() {
	Register(&Prop{
		ID:   "C16",
		Rule: "event sequences of 2-4 PRIVMSGs with three foreground and two background user handlers; at one event one handler misbehaves: user foreground / user background panics with a string, error or struct value or a nil pointer whose Error / String method would panic, a built-in handler (PING without token, 433 without arguments, CAP with one argument; with tracking on a JOIN without channel, followed by DisableStateTracking) panics on its own input, or a background handler blocks for ever (next to a well-behaved one, or alone on its verb); default LogPanic or a custom recovery hook (set in the Config given to Client, or after all handlers are registered: through Config(), or through the *Config the application gave to Client()); optionally a foreground handler that registers a background handler at every event and removes the previous one; the panic raised 40 / 300 calls below the handler; the Config a struct literal with nil Me / empty nick / empty ident (Client() repairs the identity); a handler registered first on REGISTER / CONNECTED / DISCONNECTED that panics at both of two connections; every execution within the deviation budgets; distinct = distinct canonical observation per scenario",
		Assumptions: []string{
			"interleavings at synchronisation/channel/socket granularity (DESIGN.md 3.8); statement granularity on Conn in the scenario that races DisableStateTracking() against the built-in 001 handler and in the one where four handlers of one event panic at once (race monitor on the fields of Conn)",
			"panic(nil) is left out: its meaning depends on the module's go directive, which the instrumented copy changes",
		},
		Jobs: func(tier string) []Job {
			var jobs []Job
			add := func(p c16Params) {
				bs := []explore.Budget{{0, 0}, {1, 0}, {2, 0}}
				spec := ExploreSpec{Sc: c16Scenario(p), Variants: []int{1, 2, 3}, Budgets: bs, Cache: true}
				if tier != "thorough" {
					spec.Shallow = []int{2, 3}
				}
				if len(jobs) == 0 {
					spec.CrossChk = &explore.Budget{K: 2}
				}
				jobs = append(jobs, ExploreJob("C16", spec, 10*p.NEvents))
			}
			for _, who := range []string{"fg", "bg"} {
				for _, val := range []string{"string", "error", "struct"} {
					for _, custom := range []bool{false, true} {
						add(c16Params{Who: who, At: 0, Value: val, Custom: custom, NEvents: 2})
						if tier == "thorough" || val == "string" {
							add(c16Params{Who: who, At: 1, Value: val, Custom: custom, NEvents: 3})
						}
					}
				}
			}
			for _, who := range []string{"builtin-ping", "builtin-433", "builtin-cap", "builtin-stjoin"} {
				for _, custom := range []bool{false, true} {
					add(c16Params{Who: who, At: 0, Value: "runtime", Custom: custom, NEvents: 2})
					if tier == "thorough" {
						add(c16Params{Who: who, At: 1, Value: "runtime", Custom: custom, NEvents: 3})
					}
				}
			}
			// the recovery hook installed after the handlers were registered is the configured one
			for _, who := range []string{"fg", "bg", "builtin-ping", "builtin-433"} {
				add(c16Params{Who: who, At: 0, Value: "string", Custom: true, Late: true, NEvents: 2})
			}
			add(c16Params{Who: "fg", At: 0, Value: "string", Custom: true, Late: true, LateOwn: true, NEvents: 2})
			add(c16Params{Who: "bg", At: 0, Value: "error", Custom: true, Late: true, LateOwn: true, NEvents: 2})
			// handler registrations and removals from inside a handler while another handler misbehaves
			add(c16Params{Who: "bg-block", At: 0, Value: "none", NEvents: 3, Churn: true})
			add(c16Params{Who: "bg-block-all", At: 0, Value: "none", NEvents: 3, Churn: true})
			add(c16Params{Who: "fg", At: 0, Value: "string", NEvents: 2, Churn: true})
			add(c16Params{Who: "bg", At: 1, Value: "error", Custom: true, NEvents: 3, Churn: true})
			// panic values whose own methods panic (typed nil pointers)
			for _, who := range []string{"fg", "bg"} {
				for _, val := range []string{"nil-error", "nil-stringer"} {
					for _, custom := range []bool{false, true} {
						add(c16Params{Who: who, At: 0, Value: val, Custom: custom, NEvents: 2})
					}
				}
			}
			// a panic raised far below the handler, and a Config literal whose identity Client() has to repair
			for _, who := range []string{"fg", "bg"} {
				for _, custom := range []bool{false, true} {
					add(c16Params{Who: who, At: 0, Value: "string", Custom: custom, NEvents: 2, Depth: 40})
					for _, lit := range []string{"nil-me", "empty-nick", "empty-ident"} {
						if tier != "thorough" && lit == "empty-ident" && who == "bg" {
							continue
						}
						add(c16Params{Who: who, At: 0, Value: "error", Custom: custom, NEvents: 2, Literal: lit})
					}
				}
			}
			add(c16Params{Who: "fg", At: 0, Value: "string", NEvents: 2, Depth: 300})
			// misbehaving handlers on the events the client generates itself
			for _, ev := range []string{client.REGISTER, client.CONNECTED, client.DISCONNECTED} {
				for _, who := range []string{"fg", "bg"} {
					for _, custom := range []bool{false, true} {
						jobs = append(jobs, ExploreJob("C16", ExploreSpec{Sc: c16LifecycleScenario(ev, who, custom), Variants: []int{1, 2, 3}, Budgets: []explore.Budget{{0, 0}, {1, 0}}, Cache: true}, 20))
					}
				}
			}
			// the misbehaving background handler is alone on its verb
			add(c16Params{Who: "bg-block", At: 0, Value: "none", NEvents: 3, LoneBG: true})
			add(c16Params{Who: "bg-block-all", At: 0, Value: "none", NEvents: 3, LoneBG: true})
			add(c16Params{Who: "bg", At: 0, Value: "string", NEvents: 2, LoneBG: true})
			for _, custom := range []bool{false, true} {
				jobs = append(jobs, ExploreJob("C16", ExploreSpec{Sc: c16TrackingRaceScenario(custom), Variants: []int{1, 2, 3}, Budgets: []explore.Budget{{0, 0}, {1, 0}, {2, 0}}, Cache: true}, 40))
			}
			jobs = append(jobs, ExploreJob("C16", ExploreSpec{Sc: c16TwoPanicsScenario(), Variants: []int{1, 2, 3}, Budgets: []explore.Budget{{0, 0}, {1, 0}}, Cache: false}, 40))
			add(c16Params{Who: "bg-block", At: 0, Value: "none", NEvents: 2})
			add(c16Params{Who: "bg-block", At: 0, Value: "none", NEvents: 3})
			add(c16Params{Who: "bg-block", At: 1, Value: "none", Custom: true, NEvents: 3})
			// a background handler that blocks on EVERY event must not delay foreground delivery either, however many events
			jobs = append(jobs, ExploreJob("C16", ExploreSpec{Sc: c16Scenario(c16Params{Who: "bg-block-all", At: 0, Value: "none", NEvents: 80}), Variants: []int{1, 3}, Budgets: []explore.Budget{{0, 0}}, Cache: true}, 80))
			jobs = append(jobs, ExploreJob("C16", ExploreSpec{Sc: c16Scenario(c16Params{Who: "bg-block-all", At: 0, Value: "none", NEvents: 3}), Variants: []int{1, 2, 3}, Budgets: []explore.Budget{{0, 0}, {1, 0}, {2, 0}}, Cache: true}, 30))
			// a background handler that never returns must not delay ANY number of later events
			jobs = append(jobs, ExploreJob("C16", ExploreSpec{Sc: c16Scenario(c16Params{Who: "bg-block", At: 0, Value: "none", NEvents: 80}), Variants: []int{1, 3}, Budgets: []explore.Budget{{0, 0}}, Cache: true}, 80))
			if tier == "thorough" {
				add(c16Params{Who: "fg", At: 2, Value: "struct", NEvents: 4})
				add(c16Params{Who: "bg-block", At: 1, Value: "none", NEvents: 4})
			}
			return jobs
		},
	})
}
