package harness

import (
	"fmt"
	"strings"

	"github.com/fluffle/goirc/client"

	"verif/explore"
	"verif/vx"
)

// C07: disconnect always completes, leaks nothing, client can reconnect.

type c07Params struct {
	Backlog int    // inbound lines pending when the disconnect starts
	Cause   string // close | eof
	Emit    int    // lines a foreground handler sends per event
}

func c07Scenario(p c07Params, chanCap int) *explore.Scenario {
	name := fmt.Sprintf("teardown/backlog=%d/cause=%s/emit=%d/cap=%d", p.Backlog, p.Cause, p.Emit, chanCap)
	sc := &explore.Scenario{
		Family: "teardown",
		Name:   name,
		Params: map[string]interface{}{"inbound_backlog": p.Backlog, "cause": p.Cause, "emit": p.Emit, "chancap": chanCap},
		Opt:    vx.Options{ChanCap: chanCap, MaxSteps: 20000},
	}
	sc.Main = func(env *vx.Env) {
		c := NewClient("me", nil)
		first := vx.NewEvent("first-handled")
		gate := vx.NewEvent("gate")
		c.HandleFunc("PRIVMSG", func(conn *client.Conn, line *client.Line) {
			vx.Observe("ev", "privmsg "+line.Text())
			for i := 0; i < p.Emit; i++ {
				conn.Raw(fmt.Sprintf("PRIVMSG #c :echo %s %d", line.Text(), i))
			}
			if line.Text() == "m0" {
				// hold the event loop in the first line until the harness has
				// built the backlog it wants
				first.Set()
				gate.Wait()
			}
		})
		c.HandleFunc(client.DISCONNECTED, func(conn *client.Conn, line *client.Line) {
			vx.Observe("ev", fmt.Sprintf("DISCONNECTED connected=%v", conn.Connected()))
		})
		env.ConnSetup = func(vc *vx.Conn) {
			vc.Preload(Privmsgs(0, p.Backlog+1))
			if p.Cause == "eof" {
				vc.PreloadEOF()
			}
		}
		if err := c.Connect(); err != nil {
			vx.Observe("ev", "connect-error "+err.Error())
			return
		}
		vx.Observe("ev", "connected")
		first.Wait()
		vx.Quiesce() // the receive goroutine has queued everything it can
		gate.Set()
		if p.Cause == "close" {
			vx.Observe("ev", "close-call")
			c.Close()
			vx.Observe("ev", "close-ret")
		}
		vx.Quiesce()
		vx.Observe("ev", fmt.Sprintf("end connected=%v", c.Connected()))
	}
	sc.Check = func(o *vx.Outcome) []explore.Finding {
		var fs []explore.Finding
		ev := o.Log("ev")
		switch o.Kind {
		case "crash":
			return []explore.Finding{{"crash", o.Crash.Task + ": " + o.Crash.Value}}
		case "deadlock":
			return []explore.Finding{{"deadlock", "disconnect never completes: " + o.BlockedSig()}}
		}
		if n := count(ev, "DISCONNECTED"); n != 1 {
			fs = append(fs, explore.Finding{"disconnected-count", fmt.Sprintf("%d DISCONNECTED events for one connection (blocked: %s)", n, o.BlockedSig())})
		}
		if l := ClientLeaks(o); len(l) > 0 {
			fs = append(fs, explore.Finding{"leak", "client goroutines alive after disconnect: " + strings.Join(l, " | ")})
		}
		if len(ev) > 0 && !strings.HasSuffix(ev[len(ev)-1], "connected=false") {
			fs = append(fs, explore.Finding{"still-connected", "Connected() is true after the disconnect"})
		}
		return fs
	}
	return sc
}

func init() {
	Register(&Prop{
		ID:   "C07",
		Rule: "every execution of each teardown/reconnect scenario (inbound backlog x outbound backlog x cause x reconnect mode x queue capacity) within the deviation budgets; distinct = distinct canonical observation (event log + wire transcript + blocked tasks) per scenario; a scenario with a single outcome or never more than one enabled task is flagged vacuous",
		Assumptions: []string{
			"interleavings are explored at synchronisation/channel/socket/timer granularity (DESIGN.md 3.8)",
			"capacity-scaled scenarios (chancap=2) are an abstraction of the 32-slot queues; unscaled ones are the real thing",
		},
		Jobs: func(tier string) []Job {
			var jobs []Job
			for _, bl := range []int{0, 1, 33, 64, 65, 70} {
				sc := c07Scenario(c07Params{Backlog: bl, Cause: "close"}, 0)
				jobs = append(jobs, ExploreJob("C07", ExploreSpec{Sc: sc, Variants: []int{1, 2, 3}, Budgets: []explore.Budget{{0, 0}, {1, 0}}, Cache: true}, 10+bl))
			}
			for _, bl := range []int{0, 1, 3, 4, 5, 6} {
				sc := c07Scenario(c07Params{Backlog: bl, Cause: "close"}, 2)
				jobs = append(jobs, ExploreJob("C07", ExploreSpec{Sc: sc, Variants: []int{1, 2, 3}, Budgets: []explore.Budget{{0, 0}, {1, 0}, {2, 0}}, Cache: true, CrossChk: &explore.Budget{K: 1}}, 5+bl))
			}
			return jobs
		},
	})
}
