package harness

import (
	"errors"
	"fmt"
	"sort"
	"strconv"
	"strings"
	"time"

	"github.com/fluffle/goirc/client"

	"verif/explore"
	"verif/vx"
)

// C20: the connection password never reaches the log.
//
// Every password contains the unique marker c20Marker; before a scenario is
// built the harness asserts that the password occurs in no other configured
// string, scripted server line, injected error text or known log format
// constant, so "the record contains the password" can only be true because the
// library handed it to the logger. The server never echoes the password (recv
// logs every received line at debug level; a server that echoes it is outside
// the claim).
//
// Oracles (from the statement):
//   password-in-log-record   a captured record contains the password: in its format string, in
//                            fmt.Sprintf(format, args...), or in one argument rendered alone with
//                            fmt.Sprint / %v / %s / %q / %+v / %#v (the password itself or its
//                            Go-quoted form, which is what %q shows for non-printable bytes)
//   pass-line-not-masked     a record that shows a PASS command (contains "PASS ") shows anything of
//                            the marker after it
// Counted, not demanded: whether a masked PASS record exists at all (non-vacuity).
// Not judged here: crashes / deadlocks of the explored schedules (C06/C07 own
// those); the records captured up to that point are still judged.

const c20Marker = "Zq7Pw"

// c20Marker2 marks the second password of the sessions in which the application changes or re-issues the
// password (Conn.Pass, ConnectTo with a password while connected, Config.Pass edited after Connect).
const c20Marker2 = "Kj4Xt"

// c20Second derives the second password from the first: same variant part, other marker.
func c20Second(pw string) string { return strings.Replace(pw, c20Marker, c20Marker2, 1) }

// c20Short: passwords shorter than the marker. They consist of bytes that occur in no configured string, no
// server line, no log format and no error text of the sessions (asserted by the scenario precondition for the
// configured strings; a stray occurrence elsewhere would show as a violation on the unchanged tree).
var c20Short = []string{"~", "|", "~|", "^~|", "~^|~"}

// c20Common: passwords that are substrings of the text around them ("PASS" itself, parts of it, a letter that
// occurs in every record). Whether some other record "contains" such a password cannot be judged; what can is the
// record of the PASS line itself: the k-th "-> " record belongs to the k-th line written, and the one that
// belongs to the PASS line must read "-> PASS <something without the password>".
var c20Common = []string{"PASS", "SS", "AS", "S", "P", "PASS PASS"}

func c20IsCommon(pw string) bool {
	for _, s := range c20Common {
		if s == pw {
			return true
		}
	}
	return false
}

func c20IsShort(pw string) bool {
	for _, s := range c20Short {
		if s == pw {
			return true
		}
	}
	return false
}

const c20DialErr = "connection refused"

var c20Variants = []string{"p", "PASS", " lead", "a b", ":c", "%s%d%!", "\\", "\x01x", strings.Repeat("z", 600)}

// c20KnownFormats: the log format constants of packages client and state (grep
// logging\.(Debug|Info|Warn|Error) in /repo); only used for the precondition.
var c20KnownFormats = []string{
	"-> %s", "<- %s", "%s:%d: panic: %v", "Failed to decode SASL challenge: %v", "Failed to generate response for SASL challenge: %v",
	"Removing node for unknown event '%s'", "irc.Client(): Cannot resolve local address %s: %s", "irc.recv(): %s", "irc.send(): %s",
	"irc.Close(): Disconnected from server.", "irc.Connect(): Connecting to %s.", "irc.Connect(): Connecting via proxy %q: %v",
	"irc.Connect(): Performing SSL handshake.", "irc.rateLimit(): Flood! Sleeping for %.2f secs.", "%s: too few arguments: %s",
	"Dialer for proxy does not support context, please implement DialContext", "Enabling capability negotiation as it's required for SASL",
	"Invalid cap subcommand: ", "SASL authentication failed", "SASL authentication failed: %v",
	"SASL mechanism not supported, supported mechanisms are: %v", "Server changed our nick on connect: old=%q new=%q",
	"irc.recv(): problems parsing line:\n  %s", "PASS **************",
	"Tracker.", "Channel.", "Nick.", "irc.Connect(): Cannot connect to %s, already connected.", "irc.311(): received WHOIS info for unknown nick %s", "irc.JOIN(): JOIN to unknown channel %s received ",
}

type c20Mode struct{ Neg, Track, Direct, FC bool } // Direct: no proxy configured, internalConnect dials itself; FC: flood protection on

func (m c20Mode) String() string {
	if m.Direct {
		m.Direct = false
		return m.String() + "+direct"
	}
	if m.FC {
		m.FC = false
		return m.String() + "+floodctl"
	}
	switch {
	case m.Neg && m.Track:
		return "both"
	case m.Neg:
		return "negotiation"
	case m.Track:
		return "tracking"
	}
	return "plain"
}

var c20Modes = []c20Mode{{Neg: false, Track: false}, {Neg: true}, {Track: true}, {Neg: true, Track: true}, {Direct: true}, {Neg: true, Track: true, Direct: true},
	// flood protection on: a long PASS line (or the penalty left by earlier lines) is held back by the limiter
	{FC: true}, {Neg: true, Track: true, FC: true}}

// outcomes: normal | eof0 | writeerrK (K = 1..4: the K-th socket write fails; the server sends the
// welcome and a PING once the registration lines are out, so the writes are, in order, [CAP LS,]
// PASS, NICK, USER, PONG: the PASS line itself fails for K=1 resp. K=2) | writeerrKb (same, but the
// welcome and the PING are already waiting when the connection is made, so the PONG competes with
// the registration lines for the K-th write) | dial-error | no-server
//
// tls-garbage | tls-eof: cfg.SSL is on and the TLS handshake fails (the server answers in plain text / hangs
// up) | user-pass: the application sends a second password with Conn.Pass after registration |
// reconnect-to: ConnectTo(other host, second password) while connected (refused, but stores the password) |
// rotate: Config.Pass is overwritten with the second password as soon as Connect has returned, i.e. while
// the PASS line may still be queued | wipe: same, overwritten with ""
var c20Outcomes = []string{"normal", "eof0", "writeerr1", "writeerr2", "writeerr3", "writeerr4", "writeerr1b", "writeerr2b", "writeerr3b", "writeerr4b", "dial-error", "no-server",
	"tls-garbage", "tls-eof", "user-pass", "reconnect-to", "rotate", "wipe",
	// reconnect: a full session (welcome), the server hangs up, the same client connects again and registers a
	// second time | stall-pass: the server accepts the connection and does not read for three minutes (longer
	// than Config.Timeout), so the write of the first registration line blocks; then it reads
	"reconnect", "stall-pass",
	// the application sends the configured password once more itself: pass-again-now = Conn.Pass(password) as soon
	// as Connect has returned, while the registration lines may still be queued | pass-in-register = from a
	// REGISTER handler of its own | pass-twice = twice in a row after the welcome
	"pass-again-now", "pass-in-register", "pass-twice",
	// spam-during-connect: the server does not read for three minutes and another task of the application starts
	// sending forty lines the moment the socket exists, so that the output queue may be full when the registration
	// lines are queued
	"spam-during-connect"}

const (
	c20LS  = ":srv CAP * LS :multi-prefix sasl away-notify"
	c20ACK = ":srv CAP me ACK :multi-prefix"
)

var c20After = []string{
	":srv 005 me CHANTYPES=# PREFIX=(ov)@+ :are supported by this server",
	"PING :x1",
	":me!ident@host.example JOIN #c",
	":srv 353 me = #c :me @op +v",
	":srv 366 me #c :End of /NAMES list.",
	":op!o@h PRIVMSG #c :hello",
	":op!o@h PRIVMSG me :\x01VERSION\x01",
	":op!o@h MODE #c +k sekrit",
	":nospaceatall",
	":srv 433 me me :Nickname is already in use",
	":v!v@h QUIT :bye",
}

func c20Configured(m c20Mode) []string {
	s := []string{"me", "ident", "Real Name", "irc.example:6667", "verif://proxy", c20DialErr, vx.ErrInjected.Error(), welcome, "PING :x1", c20LS, c20ACK}
	if m.Neg {
		s = append(s, "multi-prefix")
	}
	s = append(s, c20After...)
	s = append(s, c20KnownFormats...)
	return s
}

type c20Stats struct {
	Records, PassShown, Masked int
	Levels                     map[string]int
}

func c20Needles(pw string) []string {
	n := []string{pw}
	q := strconv.Quote(pw)
	if q = q[1 : len(q)-1]; q != pw {
		n = append(n, q)
	}
	if q2 := strconv.QuoteToASCII(pw); q2[1:len(q2)-1] != pw && q2[1:len(q2)-1] != q {
		n = append(n, q2[1:len(q2)-1])
	}
	return n
}

// c20Judge applies the oracle to the captured records.
func c20Judge(pw string, o *vx.Outcome) ([]explore.Finding, c20Stats) {
	logs := o.Logs
	st := c20Stats{Levels: map[string]int{}}
	var fs []explore.Finding
	if c20IsCommon(pw) {
		return c20JudgeCommon(pw, o)
	}
	needles := append(c20Needles(pw), c20Needles(c20Second(pw))...)
	has := func(text string) bool {
		for _, n := range needles {
			if strings.Contains(text, n) {
				return true
			}
		}
		return false
	}
	seen := map[string]bool{}
	add := func(oracle, msg string) {
		if !seen[oracle] {
			seen[oracle] = true
			fs = append(fs, explore.Finding{Oracle: oracle, Msg: msg})
		}
	}
	show := func(s string) string {
		if len(s) > 200 {
			s = s[:200] + "…"
		}
		return Q(s)
	}
	for _, rec := range logs {
		st.Records++
		st.Levels[rec.Level]++
		full := fmt.Sprintf(rec.Format, rec.Args...)
		if has(rec.Format) {
			add("password-in-log-record", fmt.Sprintf("%s record: the format string itself contains the password: %s", rec.Level, show(rec.Format)))
		}
		if has(full) {
			add("password-in-log-record", fmt.Sprintf("%s record format %s renders as %s", rec.Level, Q(rec.Format), show(full)))
		}
		for i, a := range rec.Args {
			for _, verb := range []string{"", "%v", "%s", "%q", "%+v", "%#v"} {
				var t string
				if verb == "" {
					t = fmt.Sprint(a)
				} else {
					t = fmt.Sprintf(verb, a)
				}
				if has(t) {
					v := verb
					if v == "" {
						v = "fmt.Sprint"
					}
					add("password-in-log-record", fmt.Sprintf("%s record format %s: argument %d (%T) rendered with %s is %s", rec.Level, Q(rec.Format), i, a, v, show(t)))
				}
			}
		}
		if i := strings.Index(full, "PASS "); i >= 0 {
			st.PassShown++
			if strings.Contains(full[i+5:], c20Marker) || strings.Contains(full[i+5:], c20Marker2) || (c20IsShort(pw) && strings.Contains(full[i+5:], pw)) {
				add("pass-line-not-masked", fmt.Sprintf("%s record shows the PASS command unmasked: %s", rec.Level, show(full)))
			} else {
				st.Masked++
			}
		}
	}
	return fs, st
}

// c20JudgeCommon: the positional oracle for passwords of c20Common.
func c20JudgeCommon(pw string, o *vx.Outcome) ([]explore.Finding, c20Stats) {
	st := c20Stats{Levels: map[string]int{}}
	var wire []string
	for _, vc := range o.Conns {
		wire = append(wire, vc.Lines()...)
	}
	var fs []explore.Finding
	k := 0
	for _, rec := range o.Logs {
		st.Records++
		st.Levels[rec.Level]++
		if rec.Format != "-> %s" {
			continue
		}
		full := fmt.Sprintf(rec.Format, rec.Args...)
		if k < len(wire) && strings.HasPrefix(wire[k], "PASS ") {
			st.PassShown++
			if !strings.HasPrefix(full, "-> PASS ") || strings.Contains(full[len("-> PASS "):], pw) {
				if len(fs) == 0 {
					fs = append(fs, explore.Finding{Oracle: "pass-line-not-masked", Msg: fmt.Sprintf("the record of the line %s reads %s: not \"PASS\" followed by something that hides the password", Q(wire[k]), Q(full))})
				}
			} else {
				st.Masked++
			}
		}
		k++
	}
	return fs, st
}

func c20Scenario(pwIdx int, pw string, m c20Mode, outcome string) *explore.Scenario {
	for _, s := range c20Configured(m) {
		if c20IsCommon(pw) {
			break // judged by position, not by containment
		}
		if strings.Contains(s, pw) || strings.Contains(s, c20Marker) || strings.Contains(s, c20Marker2) {
			panic(fmt.Sprintf("C20 harness precondition violated: password/marker %s occurs in configured string %s", Q(pw), Q(s)))
		}
	}
	if (!strings.Contains(pw, c20Marker) && !c20IsShort(pw) && !c20IsCommon(pw)) || pw == "" {
		panic("C20 harness precondition violated: password without the marker")
	}
	sc := &explore.Scenario{
		Family: "password-log",
		Name:   fmt.Sprintf("password-log/pw=%03d/mode=%s/outcome=%s", pwIdx, m, outcome),
		Params: map[string]interface{}{"password": Q(pw), "mode": m.String(), "outcome": outcome},
		Opt:    vx.Options{MaxSteps: 50000, Horizon: 3 * time.Hour},
	}
	sc.Main = func(env *vx.Env) {
		settle := func() {
			if m.FC {
				vx.Sleep(2 * time.Minute) // quiescence alone does not wait for a line the limiter is holding back
			}
			vx.Quiesce()
		}
		c := NewClient("me", func(cfg *client.Config) {
			cfg.Pass = pw
			cfg.Flood = !m.FC
			if m.Direct {
				cfg.Proxy = ""
			}
			if m.Neg {
				cfg.EnableCapabilityNegotiation = true
				cfg.Capabilites = []string{"multi-prefix"}
			}
			if outcome == "no-server" {
				cfg.Server = ""
			}
			if strings.HasPrefix(outcome, "tls-") {
				cfg.SSL = true
				cfg.SSLConfig = FailingTLS()
			}
		})
		if m.Track {
			c.EnableStateTracking()
		}
		if outcome == "pass-in-register" {
			c.HandleFunc(client.REGISTER, func(conn *client.Conn, _ *client.Line) { conn.Pass(pw) })
		}
		dialled := vx.NewCounter("dialled")
		if outcome == "spam-during-connect" {
			env.Go("spammer", func() {
				dialled.WaitFor(1)
				for i := 0; i < 40; i++ {
					c.Raw(fmt.Sprintf("PRIVMSG #c :spam %d", i))
				}
			})
		}
		var vc *vx.Conn
		env.ConnSetup = func(x *vx.Conn) {
			vc = x
			var k int
			if n, _ := fmt.Sscanf(outcome, "writeerr%d", &k); n == 1 {
				x.WriteErrAt = k
				if strings.HasSuffix(outcome, "b") {
					x.Preload(welcome + "\r\n")
					x.Preload("PING :x1\r\n")
				}
			}
			if outcome == "eof0" || outcome == "tls-eof" {
				x.PreloadEOF()
			}
			if outcome == "stall-pass" || outcome == "spam-during-connect" {
				x.PreStall()
			}
			dialled.Add(1)
			if outcome == "tls-garbage" {
				x.Preload(":srv NOTICE AUTH :*** Looking up your hostname\r\n")
			}
		}
		if outcome == "dial-error" {
			env.FailNextDial(errors.New(c20DialErr))
		}
		err := c.Connect()
		vx.Observe("ev", fmt.Sprintf("connect ok=%v", err == nil))
		if err != nil {
			return
		}
		switch outcome {
		case "rotate":
			c.Config().Pass = c20Second(pw)
		case "wipe":
			c.Config().Pass = ""
		case "pass-again-now":
			c.Pass(pw)
		}
		if outcome == "stall-pass" || outcome == "spam-during-connect" {
			vx.Sleep(3 * time.Minute)
			vc.StallWrites(0)
		}
		settle()
		if outcome == "reconnect" {
			if m.Neg {
				vc.SendLines(c20LS)
				settle()
				vc.SendLines(c20ACK)
				settle()
			}
			vc.SendLines(welcome)
			settle()
			vc.EOF()
			settle()
			err := c.Connect()
			vx.Observe("ev", fmt.Sprintf("second connect ok=%v", err == nil))
			if err != nil {
				return
			}
			settle()
			vc.SendLines(welcome)
			settle()
		}
		switch outcome {
		case "user-pass", "reconnect-to", "rotate", "wipe", "pass-again-now", "pass-in-register", "pass-twice", "spam-during-connect":
			if m.Neg {
				vc.SendLines(c20LS)
				settle()
				vc.SendLines(c20ACK)
				settle()
			}
			vc.SendLines(welcome)
			settle()
			if outcome == "user-pass" {
				c.Pass(c20Second(pw))
			}
			if outcome == "pass-twice" {
				c.Pass(pw)
				c.Pass(pw)
			}
			if outcome == "reconnect-to" {
				err := c.ConnectTo("other.example:6667", c20Second(pw))
				vx.Observe("ev", fmt.Sprintf("second connect refused=%v", err != nil))
				c.Pass(pw) // the first password again, while the configuration holds the second
			}
			settle()
			vc.SendLines("PING :x1")
			settle()
		}
		if outcome == "normal" {
			feed := func(l string) {
				vc.SendLines(l)
				settle()
			}
			if m.Neg {
				feed(c20LS)
				feed(c20ACK)
			}
			feed(welcome)
			for _, l := range c20After {
				feed(l)
			}
		}
		if strings.HasPrefix(outcome, "writeerr") && !strings.HasSuffix(outcome, "b") && !vc.ClosedLocal() {
			// gives the client something to answer, so that a 4th write happens without negotiation too
			vc.SendLines(welcome, "PING :x1")
			settle()
		}
		// non-vacuity: did the injected error hit the PASS line itself? (the registration lines are
		// queued in one go by one handler, so they reach the socket in order)
		if strings.HasPrefix(outcome, "writeerr") && vc.ClosedLocal() {
			var reg []string
			for _, l := range vc.Lines() {
				if !strings.HasPrefix(l, "PONG") {
					reg = append(reg, l)
				}
			}
			before := 0
			if m.Neg {
				before = 1
			}
			pongs := len(vc.Lines()) - len(reg)
			var k int
			fmt.Sscanf(outcome, "writeerr%d", &k)
			if len(reg) == before && len(vc.Lines()) == k-1 && (pongs == 1 || !strings.HasSuffix(outcome, "b")) {
				vx.ObserveNoPoint("ev", "write error hit the PASS line")
			}
		}
		if !vc.ClosedLocal() {
			vc.EOF()
		}
		settle()
		vx.Observe("ev", fmt.Sprintf("end connected=%v", c.Connected()))
	}
	sc.Check = func(o *vx.Outcome) []explore.Finding {
		fs, _ := c20Judge(pw, o)
		return fs
	}
	sc.Observation = func(o *vx.Outcome) string {
		// what was logged, without the arguments; plus whether the masked PASS record is there
		_, st := c20Judge(pw, o)
		var sb strings.Builder
		for _, r := range o.Logs {
			sb.WriteString(r.Level + ":" + r.Format + ";")
		}
		fmt.Fprintf(&sb, "masked=%d", st.Masked)
		return sb.String()
	}
	return sc
}

// c20Passwords: index -> password. The first 18 are the designed ones
// (marker+variant, "x"+marker+variant); then marker + every printable ASCII
// byte, then a length ladder.
func c20Passwords(tier string) []string {
	var pws []string
	for _, v := range c20Variants {
		pws = append(pws, c20Marker+v)
	}
	for _, v := range c20Variants {
		pws = append(pws, "x"+c20Marker+v)
	}
	for b := 0x20; b <= 0x7e; b++ {
		pws = append(pws, c20Marker+string(rune(b)))
	}
	for _, n := range []int{1, 2, 8, 64, 200, 440, 443, 444, 445, 500, 505, 2000} {
		pws = append(pws, c20Marker+strings.Repeat("z", n))
	}
	pws = append(pws, c20Short...)
	pws = append(pws, c20Common...)
	if tier == "thorough" {
		// the byte before / after the marker, and pairs of the bytes that mean something to IRC, fmt or the mask
		special := []string{" ", ":", "%", "\\", "*", "P", "\x01", "\t", "\"", "'", "\x7f", "\xff", "é"}
		for _, a := range special {
			for _, b := range special {
				pws = append(pws, a+c20Marker+b)
				pws = append(pws, c20Marker+a+b)
			}
		}
		for _, s := range []string{"PASS ", "PASS **************", "%!s(MISSING)", "%v%v%v%v", "%[1]s", "%q", "NICK me", "-> ", "<- "} {
			pws = append(pws, c20Marker+s, s+c20Marker)
		}
	}
	return pws
}

const c20Designed = 18

func c20EnumJob(name string, idx []int, pws []string) Job {
	return Job{Name: name, Cost: 3, Run: func(jc *JobCtx) *JobResult {
		e := NewEnum(name)
		kinds := map[string]int{}
		passHit := 0
		total := c20Stats{Levels: map[string]int{}}
		var best map[string]interface{}
	loop:
		for _, pi := range idx {
			pw := pws[pi]
			for _, m := range c20Modes {
				for _, out := range c20Outcomes {
					sc := c20Scenario(pi, pw, m, out)
					o := explore.RunDefault(sc, 1)
					kinds[o.Kind]++
					passHit += count(o.Log("ev"), "write error hit the PASS line")
					fs, st := c20Judge(pw, o)
					total.Records += st.Records
					total.PassShown += st.PassShown
					total.Masked += st.Masked
					for k, v := range st.Levels {
						total.Levels[k] += v
					}
					e.Case(fmt.Sprintf("%s|%s|%s|%s", Q(pw), m, out, sc.Observation(o)))
					for _, f := range fs {
						e.Fail(sc.Family, f.Oracle, fmt.Sprintf("password=%s mode=%s outcome=%s", Q(pw), m, out), f.Msg, sc.Params)
					}
					if best == nil && out == "normal" && m.Neg && m.Track {
						var recs []string
						for _, r := range o.Logs {
							t := fmt.Sprintf(r.Level+": "+r.Format, r.Args...)
							if len(t) > 120 {
								t = t[:120] + "…"
							}
							recs = append(recs, t)
						}
						if len(recs) > 60 {
							recs = recs[:60]
						}
						p := pw
						if len(p) > 40 {
							p = p[:40] + "…"
						}
						best = map[string]interface{}{"password": Q(p), "mode": m.String(), "outcome": out, "records": recs, "masked_pass_records": st.Masked}
					}
					if e.TooMany() {
						e.Incomplete("stopped after 10 distinct violation signatures")
						break loop
					}
					if jc.Expired() {
						e.Incomplete(fmt.Sprintf("deadline at password %d", pi))
						break loop
					}
				}
			}
		}
		if best != nil {
			e.Sample(best)
		}
		var lv []string
		for k, v := range total.Levels {
			lv = append(lv, fmt.Sprintf("%s=%d", k, v))
		}
		sort.Strings(lv)
		e.R.Notes = append(e.R.Notes, fmt.Sprintf("records judged: %d (%s); records showing a PASS command: %d, all masked: %v; sessions in which the injected write error hit the PASS line itself: %d; run kinds: %v (crash/deadlock are not judged by C20)", total.Records, strings.Join(lv, " "), total.PassShown, total.PassShown == total.Masked, passHit, kinds))
		if total.Masked == 0 {
			e.R.Vacuous = true
		}
		return e.Done()
	}}
}

func init() {
	Register(&Prop{
		ID:   "C20",
		Rule: "passwords = marker \"Zq7Pw\" + variant and \"x\" + marker + variant for variant ∈ {p, PASS, ' lead', 'a b', ':c', '%s%d%!', '\\', '\\x01x', 600×z} (18 designed), plus marker + every printable ASCII byte (95) and a length ladder 1..2000 (12), plus five passwords of 1 to 4 bytes, shorter than the marker, made of bytes that occur nowhere else in the sessions, plus six passwords that are part of the text around them (PASS, SS, AS, S, P, PASS PASS), judged by position: the record that belongs to the PASS line must read '-> PASS ' + something without the password (thorough: + pairs of IRC/fmt/mask-significant bytes around the marker and fmt/IRC look-alikes); sessions = {plain, negotiation, tracking, both, plain without proxy, both without proxy, plain with flood protection, both with flood protection} × outcome {normal welcome + 11 lines + EOF, EOF at once, write error on write 1..4, dial error, empty cfg.Server, TLS handshake answered in plain text / by EOF, a second password (other marker) sent with Conn.Pass after registration, ConnectTo(other host, second password) while connected followed by Conn.Pass(first), Config.Pass overwritten (second password / empty) as soon as Connect returns, a second connect of the same client after a full first session, a server that does not read for three minutes after accepting, the configured password sent once more by the application (Conn.Pass as soon as Connect returns / from a REGISTER handler of its own / twice in a row after the welcome), another task filling the output queue while the connection is being made to a server that does not read}; enumeration jobs run every (password, session) once under the default schedule; exploration jobs run the failing-connection sessions of the 18 designed passwords under every schedule within the deviation budgets; the capturing logger records all four levels; distinct = distinct (password, session, sequence of (level, format) records, number of masked PASS records) resp. distinct canonical observation per explored scenario",
		Assumptions: []string{
			"the server never sends the password (recv logs every received line); asserted by the harness precondition",
			"connections go through the in-memory network either via the registered proxy type or (modes +direct) via the Dialer shim that replaces net.Dialer in the instrumented copy; the TLS branch is executed with a handshake that fails (plain-text answer, EOF), never with one that succeeds",
			"a record 'contains the password' if its format, its rendering, or one argument rendered alone (fmt.Sprint, %v, %s, %q, %+v, %#v) contains the password or its Go-quoted form; pointers reachable from an argument but not printed by these verbs are not followed",
			"crash / deadlock outcomes of explored schedules belong to C06 / C07 and are not reported here; their records are still judged",
		},
		Jobs: func(tier string) []Job {
			var jobs []Job
			pws := c20Passwords(tier)
			// enumeration: every password, 3 per job
			per := 3
			for i := 0; i < len(pws); i += per {
				var idx []int
				for j := i; j < i+per && j < len(pws); j++ {
					idx = append(idx, j)
				}
				jobs = append(jobs, c20EnumJob(fmt.Sprintf("password-log/enum/pw=%03d-%03d", idx[0], idx[len(idx)-1]), idx, pws))
			}
			// exploration of the failing connections (and, thorough, of the normal session)
			variants := []int{1, 2, 3}
			budgets := []explore.Budget{{K: 0, E: 0}, {K: 1, E: 0}}
			// eof0 and writeerrKb are schedule-sensitive. writeerrK (nothing but the registration lines
			// in flight), dial-error and no-server (no task is ever started) were measured to give one
			// single observation over all schedules within the budgets, so they are explored for the
			// first password only (those jobs report themselves as vacuous) and otherwise run by the
			// enumeration jobs.
			outs := []string{"eof0", "writeerr1b", "writeerr2b", "writeerr3b", "writeerr4b", "rotate", "wipe", "spam-during-connect"}
			flat := []string{"writeerr1", "writeerr2", "writeerr3", "writeerr4", "dial-error", "no-server"}
			deep := budgets
			if tier == "thorough" {
				// the schedule space does not depend on the password's bytes: K<=2 for the first six
				// designed passwords (~12k schedules per variant and scenario), K<=1 for the others
				deep = []explore.Budget{{K: 0, E: 0}, {K: 1, E: 0}, {K: 2, E: 0}}
				// the normal session is driven in lockstep (one server line, then quiescence): measured
				// one single observation over ~34k schedules at K<=2, so first password only as well
				flat = append(flat, "normal")
			}
			for pi := 0; pi < c20Designed; pi++ {
				for _, m := range c20Modes {
					for _, out := range outs {
						bs, cost := budgets, 5
						if pi < 6 {
							bs, cost = deep, 50
						}
						jobs = append(jobs, ExploreJob("C20", ExploreSpec{Sc: c20Scenario(pi, pws[pi], m, out), Variants: variants, Budgets: bs, Cache: false}, cost))
					}
					if pi == 0 {
						for _, out := range flat {
							cost := 1
							if out == "normal" {
								cost = 20
							}
							jobs = append(jobs, ExploreJob("C20", ExploreSpec{Sc: c20Scenario(pi, pws[pi], m, out), Variants: variants, Budgets: deep, Cache: false}, cost))
						}
					}
				}
			}
			return jobs
		},
	})
}
