// Package vsync replaces "sync" in instrumented code.
package vsync

import (
	"sync"

	"verif/vx"
)

type (
	Mutex     = vx.Mutex
	RWMutex   = vx.RWMutex
	WaitGroup = vx.WaitGroup
	Once      = vx.Once
	Cond      = vx.Cond
	Locker    = sync.Locker
	Map       = sync.Map
	Pool      = sync.Pool
)

func NewCond(l sync.Locker) *Cond { return vx.NewCond(l) }

func OnceFunc(f func()) func() {
	var o Once
	return func() { o.Do(f) }
}
