package vx

import (
	"fmt"
	"reflect"
)

// Happens-before race monitor for statement mode (C14). Vector clocks are
// maintained only when Options.StmtMode is set. Synchronisation edges: task
// spawn, mutex / rwmutex release->acquire, wait group Done->Wait, channel
// send->receive and close->receive, harness Event / Counter.

type vclock map[int]int

func (v vclock) copy() vclock {
	n := make(vclock, len(v))
	for k, x := range v {
		n[k] = x
	}
	return n
}

func (v vclock) join(o vclock) {
	for k, x := range o {
		if x > v[k] {
			v[k] = x
		}
	}
}

type access struct {
	task  int
	clock int
	site  string
	name  string
}

type cell struct {
	lastW *access
	reads map[int]*access
}

type shadow struct {
	keep  interface{}
	cells map[int]*cell
	objs  map[int]*Obj
}

// RaceInfo describes one detected data race.
type RaceInfo struct {
	Field, SiteA, SiteB string
	WriteA, WriteB      bool
}

func (r RaceInfo) String() string {
	k := func(w bool) string {
		if w {
			return "write"
		}
		return "read"
	}
	return fmt.Sprintf("%s: %s at %s || %s at %s", r.Field, k(r.WriteA), r.SiteA, k(r.WriteB), r.SiteB)
}

func (s *Sched) hbOn() bool { return s.opt.StmtMode }

func (s *Sched) hbRelease(o *Obj) {
	if !s.opt.StmtMode || s.cur == nil {
		return
	}
	t := s.cur
	if o.vc == nil {
		o.vc = vclock{}
	}
	o.vc.join(t.vc)
	t.vc[t.idx]++
}

func (s *Sched) hbAcquire(o *Obj) {
	if !s.opt.StmtMode || s.cur == nil || o.vc == nil {
		return
	}
	s.cur.vc.join(o.vc)
}

func (s *Sched) hbBefore(a *access, t *Task) bool {
	return a.task == t.idx || a.clock <= t.vc[a.task]
}

// Touch records an access of the current task to field `field` (-1 = the whole
// struct) of the struct p points to.
func Touch(p interface{}, field int, write bool, site string) {
	s := S
	if s == nil || !s.stmtOn || s.aborting || s.cur == nil {
		return
	}
	rv := reflect.ValueOf(p)
	if rv.Kind() != reflect.Ptr || rv.IsNil() {
		return
	}
	addr := rv.Pointer()
	if s.shadows == nil {
		s.shadows = map[uintptr]*shadow{}
	}
	sh := s.shadows[addr]
	if sh == nil {
		sh = &shadow{keep: p, cells: map[int]*cell{}, objs: map[int]*Obj{}}
		s.shadows[addr] = sh
	}
	t := s.cur
	// happens-before hashing: the access is an event on the (struct, field) object
	o := sh.objs[field]
	if o == nil {
		o = &Obj{Label: site}
		s.initObj(o, "field")
		sh.objs[field] = o
	}
	s.event(0x510, o, write)
	if field >= 0 {
		if all := sh.objs[-1]; all != nil {
			s.event(0x511, all, false)
		}
	} else {
		for f, fo := range sh.objs {
			if f >= 0 {
				s.event(0x512, fo, write)
			}
		}
	}
	check := func(c *cell) {
		if c == nil {
			return
		}
		if c.lastW != nil && !s.hbBefore(c.lastW, t) {
			s.addRace(RaceInfo{Field: c.lastW.name, SiteA: c.lastW.site, WriteA: true, SiteB: site, WriteB: write})
		}
		if write {
			for _, r := range c.reads {
				if !s.hbBefore(r, t) {
					s.addRace(RaceInfo{Field: r.name, SiteA: r.site, WriteA: false, SiteB: site, WriteB: true})
				}
			}
		}
	}
	if field >= 0 {
		check(sh.cells[field])
		check(sh.cells[-1])
	} else {
		for _, c := range sh.cells {
			check(c)
		}
	}
	c := sh.cells[field]
	if c == nil {
		c = &cell{reads: map[int]*access{}}
		sh.cells[field] = c
	}
	a := &access{task: t.idx, clock: t.vc[t.idx], site: site, name: site}
	if write {
		c.lastW = a
		c.reads = map[int]*access{}
	} else {
		c.reads[t.idx] = a
	}
}

func (s *Sched) addRace(r RaceInfo) {
	if len(s.out.Races) < 20 {
		for _, x := range s.out.Races {
			if x == r {
				return
			}
		}
		s.out.Races = append(s.out.Races, r)
	}
}
