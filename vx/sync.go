package vx

import (
	"sync"
)

// The shims below replace sync.* in instrumented code. Outside a controlled
// run they fall back to the real primitive; while a finished run is being torn
// down (abort mode) they are no-ops.

const (
	evLock = 0x100 + iota
	evUnlock
	evTryLock
	evRLock
	evRUnlock
	evWLock1
	evWLock2
	evWUnlock
	evWgAdd
	evWgWait
	evOnce
	evCondWait
	evCondSignal
	evAtomicR
	evAtomicW
	evEventSet
	evEventWait
	evCellR
	evCellW
)

// ---------------------------------------------------------------- Mutex

type Mutex struct {
	obj    Obj
	holder *Task
	real   sync.Mutex
}

func (m *Mutex) ens(s *Sched) {
	if m.obj.run != s.runID {
		m.holder = nil
		s.initObj(&m.obj, "Mutex")
	}
}

func (m *Mutex) holderName() string {
	if m.holder != nil {
		return m.holder.Name
	}
	return ""
}

func (m *Mutex) Lock() {
	s, mode := cur()
	switch mode {
	case modeReal:
		m.real.Lock()
		return
	case modeAbort:
		return
	}
	m.ens(s)
	s.point(&Op{Kind: "Mutex.Lock", Obj: &m.obj, Ready: func() bool { return m.holder == nil }, holderFn: m.holderName})
	m.holder = s.cur
	s.event(evLock, &m.obj, true)
	s.hbAcquire(&m.obj)
}

func (m *Mutex) TryLock() bool {
	s, mode := cur()
	switch mode {
	case modeReal:
		return m.real.TryLock()
	case modeAbort:
		return true
	}
	m.ens(s)
	s.point(&Op{Kind: "Mutex.TryLock", Obj: &m.obj})
	ok := m.holder == nil
	if ok {
		m.holder = s.cur
	}
	var c uint64
	if ok {
		c = 1
	}
	s.event(evTryLock+c<<16, &m.obj, true)
	if ok {
		s.hbAcquire(&m.obj)
	}
	return ok
}

func (m *Mutex) Unlock() {
	s, mode := cur()
	switch mode {
	case modeReal:
		m.real.Unlock()
		return
	case modeAbort:
		return
	}
	m.ens(s)
	s.point(&Op{Kind: "Mutex.Unlock", Obj: &m.obj})
	if m.holder == nil {
		panic("sync: unlock of unlocked mutex") // fatal in real Go
	}
	m.holder = nil
	s.event(evUnlock, &m.obj, true)
	s.hbRelease(&m.obj)
}

// Locker mirrors sync.Locker.
type Locker = sync.Locker

// ---------------------------------------------------------------- RWMutex
//
// Modelled after the real algorithm so that it is neither more nor less
// permissive: writers serialise on an inner mutex; a writer that has taken it
// *announces* itself, from which moment new readers queue; it proceeds when the
// readers that were active at the announcement have left; Unlock first releases
// every queued reader, then the inner mutex.

type RWMutex struct {
	obj        Obj
	wHolder    *Task // holds the inner writer mutex (announced)
	wActive    bool  // writer owns the lock
	active     int   // readers holding the lock
	readerWait int   // readers the announced writer still waits for
	pending    []*rwPending
	real       sync.RWMutex
}

type rwPending struct{ released bool }

func (m *RWMutex) ens(s *Sched) {
	if m.obj.run != s.runID {
		m.wHolder, m.wActive, m.active, m.readerWait, m.pending = nil, false, 0, 0, nil
		s.initObj(&m.obj, "RWMutex")
	}
}

func (m *RWMutex) holderName() string {
	if m.wHolder != nil {
		return "writer " + m.wHolder.Name
	}
	if m.active > 0 {
		return "readers"
	}
	return ""
}

func (m *RWMutex) Lock() {
	s, mode := cur()
	switch mode {
	case modeReal:
		m.real.Lock()
		return
	case modeAbort:
		return
	}
	m.ens(s)
	s.point(&Op{Kind: "RWMutex.Lock", Obj: &m.obj, Ready: func() bool { return m.wHolder == nil }, holderFn: m.holderName})
	m.wHolder = s.cur
	m.readerWait = m.active
	s.event(evWLock1, &m.obj, true)
	if m.readerWait != 0 {
		s.point(&Op{Kind: "RWMutex.Lock(wait readers)", Obj: &m.obj, Ready: func() bool { return m.readerWait == 0 }, holderFn: m.holderName})
		s.event(evWLock2, &m.obj, true)
	}
	m.wActive = true
	s.hbAcquire(&m.obj)
}

func (m *RWMutex) TryLock() bool {
	s, mode := cur()
	switch mode {
	case modeReal:
		return m.real.TryLock()
	case modeAbort:
		return true
	}
	m.ens(s)
	s.point(&Op{Kind: "RWMutex.TryLock", Obj: &m.obj})
	ok := m.wHolder == nil && m.active == 0
	if ok {
		m.wHolder = s.cur
		m.wActive = true
		m.readerWait = 0
	}
	var c uint64
	if ok {
		c = 1
	}
	s.event(evTryLock+c<<16, &m.obj, true)
	return ok
}

func (m *RWMutex) Unlock() {
	s, mode := cur()
	switch mode {
	case modeReal:
		m.real.Unlock()
		return
	case modeAbort:
		return
	}
	m.ens(s)
	s.point(&Op{Kind: "RWMutex.Unlock", Obj: &m.obj})
	if !m.wActive {
		panic("sync: Unlock of unlocked RWMutex")
	}
	m.wActive = false
	m.wHolder = nil
	for _, p := range m.pending {
		p.released = true
		m.active++
	}
	m.pending = nil
	s.event(evWUnlock, &m.obj, true)
	s.hbRelease(&m.obj)
}

func (m *RWMutex) RLock() {
	s, mode := cur()
	switch mode {
	case modeReal:
		m.real.RLock()
		return
	case modeAbort:
		return
	}
	m.ens(s)
	s.point(&Op{Kind: "RWMutex.RLock", Obj: &m.obj})
	if m.wHolder == nil {
		m.active++
		s.event(evRLock, &m.obj, false)
		s.hbAcquire(&m.obj)
		return
	}
	p := &rwPending{}
	m.pending = append(m.pending, p)
	s.event(evRLock+1<<16, &m.obj, false)
	s.point(&Op{Kind: "RWMutex.RLock(queued)", Obj: &m.obj, Ready: func() bool { return p.released }, holderFn: m.holderName})
	s.event(evRLock+2<<16, &m.obj, false)
	s.hbAcquire(&m.obj)
}

func (m *RWMutex) TryRLock() bool {
	s, mode := cur()
	switch mode {
	case modeReal:
		return m.real.TryRLock()
	case modeAbort:
		return true
	}
	m.ens(s)
	s.point(&Op{Kind: "RWMutex.TryRLock", Obj: &m.obj})
	ok := m.wHolder == nil
	if ok {
		m.active++
	}
	var c uint64
	if ok {
		c = 1
	}
	s.event(evTryLock+c<<16, &m.obj, true)
	return ok
}

func (m *RWMutex) RUnlock() {
	s, mode := cur()
	switch mode {
	case modeReal:
		m.real.RUnlock()
		return
	case modeAbort:
		return
	}
	m.ens(s)
	s.point(&Op{Kind: "RWMutex.RUnlock", Obj: &m.obj})
	if m.active <= 0 {
		panic("sync: RUnlock of unlocked RWMutex")
	}
	m.active--
	s.hbRelease(&m.obj)
	if m.wHolder != nil && !m.wActive && m.readerWait > 0 {
		m.readerWait--
		// this changes what the announced writer waits for: order it with the writer
		s.event(evRUnlock+1<<16, &m.obj, true)
		return
	}
	s.event(evRUnlock, &m.obj, false)
}

func (m *RWMutex) RLocker() sync.Locker { return (*rlocker)(m) }

type rlocker RWMutex

func (r *rlocker) Lock()   { (*RWMutex)(r).RLock() }
func (r *rlocker) Unlock() { (*RWMutex)(r).RUnlock() }

// ---------------------------------------------------------------- WaitGroup

type WaitGroup struct {
	obj  Obj
	n    int
	real sync.WaitGroup
}

func (w *WaitGroup) ens(s *Sched) {
	if w.obj.run != s.runID {
		w.n = 0
		s.initObj(&w.obj, "WaitGroup")
	}
}

func (w *WaitGroup) Add(d int) {
	s, mode := cur()
	switch mode {
	case modeReal:
		w.real.Add(d)
		return
	case modeAbort:
		return
	}
	w.ens(s)
	s.point(&Op{Kind: "WaitGroup.Add", Obj: &w.obj})
	w.n += d
	s.event(evWgAdd+uint64(int64(d))<<16, &w.obj, true)
	if d < 0 {
		s.hbRelease(&w.obj)
	}
	if w.n < 0 {
		panic("sync: negative WaitGroup counter")
	}
}

func (w *WaitGroup) Done() { w.Add(-1) }

func (w *WaitGroup) Wait() {
	s, mode := cur()
	switch mode {
	case modeReal:
		w.real.Wait()
		return
	case modeAbort:
		return
	}
	w.ens(s)
	s.point(&Op{Kind: "WaitGroup.Wait", Obj: &w.obj, Ready: func() bool { return w.n == 0 }})
	s.event(evWgWait, &w.obj, false)
	s.hbAcquire(&w.obj)
}

// ---------------------------------------------------------------- Once

type Once struct {
	obj     Obj
	done    bool
	running bool
	real    sync.Once
}

func (o *Once) Do(f func()) {
	s, mode := cur()
	switch mode {
	case modeReal:
		o.real.Do(f)
		return
	case modeAbort:
		return
	}
	if o.obj.run != s.runID {
		o.done, o.running = false, false
		s.initObj(&o.obj, "Once")
	}
	s.point(&Op{Kind: "Once.Do", Obj: &o.obj, Ready: func() bool { return !o.running }})
	if o.done {
		s.event(evOnce, &o.obj, false)
		return
	}
	o.running = true
	s.event(evOnce+1<<16, &o.obj, true)
	defer func() {
		o.running = false
		o.done = true
		if s2, m2 := cur(); m2 == modeSched {
			s2.event(evOnce+2<<16, &o.obj, true)
		}
	}()
	f()
}

// ---------------------------------------------------------------- Cond

type Cond struct {
	L       sync.Locker
	obj     Obj
	waiters []*condWaiter
	real    *sync.Cond
}

type condWaiter struct{ signalled bool }

func NewCond(l sync.Locker) *Cond { return &Cond{L: l} }

func (c *Cond) ens(s *Sched) {
	if c.obj.run != s.runID {
		c.waiters = nil
		s.initObj(&c.obj, "Cond")
	}
}

func (c *Cond) realCond() *sync.Cond {
	if c.real == nil {
		c.real = sync.NewCond(c.L)
	}
	return c.real
}

func (c *Cond) Wait() {
	s, mode := cur()
	switch mode {
	case modeReal:
		c.realCond().Wait()
		return
	case modeAbort:
		return
	}
	c.ens(s)
	w := &condWaiter{}
	c.waiters = append(c.waiters, w)
	s.event(evCondWait, &c.obj, true)
	c.L.Unlock()
	s.point(&Op{Kind: "Cond.Wait", Obj: &c.obj, Ready: func() bool { return w.signalled }})
	s.event(evCondWait+1<<16, &c.obj, true)
	c.L.Lock()
}

func (c *Cond) Signal() {
	s, mode := cur()
	switch mode {
	case modeReal:
		c.realCond().Signal()
		return
	case modeAbort:
		return
	}
	c.ens(s)
	s.point(&Op{Kind: "Cond.Signal", Obj: &c.obj})
	if len(c.waiters) > 0 {
		c.waiters[0].signalled = true
		c.waiters = c.waiters[1:]
	}
	s.event(evCondSignal, &c.obj, true)
}

func (c *Cond) Broadcast() {
	s, mode := cur()
	switch mode {
	case modeReal:
		c.realCond().Broadcast()
		return
	case modeAbort:
		return
	}
	c.ens(s)
	s.point(&Op{Kind: "Cond.Broadcast", Obj: &c.obj})
	for _, w := range c.waiters {
		w.signalled = true
	}
	c.waiters = nil
	s.event(evCondSignal+1<<16, &c.obj, true)
}

// ---------------------------------------------------------------- atomics (generic point)

var atomicObj Obj

// AtomicPoint is the scheduling point placed before every atomic operation.
func AtomicPoint(write bool) {
	s, mode := cur()
	if mode != modeSched {
		return
	}
	if atomicObj.run != s.runID {
		atomicObj.run = s.runID
		atomicObj.id = 0xa70
		atomicObj.w, atomicObj.r = H{}, H{}
		atomicObj.Label = "atomic"
	}
	s.point(&Op{Kind: "atomic", Obj: &atomicObj})
	if write {
		s.event(evAtomicW, &atomicObj, true)
	} else {
		s.event(evAtomicR, &atomicObj, false)
	}
}

// ---------------------------------------------------------------- harness primitives

// Event is a one-shot flag tasks can wait for.
type Event struct {
	obj Obj
	set bool
}

func NewEvent(label string) *Event { return &Event{obj: Obj{Label: label}} }

func (e *Event) ens(s *Sched) {
	if e.obj.run != s.runID {
		e.set = false
		lab := e.obj.Label
		s.initObj(&e.obj, "Event")
		e.obj.Label = lab
	}
}

func (e *Event) Set() {
	s, mode := cur()
	if mode != modeSched {
		e.set = true
		return
	}
	e.ens(s)
	s.point(&Op{Kind: "Event.Set", Obj: &e.obj})
	e.set = true
	s.event(evEventSet, &e.obj, true)
	s.hbRelease(&e.obj)
}

func (e *Event) Wait() {
	s, mode := cur()
	if mode != modeSched {
		return
	}
	e.ens(s)
	s.point(&Op{Kind: "Event.Wait", Obj: &e.obj, Ready: func() bool { return e.set }})
	s.event(evEventWait, &e.obj, false)
	s.hbAcquire(&e.obj)
}

func (e *Event) IsSet() bool {
	s, mode := cur()
	if mode != modeSched {
		return e.set
	}
	e.ens(s)
	s.point(&Op{Kind: "Event.IsSet", Obj: &e.obj})
	var c uint64
	if e.set {
		c = 1
	}
	s.event(evEventWait+c<<16, &e.obj, false)
	return e.set
}

// Peek reads the flag without a scheduling point (for oracles after the run).
func (e *Event) Peek() bool { return e.set }

// Counter is a shared integer whose accesses are scheduling points.
type Counter struct {
	obj Obj
	v   int
}

func NewCounter(label string) *Counter { return &Counter{obj: Obj{Label: label}} }

func (c *Counter) ens(s *Sched) {
	if c.obj.run != s.runID {
		c.v = 0
		lab := c.obj.Label
		s.initObj(&c.obj, "Counter")
		c.obj.Label = lab
	}
}

func (c *Counter) Add(d int) int {
	s, mode := cur()
	if mode != modeSched {
		c.v += d
		return c.v
	}
	c.ens(s)
	s.point(&Op{Kind: "Counter.Add", Obj: &c.obj})
	c.v += d
	s.event(evCellW+uint64(int64(d))<<16, &c.obj, true)
	s.hbRelease(&c.obj)
	return c.v
}

func (c *Counter) Get() int {
	s, mode := cur()
	if mode != modeSched {
		return c.v
	}
	c.ens(s)
	s.point(&Op{Kind: "Counter.Get", Obj: &c.obj})
	s.event(evCellR+uint64(int64(c.v))<<16, &c.obj, false)
	return c.v
}

// WaitFor blocks until the counter reaches at least n.
func (c *Counter) WaitFor(n int) {
	s, mode := cur()
	if mode != modeSched {
		return
	}
	c.ens(s)
	s.point(&Op{Kind: "Counter.WaitFor", Obj: &c.obj, Ready: func() bool { return c.v >= n }})
	s.event(evCellR+uint64(int64(n))<<24, &c.obj, false)
	s.hbAcquire(&c.obj)
}

func (c *Counter) Peek() int { return c.v }

// ---------------------------------------------------------------- statement mode (C14)

// Stmt is the statement-level scheduling point inserted into package state.
func Stmt(site string) {
	s := S
	if s == nil || !(s.stmtOn || s.stmtAllOn) || s.aborting || s.cur == nil {
		return
	}
	s.point(&Op{Kind: "stmt", Site: site})
	s.event(0x500^HashString(site), nil, true)
}

// StmtAll is inserted before every other statement of the packages instrumented with StmtAllPkgs (statements
// that touch no field of an instrumented struct): a scheduling point only while StmtAllMode is on. With it a run
// explores interleavings of plain statements, e.g. inside the assembly of a line in a buffer that is reached
// through a local pointer.
func StmtAll(site string) {
	s := S
	if s == nil || !s.stmtAllOn || s.aborting || s.cur == nil {
		return
	}
	s.point(&Op{Kind: "stmt", Site: site})
	s.event(0x501^HashString(site), nil, true)
}

// StmtAllMode switches every-statement interleaving on or off for the calling run (implies nothing about
// StmtMode, which stays as it is).
func StmtAllMode(on bool) {
	if s := S; s != nil {
		s.stmtAllOn = on
	}
}

// StmtMode switches statement-granularity interleaving (and the race monitor) on or off for the calling run.
func StmtMode(on bool) {
	if s := S; s != nil {
		s.stmtOn = on
	}
}
