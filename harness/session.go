package harness

import (
	"encoding/json"
	"fmt"
	"strings"
	"time"

	"github.com/fluffle/goirc/client"

	"verif/explore"
	"verif/vx"
)

// RunSeq executes f as the root task of one controlled execution under the
// default scheduler (variant 1, no deviations): deterministic, virtual time,
// in-memory socket. Use it for history- and input-quantified harnesses that
// push their cases through a real connection.
func RunSeq(opt vx.Options, f func(env *vx.Env)) *vx.Outcome {
	if opt.MaxSteps == 0 {
		opt.MaxSteps = 2000000
	}
	sc := &explore.Scenario{Opt: opt, Main: f}
	return explore.RunDefault(sc, 1)
}

// Sess is a connected client plus the server end of its socket.
type Sess struct {
	Env *vx.Env
	C   *client.Conn
	VC  *vx.Conn
}

// StartSession builds a client (see NewClient for the defaults), lets pre
// register handlers / enable tracking, connects through the in-memory dialler
// and waits until the client is quiescent (registration lines are on the wire).
func StartSession(env *vx.Env, nick string, mod func(cfg *client.Config), pre func(c *client.Conn)) (*Sess, error) {
	s := &Sess{Env: env}
	s.C = NewClient(nick, mod)
	if pre != nil {
		pre(s.C)
	}
	prev := env.ConnSetup
	env.ConnSetup = func(x *vx.Conn) {
		s.VC = x
		if prev != nil {
			prev(x)
		}
	}
	if err := s.C.Connect(); err != nil {
		return s, err
	}
	vx.Quiesce()
	return s, nil
}

// Feed sends the lines (CRLF-terminated, one segment) and waits for quiescence.
func (s *Sess) Feed(lines ...string) {
	s.VC.SendLines(lines...)
	vx.Quiesce()
}

// Wire returns the complete lines the client has written so far.
func (s *Sess) Wire() []string { return s.VC.Lines() }

// WireSince returns the lines written after the first n.
func (s *Sess) WireSince(n int) []string {
	l := s.VC.Lines()
	if n > len(l) {
		n = len(l)
	}
	return l[n:]
}

// End closes the session from the server side and waits for the teardown.
func (s *Sess) End() {
	s.VC.EOF()
	vx.Quiesce()
}

// ---------------------------------------------------------------- enumeration-type job helper

// Enum accumulates the result of an enumeration-type job.
type Enum struct {
	R        *JobResult
	distinct map[uint64]struct{}
	start    time.Time
	maxViol  int
	sigs     map[string]int
}

func NewEnum(job string) *Enum {
	return &Enum{R: &JobResult{Job: job, Kind: "enum", Exhaustive: true}, distinct: map[uint64]struct{}{}, start: time.Now(), maxViol: 10, sigs: map[string]int{}}
}

// Case counts one evaluated case; key identifies it for the distinct/non-trivial
// count ("" = trivial, not counted as distinct).
func (e *Enum) Case(key string) {
	e.R.Evaluations++
	e.R.Transitions++
	if key != "" {
		e.distinct[vx.HashString(key)] = struct{}{}
	}
}

// CaseN counts n evaluated cases that share one non-trivial key.
func (e *Enum) CaseN(n int64, key string) {
	e.R.Evaluations += n
	e.R.Transitions += n
	if key != "" {
		e.distinct[vx.HashString(key)] = struct{}{}
	}
}

// Fail records a violation (at most 3 per oracle id are kept, the shortest inputs first seen).
func (e *Enum) Fail(family, oracle, input, msg string, params map[string]interface{}) {
	e.sigs[family+"|"+oracle]++
	if e.sigs[family+"|"+oracle] > 3 {
		return
	}
	e.R.Violations = append(e.R.Violations, Violation{Family: family, Scenario: family, Params: params, Oracle: oracle, Msg: msg, Input: input})
}

// TooMany reports whether enough distinct violation signatures were collected to stop.
func (e *Enum) TooMany() bool { return len(e.sigs) >= e.maxViol }

func (e *Enum) Sample(v interface{}) { e.R.AddSample(v) }

func (e *Enum) Incomplete(why string) {
	e.R.Exhaustive = false
	e.R.CapsHit = append(e.R.CapsHit, why)
}

func (e *Enum) Done() *JobResult {
	e.R.DistinctN = int64(len(e.distinct))
	e.R.States = int64(len(e.distinct))
	if e.R.States == 0 {
		e.R.States = e.R.Evaluations
	}
	e.R.Traces = e.R.Evaluations
	for h := range e.distinct {
		if len(e.R.Distinct) >= 3000 {
			break
		}
		e.R.Distinct = append(e.R.Distinct, fmt.Sprintf("%s#%016x", e.R.Job, h))
	}
	e.R.WallS = time.Since(e.start).Seconds()
	return e.R
}

// Q quotes a string for messages / inputs.
func Q(s string) string {
	b, _ := json.Marshal(s)
	return string(b)
}

func joinQ(ss []string) string {
	var q []string
	for _, s := range ss {
		q = append(q, Q(s))
	}
	return "[" + strings.Join(q, ",") + "]"
}
