package harness

import (
	"fmt"
	"sort"
	"strings"
	"sync"

	"github.com/fluffle/goirc/client"
	"github.com/fluffle/goirc/state"

	"verif/vx"
)

// C13: tracked state equals the server's ground truth for the client's
// channels (family "conformant-session", oracle 1), and under arbitrary lines
// the tracker keeps its own entry / no channel without me / no user without a
// shared channel (family "arbitrary-lines", oracle 2).

func init() {
	Register(&Prop{
		ID: "C13",
		Rule: "conformant-session: breadth-first over the states of the model IRC network (users me,A,B; channels #x,#y; every legal event in every state, including a silent change of A's host that only a later WHO reply reveals; " +
			"dedupe on the canonical model state incl. the revealed-privileges view and which users' details were told); one real tracked session per (state, visible event): " +
			"the state's shortest history + the event, tracker compared with the oracle view after EVERY event of the session; a case = one (state,event) pair, distinct = distinct model states compared; the sessions are run in the default spelling of the protocol and, one level less deep, in three others (optional PART/KICK/QUIT reasons absent or empty, NICK without and JOIN with a colon, privilege letter pairs o/h, a/v, q/h with their NAMES prefixes, topics with leading/trailing blanks and colons). " +
			"arbitrary-lines: breadth-first over the tracker's observable structure (tracked nicks, channels, memberships, own nick over the whole token universe), " +
			"every line of the alphabet applied in every state by a fresh session replaying the state's shortest line history + the line; a case = one (state,line) pair, distinct = distinct tracker states.",
		Assumptions: []string{
			"default schedule only (ordering of handlers against each other is C03/C05's job)",
			"the model server answers the library's own MODE/WHO requests right after the event that caused them (no interleaving of further events before the reply)",
			"conformant sessions are covered up to the stated depth, not to closure (the model network has millions of states)",
			"arbitrary-lines: the client runs with a NewNick function that stays inside the name universe (me->a->b->me) so that a 433 cannot create names the harness cannot observe",
			"arbitrary-lines: the source is varied over {me!ident@host, a!u@h, srv, none, ME!ident@host} for the verbs whose handler reads it (JOIN PART QUIT NICK) and for KICK; MODE/TOPIC use a!u@h (plus one server- and one source-less line), numerics come from srv",
			"arbitrary-lines: successor states are deduplicated on the tracker's structure (who/which channel is tracked, memberships, own nick); privileges, topics, modes and user details are not part of the key",
		},
		Jobs: c13Jobs,
	})
}

func c13Jobs(tier string) []Job {
	depth1, depth2 := 5, 4
	if tier == "thorough" {
		depth1, depth2 = 7, 6
	}
	var jobs []Job
	const n1 = 48
	for j := 0; j < n1; j++ {
		j := j
		name := fmt.Sprintf("conformant-session/depth=%d/part=%02dof%d", depth1, j, n1)
		jobs = append(jobs, Job{Name: name, Cost: 10, Run: func(jc *JobCtx) *JobResult { return c13SessionJob(jc, name, depth1, j, n1, 0) }})
	}
	// the same sessions in the other spellings of the protocol (one level less deep)
	for st := 1; st < len(c13Styles); st++ {
		const n = 12
		for j := 0; j < n; j++ {
			j, st := j, st
			name := fmt.Sprintf("conformant-session/style=%s/depth=%d/part=%02dof%d", c13Styles[st].Name, depth1-1, j, n)
			jobs = append(jobs, Job{Name: name, Cost: 5, Run: func(jc *JobCtx) *JobResult { return c13SessionJob(jc, name, depth1-1, j, n, st) }})
		}
	}
	jobs = append(jobs, c13LineJobs(tier, depth2)...)
	return jobs
}

// ---------------------------------------------------------------- oracle 1: tracker vs. the model's view

type c13Mismatch struct{ Oracle, Msg string }

func c13PrivStr(p *state.ChanPrivs) string {
	if p == nil {
		return "<nil>"
	}
	return fmt.Sprintf("{q:%v a:%v o:%v h:%v v:%v}", p.Owner, p.Admin, p.Op, p.HalfOp, p.Voice)
}

// c13PrivsEqual: the style's higher privilege letter carries the model's "op", the lower one its "voice";
// the three other privileges are never granted.
func c13PrivsEqual(p *state.ChanPrivs, want c13Privs) bool {
	if p == nil {
		return false
	}
	exp := map[byte]bool{c13Style.Hi: want.Op, c13Style.Lo: want.Voice}
	return p.Owner == exp['q'] && p.Admin == exp['a'] && p.Op == exp['o'] && p.HalfOp == exp['h'] && p.Voice == exp['v']
}

// c13Compare queries the tracker for every channel name, every nick name
// (current and old) and every pair, and lists where it differs from the view.
// It demands only what the statement demands (see the comments per item).
func c13Compare(tr state.Tracker, v *c13View) []c13Mismatch {
	var mm []c13Mismatch
	add := func(oracle, f string, a ...interface{}) { mm = append(mm, c13Mismatch{oracle, fmt.Sprintf(f, a...)}) }
	if tr == nil {
		add("no-tracker", "StateTracker() is nil")
		return mm
	}
	// Me() is me
	me := tr.Me()
	if me == nil {
		add("me-lost", "tracker.Me() is nil")
	} else if me.Nick != v.Me {
		add("me-nick", "tracker.Me().Nick = %q, the server knows the client as %q", me.Nick, v.Me)
	}
	// tracked channels = exactly the channels me is on; members, privileges, topic, modes
	for _, cn := range c13Chans {
		ch := tr.GetChannel(cn)
		want := v.Chans[cn]
		switch {
		case ch == nil && want != nil:
			add("channel-missing", "me is on %s but the tracker has no such channel", cn)
		case ch != nil && want == nil:
			add("channel-stray", "tracker holds %s (members %v) but me is not on it", cn, c13SortedKeys(ch.Nicks))
		case ch != nil:
			got := c13SortedKeys(ch.Nicks)
			exp := c13SortedKeys(want.Members)
			if strings.Join(got, ",") != strings.Join(exp, ",") {
				add("members", "%s: tracker has members %v, the channel has %v", cn, got, exp)
			}
			for _, nn := range exp {
				if p, ok := ch.Nicks[nn]; ok && !c13PrivsEqual(p, want.Members[nn]) {
					add("privileges", "%s: %s tracked with %s, revealed by NAMES/MODE: op=%v voice=%v", cn, nn, c13PrivStr(p), want.Members[nn].Op, want.Members[nn].Voice)
				}
			}
			if ch.Topic != want.Topic {
				add("topic", "%s: tracked topic %q, told topic %q", cn, ch.Topic, want.Topic)
			}
			if m := ch.Modes; m == nil {
				add("chan-modes", "%s: Modes is nil", cn)
			} else {
				if m.NoExternalMsg != want.N || m.Key != want.Key || m.Limit != want.Limit {
					add("chan-modes", "%s: tracked modes n=%v key=%q limit=%d, told (324/MODE) n=%v key=%q limit=%d", cn, m.NoExternalMsg, m.Key, m.Limit, want.N, want.Key, want.Limit)
				}
				// the flags every channel of this network has (told in the 324 reply), and no others
				f := c13Style.Flags324
				has := func(l string) bool { return strings.Contains(f, l) }
				if m.Private != has("p") || m.Secret != has("s") || m.ProtectedTopic != has("t") || m.Moderated != has("m") || m.InviteOnly != has("i") ||
					m.OperOnly != has("O") || m.SSLOnly != has("z") || m.Registered != has("r") || m.AllSSL != has("Z") {
					add("chan-modes", "%s: tracked flags %s, the 324 reply said +%s", cn, m.String(), f)
				}
			}
		}
	}
	// tracked nicks = me + exactly the users sharing a channel with me (under their current names)
	for _, nn := range c13AllNicks {
		nk := tr.GetNick(nn)
		want := v.Users[nn]
		switch {
		case nk == nil && want != nil:
			add("nick-missing", "%s shares %v with me but is not tracked", nn, want.Chans)
		case nk != nil && want == nil:
			add("nick-stray", "tracker holds nick %q (channels %v) but nobody of that name shares a channel with me", nn, c13SortedKeys(nk.Channels))
		case nk != nil:
			got := c13SortedKeys(nk.Channels)
			exp := append([]string(nil), want.Chans...)
			sort.Strings(exp)
			if strings.Join(got, ",") != strings.Join(exp, ",") {
				add("nick-channels", "%s: tracked on %v, shares %v with me", nn, got, exp)
			}
			for _, cn := range exp {
				if p, ok := nk.Channels[cn]; ok && !c13PrivsEqual(p, v.Chans[cn].Members[nn]) {
					add("privileges", "%s on %s (nick view): tracked %s, revealed op=%v voice=%v", nn, cn, c13PrivStr(p), v.Chans[cn].Members[nn].Op, v.Chans[cn].Members[nn].Voice)
				}
			}
			// user@host once told (the client's own details are outside the statement)
			if nn != v.Me && want.Known && (nk.Ident != want.Ident || nk.Host != want.Host) {
				add("user-details", "%s: tracked as %s@%s, the server told %s@%s", nn, nk.Ident, nk.Host, want.Ident, want.Host)
			}
		}
	}
	// IsOn for every pair
	for _, cn := range c13Chans {
		for _, nn := range c13AllNicks {
			p, on := tr.IsOn(cn, nn)
			var wantOn bool
			var wp c13Privs
			if cv := v.Chans[cn]; cv != nil {
				wp, wantOn = cv.Members[nn]
			}
			if on != wantOn {
				add("ison", "IsOn(%s,%s) = %v, want %v", cn, nn, on, wantOn)
			} else if on && !c13PrivsEqual(p, wp) {
				add("privileges", "IsOn(%s,%s) privileges %s, revealed op=%v voice=%v", cn, nn, c13PrivStr(p), wp.Op, wp.Voice)
			}
		}
	}
	return mm
}

// c13RealNameDiffs is recorded, not judged (the statement speaks of user@host only).
func c13RealNameDiffs(tr state.Tracker, v *c13View) int {
	n := 0
	for nn, u := range v.Users {
		if nn == v.Me || !u.KnownReal {
			continue
		}
		if nk := tr.GetNick(nn); nk != nil && nk.Name != u.Real {
			n++
		}
	}
	return n
}

// ---------------------------------------------------------------- one conformant session

type c13SessResult struct {
	Compared   int           // events after which the tracker was compared (incl. the welcome)
	Fed        int           // server lines pushed through the client
	FailAt     int           // index of the first event with a mismatch (-1: welcome, -2: none)
	Mismatches []c13Mismatch // of that event
	Lines      []string      // every server line fed up to and including the failing event
	Outcome    string        // vx outcome kind
	CrashMsg   string
	RealDiffs  int
	ErrLogs    int
	CfgMeNil   bool // Config().Me was nil right after the welcome (recorded for C17; the tracker is what C13 is about)
	Final      ircNet
}

const c13Welcome = ":srv 001 me :Welcome to the network me!ident@host"

// c13RunSession pushes one history through ONE real tracked client, the model
// server answering the client's own requests after every event, and compares
// after every event. It stops at the first event with a mismatch.
func c13RunSession(hist []c13Ev) *c13SessResult { return c13RunSessionStyle(hist, 0) }

func c13RunSessionStyle(hist []c13Ev, style int) *c13SessResult {
	c13Style = c13Styles[style]
	defChans := c13Chans
	if c13Style.Chans[0] != "" {
		c13Chans = c13Style.Chans
	}
	defer func() { c13Style, c13Chans = c13Styles[0], defChans }()
	r := &c13SessResult{FailAt: -2}
	o := RunSeq(vx.Options{}, func(env *vx.Env) {
		s, err := StartSession(env, "me", nil, func(c *client.Conn) { c.EnableStateTracking() })
		if err != nil {
			r.Mismatches = []c13Mismatch{{"connect", err.Error()}}
			r.FailAt = -1
			return
		}
		net := newIrcNet()
		seen := len(s.Wire())
		feed := func(lines []string) {
			if len(lines) == 0 {
				return
			}
			r.Lines = append(r.Lines, lines...)
			r.Fed += len(lines)
			s.Feed(lines...)
		}
		// the reactive part of the server: answer what the client asked, until it asks nothing more
		answer := func() {
			for round := 0; round < 20; round++ {
				reqs := s.WireSince(seen)
				seen += len(reqs)
				var replies []string
				for _, q := range reqs {
					replies = append(replies, net.Answer(q)...)
				}
				if len(replies) == 0 {
					return
				}
				feed(replies)
			}
		}
		check := func(at int) bool {
			v := net.View()
			r.Compared++
			r.RealDiffs += c13RealNameDiffs(s.C.StateTracker(), v)
			if mm := c13Compare(s.C.StateTracker(), v); len(mm) > 0 {
				r.FailAt, r.Mismatches = at, mm
				return false
			}
			return true
		}
		feed([]string{c13Welcome})
		r.CfgMeNil = s.C.Config().Me == nil
		answer()
		ok := check(-1)
		for i := 0; ok && i < len(hist); i++ {
			feed(net.Apply(hist[i]))
			answer()
			ok = check(i)
		}
		r.Final = *net
		s.End()
	})
	r.Outcome = o.Kind
	if o.Kind == "crash" && o.Crash != nil {
		r.CrashMsg = o.Crash.Task + ": panic: " + o.Crash.Value + " @ " + o.Crash.Top
	}
	for _, l := range o.Logs {
		if l.Level == "error" {
			r.ErrLogs++
		}
	}
	return r
}

func c13HistText(hist []c13Ev, upto int) string {
	var parts []string
	for i := 0; i <= upto && i < len(hist); i++ {
		parts = append(parts, hist[i].String())
	}
	return strings.Join(parts, "; ")
}

// ---------------------------------------------------------------- family conformant-session

var c13bfsCache sync.Map // depth -> *c13Graph (one per worker process)

type c13Graph struct {
	nodes  []c13Node
	index  map[ircNet]int32
	closed bool
}

func c13GraphFor(depth int) *c13Graph {
	if g, ok := c13bfsCache.Load(depth); ok {
		return g.(*c13Graph)
	}
	nodes, closed := c13BFS(depth)
	g := &c13Graph{nodes: nodes, closed: closed, index: make(map[ircNet]int32, len(nodes))}
	for i := range nodes {
		g.index[nodes[i].St] = int32(i)
	}
	c13bfsCache.Store(depth, g)
	return g
}

func c13SessionJob(jc *JobCtx, name string, depth, part, parts, style int) *JobResult {
	const family = "conformant-session"
	e := NewEnum(name)
	g := c13GraphFor(depth)
	var sessions, compared, fed, states, realDiffs, errLogs, cfgMeNil int64
	var maxLen int
	index := g.index
	sampled := 0
loop:
	for i := part; i < len(g.nodes); i += parts {
		nd := &g.nodes[i]
		if int(nd.Depth) >= depth {
			break // nodes are in breadth-first order
		}
		hist := c13History(g.nodes, i)
		ownCounted := false
		st := nd.St
		for _, ev := range st.Events() {
			t := st
			if len(t.Apply(ev)) == 0 {
				continue // invisible to the client: nothing to push through it
			}
			h := append(append([]c13Ev(nil), hist...), ev)
			r := c13RunSessionStyle(h, style)
			sessions++
			compared += int64(r.Compared)
			fed += int64(r.Fed)
			realDiffs += int64(r.RealDiffs)
			errLogs += int64(r.ErrLogs)
			if r.CfgMeNil {
				cfgMeNil++
			}
			if len(h) > maxLen {
				maxLen = len(h)
			}
			e.Case(fmt.Sprintf("%v", t))
			// distinct states credited to this job: the state itself when its own
			// (tree) edge was invisible or it is the root, and every successor
			// first reached through the edge just run
			if !ownCounted && r.Compared > len(hist) {
				ownCounted = true
				if nd.Parent < 0 {
					states++
				} else {
					p := g.nodes[nd.Parent].St
					if len(p.Apply(nd.Ev)) == 0 {
						states++
					}
				}
			}
			if ti := index[t]; g.nodes[ti].Parent == int32(i) && g.nodes[ti].Ev == ev && r.FailAt == -2 && r.Outcome == "ok" {
				states++
			}
			if r.Outcome != "ok" {
				e.Fail(family, r.Outcome, "welcome; "+c13HistText(h, len(h))+" || lines: "+joinQ(r.Lines), "session outcome "+r.Outcome+" "+r.CrashMsg, map[string]interface{}{"depth": depth, "events": c13EncodeHist(h), "style": style})
			} else if r.FailAt != -2 {
				if r.Final != t && r.FailAt == len(h)-1 {
					// cannot happen: the model is deterministic
					e.R.Notes = append(e.R.Notes, "model replay diverged")
				}
				seenOr := map[string]bool{}
				for _, m := range r.Mismatches {
					if seenOr[m.Oracle] {
						continue
					}
					seenOr[m.Oracle] = true
					e.Fail(family, m.Oracle,
						"welcome; "+c13HistText(h, r.FailAt)+" || lines: "+joinQ(r.Lines),
						fmt.Sprintf("after event %d (%s): %s", r.FailAt+1, c13EvName(h, r.FailAt), m.Msg),
						map[string]interface{}{"depth": depth, "events": c13EncodeHist(h[:r.FailAt+1]), "style": style})
				}
			}
			if sampled < 2 && len(h) >= 3 && r.FailAt == -2 {
				sampled++
				e.Sample(map[string]interface{}{"family": family, "history": c13HistText(h, len(h)), "server_lines": r.Lines, "events_compared": r.Compared})
			}
			if e.TooMany() || jc.Expired() {
				if jc.Expired() {
					e.Incomplete(fmt.Sprintf("deadline at state %d of %d", i, len(g.nodes)))
				} else {
					e.Incomplete("stopped after 10 distinct violation signatures")
				}
				break loop
			}
		}
	}
	res := e.Done()
	res.Evaluations = sessions
	res.Traces = sessions
	res.Transitions = sessions
	res.States = states
	res.DistinctN = states
	res.Distinct = nil
	if !g.closed {
		res.Bounds = append(res.Bounds, fmt.Sprintf("depth<=%d (not closed: %d model states)", depth, len(g.nodes)))
	} else {
		res.Bounds = append(res.Bounds, fmt.Sprintf("closure at depth<=%d (%d model states)", depth, len(g.nodes)))
	}
	res.Notes = append(res.Notes, fmt.Sprintf("sessions=%d (one per distinct (state, visible event)); events compared incl. re-checked prefixes=%d; server lines fed=%d; longest history=%d; real-name differences after WHO (recorded, not judged)=%d; error-level log records=%d; sessions in which Config().Me was nil right after the 001 welcome (recorded, not judged: C13 is about the tracker)=%d",
		sessions, compared, fed, maxLen, realDiffs, errLogs, cfgMeNil))
	return res
}

// c13EncodeHist / c13DecodeHist: the event list as it is stored in a violation's params.
func c13EncodeHist(h []c13Ev) []string {
	out := []string{}
	for _, e := range h {
		out = append(out, fmt.Sprintf("%d.%d.%d.%d", e.Kind, e.U, e.C, e.X))
	}
	return out
}

func c13DecodeHist(v interface{}) ([]c13Ev, bool) {
	l, ok := v.([]interface{})
	if !ok {
		return nil, false
	}
	var h []c13Ev
	for _, x := range l {
		s, _ := x.(string)
		var e c13Ev
		if n, _ := fmt.Sscanf(s, "%d.%d.%d.%d", &e.Kind, &e.U, &e.C, &e.X); n != 4 {
			return nil, false
		}
		h = append(h, e)
	}
	return h, true
}

func init() {
	prev := replayInput
	replayInput = func(v *Violation) int {
		if v.Property != "C13" {
			if prev != nil {
				return prev(v)
			}
			fmt.Println("violation has no schedule; input:", v.Input)
			return 0
		}
		return c13Replay(v)
	}
}

// c13Replay re-runs the single history / line sequence of a recorded violation.
func c13Replay(v *Violation) int {
	found := false
	if v.Family == "conformant-session" {
		h, ok := c13DecodeHist(v.Params["events"])
		if !ok {
			fmt.Println("cannot decode params.events; input:", v.Input)
			return 2
		}
		style := 0
		if f, ok := v.Params["style"].(float64); ok && int(f) < len(c13Styles) {
			style = int(f)
		}
		r := c13RunSessionStyle(h, style)
		fmt.Println("style:", c13Styles[style].Name)
		fmt.Println("history: welcome;", c13HistText(h, len(h)))
		for _, l := range r.Lines {
			fmt.Println("  S>", l)
		}
		fmt.Println("outcome:", r.Outcome, r.CrashMsg)
		if r.Outcome == v.Oracle {
			found = true
		}
		for _, m := range r.Mismatches {
			fmt.Printf("FINDING oracle=%s after event %d (%s): %s\n", m.Oracle, r.FailAt+1, c13EvName(h, r.FailAt), m.Msg)
			found = found || m.Oracle == v.Oracle
		}
	} else {
		var lines []string
		if l, ok := v.Params["lines"].([]interface{}); ok {
			for _, x := range l {
				s, _ := x.(string)
				lines = append(lines, s)
			}
		}
		r := c13RunLines(lines)
		for _, l := range lines {
			fmt.Println("  S>", Q(l))
		}
		fmt.Println("outcome:", r.Outcome, r.Crash)
		if r.Outcome == "crash" && v.Oracle == "crash" {
			found = true
		}
		if r.Obs != nil {
			fmt.Println("tracker:", r.Obs.Key)
			for _, m := range r.Obs.Bad {
				fmt.Printf("FINDING oracle=%s %s\n", m.Oracle, m.Msg)
				found = found || m.Oracle == v.Oracle
			}
		}
	}
	if found {
		fmt.Println("REPRODUCED")
		return 1
	}
	fmt.Println("NOT REPRODUCED")
	return 0
}

func c13EvName(h []c13Ev, i int) string {
	if i < 0 {
		return "001 welcome"
	}
	return h[i].String()
}

// ---------------------------------------------------------------- family arbitrary-lines

// every name a line of the alphabet can put into the tracker (argument tokens,
// plus "o": the NAMES entry "+o" is voice-prefix + nick "o"). The tracker is
// queried for each of them as a nick AND as a channel.
var c13Names = []string{"#x", "#y", "me", "a", "b", "", "@a", "+o", "-o", "a b", "o", "ME"}

// c13Rotate is the client's NewNick function in this family: it stays inside the universe.
func c13Rotate(old string) string {
	switch old {
	case "me":
		return "a"
	case "a":
		return "b"
	}
	return "me"
}

func c13Param(tok string, last bool) string {
	if last && (tok == "" || strings.Contains(tok, " ") || tok[0] == ':') {
		return ":" + tok
	}
	return tok
}

// c13Alphabet: every state-handler verb (and 001, 433) x sources x argument
// tokens in the positions the handler reads, incl. lines with too few arguments.
func c13Alphabet() []string {
	const sMe, sA, sSrv = ":me!ident@host ", ":a!u@h ", ":srv "
	// (":ME!...": somebody whose nick differs from the client's in letter case only; nicks are compared byte for byte)
	srcs := []string{sMe, sA, sSrv, "", ":ME!ident@host "}
	var out []string
	seen := map[string]bool{}
	add := func(src string, parts ...string) {
		for i := range parts {
			parts[i] = c13Param(parts[i], i == len(parts)-1 && i > 0)
		}
		l := src + strings.Join(parts, " ")
		if !seen[l] {
			seen[l] = true
			out = append(out, l)
		}
	}
	chanToks := []string{"#x", "#y", "a", "me", "@a", "", "a b"}
	for _, verb := range []string{"JOIN", "PART"} {
		for _, s := range srcs {
			for _, c := range chanToks {
				add(s, verb, c)
			}
			add(s, verb)
		}
	}
	for _, s := range srcs {
		add(s, "QUIT", "a b")
	}
	add(sA, "QUIT")
	for _, s := range srcs {
		for _, n := range []string{"me", "a", "b", "#x", "@a", "", "a b"} {
			add(s, "NICK", n)
		}
		add(s, "NICK")
	}
	for _, s := range srcs {
		for _, c := range []string{"#x", "#y", "a"} {
			for _, v := range []string{"me", "a", "b", "@a", "", "a b"} {
				add(s, "KICK", c, v)
			}
		}
	}
	add(sA, "KICK")
	add(sA, "KICK", "#x")
	for _, t := range []string{"#x", "#y", "me", "a"} {
		for _, m := range []string{"+o", "-o"} {
			add(sA, "MODE", t, m)
			for _, a := range []string{"me", "a", "b", "@a", "", "a b"} {
				add(sA, "MODE", t, m, a)
			}
		}
	}
	add(sA, "MODE")
	add(sA, "MODE", "#x")
	add("", "MODE", "#x", "+o", "me")
	add(sSrv, "MODE", "#x", "-o", "me")
	for _, c := range []string{"#x", "#y", "a", "me"} {
		for _, t := range []string{"", "a b", "+o"} {
			add(sA, "TOPIC", c, t)
		}
	}
	add(sA, "TOPIC")
	add(sA, "TOPIC", "#x")
	for _, n := range []string{"me", "a", "b", "@a", "#x"} {
		for _, r := range []string{"", "a b"} {
			add(sSrv, "311", "me", n, "a", "b", "*", r)
		}
	}
	add(sSrv, "311", "me", "a", "a", "b", "a b")
	add(sSrv, "311", "me", "a")
	add(sSrv, "311")
	for _, c := range []string{"#x", "#y", "a"} {
		for _, m := range []string{"+o", "-o"} {
			add(sSrv, "324", "me", c, m)
			for _, a := range []string{"me", "a", "b", "", "a b"} {
				add(sSrv, "324", "me", c, m, a)
			}
		}
	}
	add(sSrv, "324", "me", "#x")
	add(sSrv, "324")
	for _, c := range []string{"#x", "#y", "a"} {
		for _, t := range []string{"", "a b"} {
			add(sSrv, "332", "me", c, t)
		}
	}
	add(sSrv, "332", "me", "#x")
	add(sSrv, "332")
	for _, n := range []string{"me", "a", "b", "@a"} {
		for _, f := range []string{"+o", "a"} {
			for _, t := range []string{"a b", "", "a"} {
				add(sSrv, "352", "me", "#x", "a", "b", "srv", n, f, t)
			}
		}
	}
	for _, n := range []string{"me", "a", "", "a b"} {
		add(sSrv, "352", "me", "#x", "a", "b", "srv", n)
	}
	add(sSrv, "352", "me", "#x", "a", "b", "srv", "a", "a b")
	add(sSrv, "352", "me", "#x", "a", "b", "srv", "b", "a b")
	add(sSrv, "352", "me", "#x", "a", "b", "srv")
	add(sSrv, "352")
	for _, c := range []string{"#x", "#y", "a"} {
		for _, names := range []string{"me", "a", "b", "", "@a", "+o", "-o", "a b", "@me +b", "#x"} {
			add(sSrv, "353", "me", "=", c, names)
		}
	}
	add(sSrv, "353", "me", "=", "#x")
	add(sSrv, "353", "me", "#x", "a b")
	add(sSrv, "353", "me", "#x", "#x")
	add(sSrv, "353", "me", "=")
	add(sSrv, "353")
	for _, n := range []string{"me", "a", "b", "@a"} {
		add(sSrv, "671", "me", n, "a b")
	}
	add(sSrv, "671", "me", "a b")
	add(sSrv, "671", "me", "")
	add(sSrv, "671", "me")
	add(sSrv, "671")
	for _, t := range []string{"me", "a", "b", "@a", "#x"} {
		for _, x := range []string{"Welcome me!ident@host", "a b", ""} {
			add(sSrv, "001", t, x)
		}
	}
	add(sSrv, "001", "a b")
	add(sSrv, "001", "")
	add(sSrv, "001")
	for _, w := range []string{"me", "a", "b", "@a", "#x"} {
		add(sSrv, "433", "me", w, "a b")
	}
	add(sSrv, "433", "me", "a b")
	add(sSrv, "433", "me", "")
	add(sSrv, "433", "me")
	add(sSrv, "433")
	return out
}

// c13Obs is what one look at the tracker yields: the canonical structural key
// and the oracle-2 findings.
type c13Obs struct {
	Key     string
	Bad     []c13Mismatch
	Outside []string // names seen in membership maps that are outside c13Names (recorded)
}

func c13Observe(tr state.Tracker) *c13Obs {
	ob := &c13Obs{}
	if tr == nil {
		ob.Bad = append(ob.Bad, c13Mismatch{"no-tracker", "StateTracker() is nil"})
		return ob
	}
	inNames := map[string]bool{}
	for _, n := range c13Names {
		inNames[n] = true
	}
	var sb strings.Builder
	me := tr.Me()
	meNick := ""
	if me == nil {
		ob.Bad = append(ob.Bad, c13Mismatch{"me-lost", "tracker.Me() is nil"})
		sb.WriteString("me=<nil>")
	} else {
		meNick = me.Nick
		fmt.Fprintf(&sb, "me=%q", meNick)
		if own := tr.GetNick(meNick); own == nil {
			ob.Bad = append(ob.Bad, c13Mismatch{"me-lost", fmt.Sprintf("Me().Nick is %q but GetNick(%q) is nil", meNick, meNick)})
		}
	}
	chans := map[string]*state.Channel{}
	for _, cn := range c13Names {
		ch := tr.GetChannel(cn)
		if ch == nil {
			continue
		}
		chans[cn] = ch
		mem := c13SortedKeys(ch.Nicks)
		fmt.Fprintf(&sb, " C%q%q", cn, mem)
		for _, m := range mem {
			if !inNames[m] {
				ob.Outside = append(ob.Outside, m)
			}
		}
		if _, ok := ch.Nicks[meNick]; !ok || me == nil {
			ob.Bad = append(ob.Bad, c13Mismatch{"channel-without-me", fmt.Sprintf("channel %q is tracked with members %q, the client (%q) is not among them", cn, mem, meNick)})
		}
	}
	for _, nn := range c13Names {
		nk := tr.GetNick(nn)
		if nk == nil {
			continue
		}
		on := c13SortedKeys(nk.Channels)
		fmt.Fprintf(&sb, " N%q%q", nn, on)
		if me != nil && nn == meNick {
			continue
		}
		tracked := 0
		for _, cn := range on {
			if !inNames[cn] {
				ob.Outside = append(ob.Outside, cn)
				tracked++ // cannot be looked at; do not judge
			} else if chans[cn] != nil {
				tracked++
			}
		}
		if tracked == 0 {
			ob.Bad = append(ob.Bad, c13Mismatch{"nick-without-channel", fmt.Sprintf("nick %q is tracked (channels %q) but is on no tracked channel", nn, on)})
		}
	}
	ob.Key = sb.String()
	return ob
}

type c13LineResult struct {
	Obs     *c13Obs
	Outcome string
	Crash   string
}

func c13LineSession(f func(s *Sess)) (outcome, crash string) {
	o := RunSeq(vx.Options{}, func(env *vx.Env) {
		s, err := StartSession(env, "me", func(cfg *client.Config) { cfg.NewNick = c13Rotate }, func(c *client.Conn) { c.EnableStateTracking() })
		if err != nil {
			return
		}
		f(s)
		s.End()
	})
	if o.Kind == "crash" && o.Crash != nil {
		crash = o.Crash.Task + ": panic: " + o.Crash.Value + " @ " + o.Crash.Top
	}
	return o.Kind, crash
}

// c13RunLines: a fresh session, the lines one at a time, one look at the end.
func c13RunLines(lines []string) *c13LineResult {
	r := &c13LineResult{}
	r.Outcome, r.Crash = c13LineSession(func(s *Sess) {
		for _, l := range lines {
			s.Feed(l)
		}
		r.Obs = c13Observe(s.C.StateTracker())
	})
	return r
}

type c13LState struct {
	Key    string
	Parent int32
	Line   int32 // alphabet index of the line leading here from Parent
	Depth  int
}

type c13LGraph struct {
	alpha         []string
	states        []c13LState
	index         map[string]int32
	succ          map[[2]int32]int32 // (state, line) -> successor, for the non-self-loops found by discovery
	closed        bool
	notes         []string
	sessions, fed int64
}

func (g *c13LGraph) hist(i int32) []string {
	var h []string
	for j := i; g.states[j].Parent >= 0; j = g.states[j].Parent {
		h = append(h, g.alpha[g.states[j].Line])
	}
	for a, b := 0, len(h)-1; a < b; a, b = a+1, b-1 {
		h[a], h[b] = h[b], h[a]
	}
	return h
}

var c13lineCache sync.Map // depth -> *c13LGraph (one discovery per worker process)

// c13Digest is a cheap change detector used by the discovery pass only: the
// tracker's debug string (lines sorted, because it is built in map order) plus
// the client's own nick, which the string leaves out.
func c13Digest(tr state.Tracker) string {
	me := ""
	if m := tr.Me(); m != nil {
		me = m.Nick
	}
	l := strings.Split(tr.String(), "\n")
	sort.Strings(l)
	return me + "\x00" + strings.Join(l, "\n")
}

// c13Discover finds the tracker states reachable within depth-1 lines and one
// shortest history for each, breadth-first (it expands the states reachable
// within depth-2 lines). Every worker process has to do this for itself, so
// it is made cheap: instead of a fresh session per line, one session
// positioned at state s keeps feeding candidate lines for as long as the
// structure stays s, and is restarted (replaying s's history) after each line
// that changed it, and every 100 lines. Discovery only proposes: the jobs
// re-run every (state, line) pair in a fresh session and compare what they see
// with what discovery saw.
func c13Discover(depth int) *c13LGraph {
	if g, ok := c13lineCache.Load(depth); ok {
		return g.(*c13LGraph)
	}
	g := &c13LGraph{alpha: c13Alphabet(), index: map[string]int32{}, succ: map[[2]int32]int32{}}
	defer c13lineCache.Store(depth, g)
	root := c13RunLines(nil)
	g.sessions++
	if root.Obs == nil {
		g.notes = append(g.notes, "root session failed: "+root.Outcome)
		return g
	}
	g.states = append(g.states, c13LState{Key: root.Obs.Key, Parent: -1})
	g.index[root.Obs.Key] = 0
	for i := int32(0); int(i) < len(g.states); i++ {
		st := g.states[i]
		if st.Depth >= depth-1 {
			break // breadth-first order: everything from here on is at the last discovered level
		}
		hist := g.hist(i)
		pos := 0
		for pos < len(g.alpha) {
			changedKey, changedAt, start := "", -1, pos
			g.sessions++
			outcome, _ := c13LineSession(func(s *Sess) {
				for _, l := range hist {
					s.Feed(l)
					g.fed++
				}
				tr := s.C.StateTracker()
				if k := c13Observe(tr).Key; k != st.Key {
					g.notes = append(g.notes, fmt.Sprintf("replay of state %d gave a different key", i))
					pos = len(g.alpha)
					return
				}
				base := c13Digest(tr)
				for pos < len(g.alpha) && pos < start+100 {
					s.Feed(g.alpha[pos])
					g.fed++
					pos++
					d := c13Digest(tr)
					if d == base {
						continue
					}
					base = d
					if k := c13Observe(tr).Key; k != st.Key {
						changedKey, changedAt = k, pos-1
						return
					}
				}
			})
			if outcome != "ok" && changedAt < 0 && pos == start {
				pos++ // the session died before it got anywhere: leave this line to the jobs
			}
			if changedAt >= 0 {
				t, ok := g.index[changedKey]
				if !ok {
					t = int32(len(g.states))
					g.index[changedKey] = t
					g.states = append(g.states, c13LState{Key: changedKey, Parent: i, Line: int32(changedAt), Depth: st.Depth + 1})
				}
				g.succ[[2]int32{i, int32(changedAt)}] = t
			}
		}
	}
	return g
}

func c13LineJobs(tier string, depth int) []Job {
	const n2 = 64
	var jobs []Job
	for j := 0; j < n2; j++ {
		j := j
		name := fmt.Sprintf("arbitrary-lines/depth=%d/part=%02dof%d", depth, j, n2)
		jobs = append(jobs, Job{Name: name, Cost: 20, Run: func(jc *JobCtx) *JobResult { return c13LineJob(jc, name, depth, j, n2) }})
	}
	return jobs
}

// c13LineJob runs its share of the (state, line) pairs: for every tracker
// state reachable within depth-1 lines and every line of the alphabet, a fresh
// session replays the state's shortest history plus the line; oracle 2 is
// evaluated on what the tracker then shows.
func c13LineJob(jc *JobCtx, name string, depth, part, parts int) *JobResult {
	const family = "arbitrary-lines"
	e := NewEnum(name)
	g := c13Discover(depth)
	var sessions, states, disagree, missed, beyond int64
	outside := map[string]bool{}
	seenKeys := map[uint64]struct{}{}
	L := len(g.alpha)
	report := func(hist []string, r *c13LineResult) {
		in := joinQ(hist)
		if r.Outcome == "crash" {
			e.Fail(family, "crash", in, "a panic escaped a goroutine: "+r.Crash, map[string]interface{}{"lines": append([]string{}, hist...)})
		} else if r.Outcome != "ok" {
			e.R.Notes = append(e.R.Notes, "session outcome "+r.Outcome+" for "+in)
			e.Incomplete("a session ended with outcome " + r.Outcome)
		}
		if r.Obs == nil {
			return
		}
		seenKeys[vx.HashString(r.Obs.Key)] = struct{}{}
		seenOr := map[string]bool{}
		for _, m := range r.Obs.Bad {
			if !seenOr[m.Oracle] {
				seenOr[m.Oracle] = true
				e.Fail(family, m.Oracle, in, fmt.Sprintf("after %d line(s): %s [tracker: %s]", len(hist), m.Msg, r.Obs.Key), map[string]interface{}{"lines": append([]string{}, hist...)})
			}
		}
		for _, o := range r.Obs.Outside {
			outside[o] = true
		}
	}
	if part == 0 && len(g.states) > 0 {
		r := c13RunLines(nil)
		sessions++
		report(nil, r)
		states++
	}
	sampled := 0
loop:
	for i := int32(0); int(i) < len(g.states); i++ {
		st := &g.states[i]
		if st.Depth >= depth {
			break
		}
		var hist []string
		for l := 0; l < L; l++ {
			if (int(i)*L+l)%parts != part {
				continue
			}
			if hist == nil {
				hist = g.hist(i)
			}
			h := append(append([]string(nil), hist...), g.alpha[l])
			r := c13RunLines(h)
			sessions++
			report(h, r)
			if r.Obs != nil && r.Outcome == "ok" {
				t, known := g.index[r.Obs.Key]
				if st.Depth < depth-1 {
					// discovery expanded this state: compare
					pred, moved := g.succ[[2]int32{i, int32(l)}]
					if !moved {
						pred = i
					}
					switch {
					case !known:
						missed++
						e.R.Notes = append(e.R.Notes, "fresh session reached a state the discovery pass did not list: "+joinQ(h)+" -> "+r.Obs.Key)
					case t != pred:
						disagree++
					}
					if known && g.states[t].Parent == i && g.states[t].Line == int32(l) {
						states++ // the first (a shortest) way into t: credited to this pair
					}
					if sampled < 2 && moved && len(h) >= 2 {
						sampled++
						e.Sample(map[string]interface{}{"family": family, "lines": h, "tracker_state": r.Obs.Key})
					}
				} else if !known {
					beyond++ // a state first seen at the depth bound: checked by oracle 2, not expanded
				}
			}
			if e.TooMany() || jc.Expired() {
				if jc.Expired() {
					e.Incomplete(fmt.Sprintf("deadline at state %d of %d", i, len(g.states)))
				} else {
					e.Incomplete("stopped after 10 distinct violation signatures")
				}
				break loop
			}
		}
	}
	res := e.Done()
	res.Evaluations = sessions
	res.Traces = sessions
	res.Transitions = sessions
	res.States = states
	res.Distinct = res.Distinct[:0]
	for h := range seenKeys {
		res.Distinct = append(res.Distinct, fmt.Sprintf("C13-tracker-state#%016x", h))
	}
	sort.Strings(res.Distinct)
	res.DistinctN = int64(len(res.Distinct))
	if missed > 0 {
		res.Exhaustive = false
		res.CapsHit = append(res.CapsHit, fmt.Sprintf("%d fresh sessions reached states the discovery pass did not list (not expanded)", missed))
	}
	if beyond == 0 {
		res.Bounds = append(res.Bounds, fmt.Sprintf("%d states within %d lines expanded with all %d lines; this job saw no state beyond them", len(g.states), depth-1, L))
	} else {
		res.Bounds = append(res.Bounds, fmt.Sprintf("depth<=%d lines, not closed: %d states within %d lines expanded with all %d lines; %d of this job's sessions ended in states first seen at the bound", depth, len(g.states), depth-1, L, beyond))
	}
	var outs []string
	for o := range outside {
		outs = append(outs, o)
	}
	sort.Strings(outs)
	res.Notes = append(res.Notes, fmt.Sprintf("fresh sessions=%d; states credited (first way in, depth<%d)=%d; distinct tracker states seen by this job=%d; successor differs from the discovery pass=%d; names outside the universe seen=%q; discovery (per process): %d sessions, %d lines, notes=%q",
		sessions, depth, states, len(seenKeys), disagree, outs, g.sessions, g.fed, g.notes))
	return res
}
