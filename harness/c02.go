package harness

// C02: no input from the server can crash the client or stop it processing.
//
// Four enumerations (DESIGN.md section 4, C02):
//   (1) direct/bytes   every string over the alphabet c02Alphabet up to length
//                      6 (quick) / 7 (thorough) through client.ParseLine, then
//                      Text/Target/Public on every non-nil result;
//   (2) direct/tokens  every concatenation of up to 4 (quick) / 5 (thorough)
//                      tokens (handled verbs, numerics, punctuation, prefixes),
//                      same treatment;
//   (3) session-probe  for every verb with a built-in handler, every list of
//                      0-4 (quick) / 0-6 (thorough) middle parameters over
//                      {me,#c,x} x trailing {absent, empty, "a b", "me"} x
//                      source {none, server, n!u@h, me!ident@host}, sent over a
//                      real connection in batches of c02Batch, state tracking on
//                      and off; every session ends with "PING :sync-end" and a
//                      well-formed PRIVMSG that a handler must receive;
//   (4) sequence       every sequence of up to 2 (quick) / 3 (thorough) lines
//                      over one representative per outcome class (classes are
//                      computed from single-line sessions over a candidate
//                      pool), followed by the same sync + tail.
//
// Oracle: no panic escapes a goroutine (outcome kind "crash"; recv has no
// recover, so a parser panic is a process death), "PONG :sync-end" is on the
// wire, the tail PRIVMSG is delivered exactly once; accessors never panic on
// a line the parser produced. Nothing else is judged (what a handler does
// with an odd line is not this property's business; a handler panic that the
// configured Recover catches is not a crash).

import (
	"encoding/json"
	"fmt"
	"go/ast"
	"go/parser"
	"go/token"
	"os"
	"path/filepath"
	"regexp"
	"strconv"
	"sort"
	"strings"
	"sync"
	"time"

	sasl "github.com/emersion/go-sasl"
	"github.com/fluffle/goirc/client"

	"verif/vx"
)

const c02Batch = 100

// one representative per byte class the parser or a built-in handler branches on
var c02Alphabet = []byte{'@', ':', ' ', '!', ';', '=', '\\', '\x01', 'a', '#', '1'}

// prefixes after which every short byte string is tried as well (family 1b)
var c02DeepPrefixes = []string{"PRIVMSG #c :", "NOTICE me :", ":n!u@h PRIVMSG me :", ":n!u@h NOTICE #c :", "@a=b :n!u@h PRIVMSG #c :", "@",
	"CAP * LS :", "CAP me ACK :", "MODE #c ", ":irc.example 353 me = #c :", ":irc.example 324 me #c ", "AUTHENTICATE "}

var c02TokenVerbs = []string{"PRIVMSG", "NOTICE", "PING", "CAP", "AUTHENTICATE", "001", "433", "JOIN", "PART", "KICK", "QUIT", "NICK", "MODE", "TOPIC",
	"311", "324", "332", "352", "353", "671", "903", "904", "908", "410"}

var c02TokenOther = []string{" ", ":", " :", "@a", "n!u@h", "u@h!n", "\x01", "ACTION", "VERSION", "#c", "me", "+o", "@", "~%"}

// Verbs that have a built-in handler (client/handlers.go intHandlers,
// client/state_handlers.go stHandlers): 23 that arrive on the wire under
// their own name (CTCP can also be sent literally), NOTICE, the pseudo-event
// names, and the other names ParseLine / the accessors treat specially.
var c02ProbeVerbs = []string{
	"001", "433", "NICK", "PING", "CAP", "410", "AUTHENTICATE", "903", "904", "908", "CTCP",
	"JOIN", "KICK", "MODE", "PART", "QUIT", "TOPIC", "311", "324", "332", "352", "353", "671",
	"NOTICE",
	"REGISTER", "CONNECTED", "DISCONNECTED",
	"PRIVMSG", "ACTION", "CTCPREPLY",
}

// c02SourceVerbs: every string literal in the non-test sources of package client that looks like a command name or a
// numeric and is not a probe verb already. A verb the library mentions anywhere (a constant of commands.go, a case of
// Target / Public / a handler table) is probed like the ones with built-in handling, so that a verb that gains special
// treatment is covered without the harness knowing its name. Read from the tree under check (VERIF_REPO, default /repo),
// in sorted order, identically in the runner and in every worker.
func c02SourceVerbs() []string {
	dir := os.Getenv("VERIF_REPO")
	if dir == "" {
		dir = "/repo"
	}
	files, _ := filepath.Glob(filepath.Join(dir, "client", "*.go"))
	sort.Strings(files)
	have := map[string]bool{}
	for _, v := range c02ProbeVerbs {
		have[v] = true
	}
	verbish := regexp.MustCompile(`^([A-Z]{3,14}|[0-9]{3})$`)
	var out []string
	for _, f := range files {
		if strings.HasSuffix(f, "_test.go") {
			continue
		}
		af, err := parser.ParseFile(token.NewFileSet(), f, nil, 0)
		if err != nil {
			continue
		}
		ast.Inspect(af, func(n ast.Node) bool {
			if bl, ok := n.(*ast.BasicLit); ok && bl.Kind == token.STRING {
				if v, err := strconv.Unquote(bl.Value); err == nil && verbish.MatchString(v) && !have[v] {
					have[v] = true
					out = append(out, v)
				}
			}
			return true
		})
	}
	sort.Strings(out)
	return out
}

var c02NSourceVerbs int

func init() {
	sv := c02SourceVerbs()
	c02NSourceVerbs = len(sv)
	c02ProbeVerbs = append(c02ProbeVerbs, sv...)
}

var c02ProbeSrcs = []MSrc{
	{},
	{Kind: "server", Name: "irc.example"},
	{Kind: "nuh", Nick: "n", User: "u", Host: "h"},
	{Kind: "nuh", Nick: "me", User: "ident", Host: "host"},
}

var c02ProbeTrails = []c01Trail{{}, {Has: true, Trail: ""}, {Has: true, Trail: "a b"}, {Has: true, Trail: "me"},
	// odd tokens: bare modifiers / signs as they occur in capability and mode lists
	{Has: true, Trail: "-"}, {Has: true, Trail: "x ~ = -"}}

const (
	c02Welcome = ":irc.example 001 me :Welcome to the Internet Relay Network me!ident@host"
	c02JoinMe  = ":me!ident@host JOIN #c"
	c02JoinX   = ":x!u@h JOIN #c"
	c02Sync    = "PING :sync-end"
	c02Pong    = "PONG :sync-end"
	c02Tail    = ":n!u@h PRIVMSG #c :tail"
)

// ---------------------------------------------------------------- (1), (2): direct

// c02Direct parses one line directly (a panic is a violation) and calls the
// accessors on a non-nil result (a panic is a violation).
func c02Direct(e *Enum, fb *failBook, s string) {
	l, crash := SafeParse(s)
	e.Case(s)
	if crash != "" {
		fb.Fail("parse-direct", "crash", crash, Q(s), "ParseLine panics (on the receive goroutine this kills the process): "+crash, map[string]interface{}{"lines": []string{s}, "mode": "direct"})
		return
	}
	if l == nil {
		return
	}
	if a := SafeAccessors(l); a.Crash != "" {
		fb.Fail("accessors", "crash", a.Crash, Q(s), a.Crash+" panics on a line the parser produced (Cmd="+Q(l.Cmd)+" Args="+joinQ(l.Args)+")", map[string]interface{}{"lines": []string{s}, "mode": "direct"})
	}
}

// forEachString calls f for every string prefix+w, |w| <= maxSuffix over alpha; f returns false to stop.
func forEachString(prefix string, alpha []byte, maxSuffix int, f func(s string) bool) bool {
	buf := make([]byte, len(prefix), len(prefix)+maxSuffix)
	copy(buf, prefix)
	var rec func(depth int) bool
	rec = func(depth int) bool {
		if !f(string(buf)) {
			return false
		}
		if depth == maxSuffix {
			return true
		}
		for _, c := range alpha {
			buf = append(buf, c)
			ok := rec(depth + 1)
			buf = buf[:len(buf)-1]
			if !ok {
				return false
			}
		}
		return true
	}
	return rec(0)
}

func c02BytesJob(name, prefix string, maxSuffix int, only func(s string) bool) Job {
	return Job{Name: name, Cost: 1 + maxSuffix*maxSuffix, Run: func(jc *JobCtx) *JobResult {
		e := NewEnum(name)
		fb := newFailBook(e)
		n := 0
		done := forEachString(prefix, c02Alphabet, maxSuffix, func(s string) bool {
			if only != nil && !only(s) {
				return true
			}
			c02Direct(e, fb, s)
			n++
			if n == 1 {
				e.Sample(map[string]string{"line": s})
			}
			return n&4095 != 0 || !jc.Expired()
		})
		if !done {
			e.Incomplete(fmt.Sprintf("deadline after %d strings", n))
		}
		fb.Flush()
		return e.Done()
	}}
}

func c02TokensJob(name string, first string, tokens []string, maxMore int) Job {
	return Job{Name: name, Cost: 2 + maxMore*maxMore*maxMore, Run: func(jc *JobCtx) *JobResult {
		e := NewEnum(name)
		fb := newFailBook(e)
		n := 0
		var rec func(cur string, depth int) bool
		rec = func(cur string, depth int) bool {
			c02Direct(e, fb, cur)
			n++
			if n&4095 == 0 && jc.Expired() {
				return false
			}
			if depth == maxMore {
				return true
			}
			for _, t := range tokens {
				if !rec(cur+t, depth+1) {
					return false
				}
			}
			return true
		}
		if !rec(first, 0) {
			e.Incomplete(fmt.Sprintf("deadline after %d token sequences", n))
		}
		e.Sample(map[string]interface{}{"first_token": first, "more_tokens": maxMore, "sequences": n})
		fb.Flush()
		return e.Done()
	}}
}

// ---------------------------------------------------------------- sessions

type c02Res struct {
	Kind   string
	Crash  string
	Pong   int
	Tails  int
	Err    string
	Wire   []string
	Logs   []vx.LogRec
	NWrote int // lines written after the prelude
}

// verdict returns the oracle id ("" = fine) and a message.
func (r *c02Res) verdict() (string, string) {
	switch {
	case r.Err != "":
		return "harness-error", "session could not be started: " + r.Err
	case r.Kind == "crash":
		return "crash", "a panic escapes a client goroutine (process death): " + r.Crash
	case r.Pong == 0 && r.Tails == 0:
		return "stops-processing", fmt.Sprintf("after the probe line(s) neither %q is answered nor the following PRIVMSG delivered (outcome %s)", c02Sync, r.Kind)
	case r.Pong == 0:
		return "sync-missing", fmt.Sprintf("%q sent after the probe line(s) is not answered with %q (outcome %s)", c02Sync, c02Pong, r.Kind)
	case r.Tails != 1:
		return "tail-delivery", fmt.Sprintf("the well-formed PRIVMSG after the probe line(s) was delivered %d times, want once (outcome %s)", r.Tails, r.Kind)
	}
	return "", ""
}

// c02Session sends prelude, the lines, the sync marker and the tail over one connection.
func c02Session(lines []string, tracking bool) *c02Res { return c02SessionSasl(lines, tracking, -1) }

// c02SessionSasl: stage >= 0 configures capability negotiation and SASL PLAIN and brings the negotiation to
// stage 0 (CAP LS sent, nothing answered), 1 (sasl acknowledged, AUTHENTICATE PLAIN sent, the initial response
// pending) or 2 (SASL succeeded, CAP END sent) before the probe lines arrive.
func c02SessionSasl(lines []string, tracking bool, stage int) *c02Res {
	{
		pm := c02SessionParams(lines, tracking)
		if stage >= 0 {
			pm["sasl_stage"] = stage
		}
		Beat("session-probe", c02Input(lines, tracking), pm)
	}
	r := &c02Res{}
	fc := stage == -2 // flood protection on: the answers the lines provoke are rate-limited
	o := RunSeq(vx.Options{Horizon: 48 * time.Hour}, func(env *vx.Env) {
		var mod func(cfg *client.Config)
		if fc {
			mod = func(cfg *client.Config) { cfg.Flood = false }
		}
		if stage >= 0 {
			mod = func(cfg *client.Config) {
				cfg.EnableCapabilityNegotiation = true
				cfg.Capabilites = []string{"multi-prefix"}
				cfg.Sasl = sasl.NewPlainClient("", "u", "p")
			}
		}
		s, err := StartSession(env, "me", mod, func(c *client.Conn) {
			if tracking {
				c.EnableStateTracking()
			}
			c.HandleFunc("PRIVMSG", func(conn *client.Conn, l *client.Line) {
				if l.Raw == c02Tail {
					r.Tails++
				}
			})
		})
		if err != nil {
			r.Err = err.Error()
			return
		}
		if stage >= 1 {
			s.Feed(":irc.example CAP * LS :multi-prefix sasl", ":irc.example CAP me ACK :multi-prefix sasl")
		}
		if stage >= 2 {
			s.Feed("AUTHENTICATE +", ":irc.example 903 me :SASL authentication successful")
		}
		s.Feed(c02Welcome, c02JoinMe, c02JoinX)
		n0 := len(s.Wire())
		all := make([]string, 0, len(lines)+len(lines)/5+2)
		for i, l := range lines {
			if i > 0 && i%10 == 0 {
				// keep the tracker populated so that handlers reach their deeper branches
				all = append(all, c02JoinMe, c02JoinX)
			}
			all = append(all, l)
		}
		// the probe lines, then empty lines with both line endings (nothing to dispatch, nothing to crash on), then the
		// sync marker and the tail
		s.Feed(all...)
		s.VC.Send("\n\r\n \n\r\r\n")
		vx.Quiesce()
		if fc {
			vx.Sleep(time.Hour) // every hold of the rate limiter expires
			vx.Quiesce()
		}
		all = []string{c02Sync, c02Tail}
		s.Feed(all...)
		if fc {
			vx.Sleep(time.Hour)
			vx.Quiesce()
		}
		r.Wire = s.WireSince(n0)
		r.NWrote = len(r.Wire)
		for _, w := range r.Wire {
			if NormLine(w) == c02Pong {
				r.Pong++
			}
		}
		s.End()
	})
	r.Kind = o.Kind
	if o.Crash != nil {
		r.Crash = "task " + o.Crash.Task + ": " + o.Crash.Value + " @ " + o.Crash.Top
	}
	r.Logs = o.Logs
	return r
}

func c02SessionParams(lines []string, tracking bool) map[string]interface{} {
	return map[string]interface{}{"lines": lines, "tracking": tracking, "mode": "session"}
}

func c02Input(lines []string, tracking bool) string {
	t := "off"
	if tracking {
		t = "on"
	}
	return "tracking=" + t + " lines=" + joinQ(lines)
}

// c02CheckBatch runs one batch; on failure it narrows the batch down to the
// offending line (halving, re-running sessions), reports it, removes it and
// repeats, so that every offender of the batch is found.
func c02CheckBatch(fb *failBook, family string, batch []string, tracking bool) {
	c02CheckBatchSasl(fb, family, batch, tracking, -1)
}

func c02CheckBatchSasl(fb *failBook, family string, batch []string, tracking bool, stage int) {
	c02Session := func(lines []string, tracking bool) *c02Res { return c02SessionSasl(lines, tracking, stage) }
	c02Input := func(lines []string, tracking bool) string {
		if stage >= 0 {
			return fmt.Sprintf("sasl-stage=%d ", stage) + c02Input(lines, tracking)
		}
		return c02Input(lines, tracking)
	}
	c02SessionParams := func(lines []string, tracking bool) map[string]interface{} {
		m := c02SessionParams(lines, tracking)
		if stage >= 0 {
			m["sasl_stage"] = stage
		}
		return m
	}
	fails := func(sub []string) bool {
		o, _ := c02Session(sub, tracking).verdict()
		return o != ""
	}
	rest := append([]string(nil), batch...)
	for iter := 0; iter < 60 && len(rest) > 0; iter++ {
		if !fails(rest) {
			return
		}
		bad := minimizeFailing(rest, fails)
		res := c02Session(bad, tracking)
		oracle, msg := res.verdict()
		if oracle == "" {
			// not reproducible on its own (should not happen: executions are deterministic)
			fb.Fail(family, "unstable", "", c02Input(rest, tracking), "a failing batch stopped failing when re-run", c02SessionParams(rest, tracking))
			return
		}
		fb.Fail(family, oracle, res.Crash, c02Input(bad, tracking), msg, c02SessionParams(bad, tracking))
		drop := map[string]bool{}
		for _, b := range bad {
			drop[b] = true
		}
		var nr []string
		for _, l := range rest {
			if !drop[l] {
				nr = append(nr, l)
			}
		}
		rest = nr
		if fb.TooMany() {
			return
		}
	}
}

func c02ParamLists(menu []string, maxLen int) [][]string {
	var out [][]string
	var rec func(prefix []string, n int)
	rec = func(prefix []string, n int) {
		if len(prefix) == n {
			out = append(out, append([]string(nil), prefix...))
			return
		}
		for _, p := range menu {
			rec(append(prefix, p), n)
		}
	}
	for n := 0; n <= maxLen; n++ {
		rec(nil, n)
	}
	return out
}

func c02ProbeLines(verb string, src MSrc, maxParams int) []string {
	menu := []string{"me", "#c", "x"}
	if verb == "CAP" {
		// the CAP handler branches on the sub-command
		menu = append(menu, "LS", "ACK", "NAK")
		if maxParams > 4 {
			maxParams = 4
		}
	}
	var out []string
	for _, mid := range c02ParamLists(menu, maxParams) {
		for _, tr := range c02ProbeTrails {
			m := Msg{Src: src, Verb: verb, Mid: mid, HasTrail: tr.Has, Trail: tr.Trail}
			out = append(out, m.Wire())
		}
	}
	return out
}

// c02SaslVerbs: the verbs whose built-in handlers look at the negotiation / SASL state.
var c02SaslVerbs = []string{"CAP", "AUTHENTICATE", "903", "904", "908", "001", "433", "NICK"}

func c02SaslProbeJob(name, verb string, src MSrc, maxParams int) Job {
	return Job{Name: name, Cost: 30, Run: func(jc *JobCtx) *JobResult {
		e := NewEnum(name)
		fb := newFailBook(e)
		lines := c02ProbeLines(verb, src, maxParams)
		if verb == "AUTHENTICATE" {
			// payloads: valid / invalid base64, the empty-data marker, a 400-byte chunk
			for _, a := range []string{"+", "Kw==", "AHUAcA==", "!!!", "=", strings.Repeat("QUFB", 100)} {
				m1, m2 := Msg{Src: src, Verb: verb, Mid: []string{a}}, Msg{Src: src, Verb: verb, HasTrail: true, Trail: a}
				lines = append(lines, m1.Wire(), m2.Wire())
			}
		}
		for stage := 0; stage <= 2; stage++ {
			for i := 0; i < len(lines); i += c02Batch {
				j := i + c02Batch
				if j > len(lines) {
					j = len(lines)
				}
				for _, l := range lines[i:j] {
					e.Case(fmt.Sprintf("S%d|%s", stage, l))
				}
				c02CheckBatchSasl(fb, "session-probe-sasl", lines[i:j], false, stage)
				if fb.TooMany() || jc.Expired() {
					e.Incomplete(fmt.Sprintf("stopped at stage %d after %d of %d probe lines", stage, j, len(lines)))
					fb.Flush()
					return e.Done()
				}
			}
		}
		fb.Flush()
		return e.Done()
	}}
}

func c02ProbeJob(name, verb string, src MSrc, tracking bool, maxParams int) Job {
	cost := 3
	for i := 0; i < maxParams; i++ {
		cost *= 3
	}
	return Job{Name: name, Cost: cost, Run: func(jc *JobCtx) *JobResult {
		e := NewEnum(name)
		fb := newFailBook(e)
		lines := c02ProbeLines(verb, src, maxParams)
		tk := "T0|"
		if tracking {
			tk = "T1|"
		}
		nSess := 0
		for i := 0; i < len(lines); i += c02Batch {
			j := i + c02Batch
			if j > len(lines) {
				j = len(lines)
			}
			batch := lines[i:j]
			for _, l := range batch {
				e.Case(tk + l)
				// the same line directly, for the accessors
				if pl, crash := SafeParse(l); crash == "" && pl != nil {
					if a := SafeAccessors(pl); a.Crash != "" {
						fb.Fail("accessors", "crash", a.Crash, Q(l), a.Crash+" panics on a line the parser produced (Cmd="+Q(pl.Cmd)+" Args="+joinQ(pl.Args)+")", map[string]interface{}{"lines": []string{l}, "mode": "direct"})
					}
				}
			}
			c02CheckBatch(fb, "session-probe", batch, tracking)
			nSess++
			if fb.TooMany() || jc.Expired() {
				if j < len(lines) {
					e.Incomplete(fmt.Sprintf("stopped after %d of %d probe lines", j, len(lines)))
				}
				break
			}
		}
		if len(lines) > 0 {
			e.Sample(map[string]interface{}{"verb": verb, "tracking": tracking, "probes": len(lines), "sessions": nSess, "first": lines[0], "last": lines[len(lines)-1]})
		}
		fb.Flush()
		return e.Done()
	}}
}

// c02AfterSessionJob sends every string prefix+w, |w| <= maxSuffix over the byte alphabet, through sessions (family 1c).
func c02AfterSessionJob(name, prefix string, maxSuffix int, tracking bool) Job {
	return Job{Name: name, Cost: 2 + maxSuffix*maxSuffix*maxSuffix, Run: func(jc *JobCtx) *JobResult {
		e := NewEnum(name)
		fb := newFailBook(e)
		var lines []string
		forEachString(prefix, c02Alphabet, maxSuffix, func(s string) bool { lines = append(lines, s); return true })
		tk := "T0|"
		if tracking {
			tk = "T1|"
		}
		nSess := 0
		for i := 0; i < len(lines); i += c02Batch {
			j := i + c02Batch
			if j > len(lines) {
				j = len(lines)
			}
			for _, l := range lines[i:j] {
				e.Case(tk + l)
			}
			c02CheckBatch(fb, "session-bytes", lines[i:j], tracking)
			nSess++
			if fb.TooMany() || jc.Expired() {
				if j < len(lines) {
					e.Incomplete(fmt.Sprintf("stopped after %d of %d lines", j, len(lines)))
				}
				break
			}
		}
		e.Sample(map[string]interface{}{"prefix": prefix, "tracking": tracking, "lines": len(lines), "sessions": nSess, "last": lines[len(lines)-1]})
		fb.Flush()
		return e.Done()
	}}
}

// ---------------------------------------------------------------- (4): sequences over outcome classes

// c02Class computes the outcome class of one line from a single-line session.
func c02Class(line string, tracking bool) string {
	var sb strings.Builder
	l, crash := SafeParse(line)
	switch {
	case crash != "":
		sb.WriteString("parse=crash:" + crash)
	case l == nil:
		sb.WriteString("parse=nil")
	default:
		cmd := "other"
		for _, v := range c02ProbeVerbs {
			if v == l.Cmd {
				cmd = v
			}
		}
		sb.WriteString("parse=" + cmd)
		if a := SafeAccessors(l); a.Crash != "" {
			sb.WriteString(" acc=crash")
		}
	}
	r := c02Session([]string{line}, tracking)
	o, _ := r.verdict()
	sb.WriteString(" kind=" + r.Kind + " verdict=" + o)
	if r.Crash != "" {
		sb.WriteString(" " + r.Crash)
	}
	seen := map[string]bool{}
	var logs []string
	for _, lr := range r.Logs {
		if lr.Level == "warn" || lr.Level == "error" {
			k := lr.Level + ":" + lr.Format
			if strings.Contains(lr.Format, "panic") && len(lr.Args) >= 3 {
				k += fmt.Sprint(lr.Args[2])
			}
			if !seen[k] {
				seen[k] = true
				logs = append(logs, k)
			}
		}
	}
	sort.Strings(logs)
	sb.WriteString(" logs=" + strings.Join(logs, ","))
	var verbs []string
	for _, w := range r.Wire {
		if NormLine(w) == c02Pong {
			continue
		}
		if i := strings.IndexByte(w, ' '); i > 0 {
			w = w[:i]
		}
		verbs = append(verbs, w)
	}
	sb.WriteString(" wrote=" + strings.Join(verbs, ","))
	return sb.String()
}

func c02Candidates() []string {
	var c []string
	seen := map[string]bool{}
	add := func(s string) {
		if !seen[s] && !strings.ContainsAny(s, "\r\n") {
			seen[s] = true
			c = append(c, s)
		}
	}
	// hand-picked shapes first, so that they become the representatives of their classes
	for _, s := range []string{
		":n!u@h PRIVMSG #c :hello", ":a@b!c X", "@a=b :n!u@h PRIVMSG #c :hi",
		"PRIVMSG #c :\x01\x01", "PRIVMSG #c :\x01ACTION\x01", ":n!u@h PRIVMSG me :\x01VERSION\x01", ":n!u@h PRIVMSG me :\x01PING\x01", ":n!u@h PRIVMSG me :\x01PING 1\x01",
		":irc.example 433 * me :Nickname is already in use", ":me!ident@host NICK you", ":irc.example CAP * LS :sasl multi-prefix",
		":irc.example 353 me = #c :@a +b c", ":irc.example 352 me #c u h irc.example x H :0 Real", "ERROR :Closing link",
		// capability lists with bare modifier tokens, and lines longer than the 4096-byte read buffer
		":irc.example CAP * LS :x ~", ":irc.example CAP me ACK :-", ":irc.example CAP * ACK :=", ":irc.example CAP me NAK :-a ~",
		// parameters the built-in handlers echo, longer than a line may be; targets made of prefix characters only
		"PING :" + strings.Repeat("t", 600), ":irc.example 433 * " + strings.Repeat("n", 600) + " :Nickname is already in use",
		":n!u@h PRIVMSG me :\x01PING " + strings.Repeat("p", 600) + "\x01", ":me!ident@host JOIN #" + strings.Repeat("c", 600),
		// arguments a built-in handler echoes through the message splitter: longer than SplitLen, without a space, made of
		// UTF-8 continuation bytes / multi-byte characters / 0xff
		":n!u@h PRIVMSG me :\x01PING " + strings.Repeat("\x80", 460) + "\x01", ":n!u@h PRIVMSG me :\x01PING " + strings.Repeat("\u00e9", 300) + "\x01",
		":n!u@h PRIVMSG me :\x01PING " + strings.Repeat("\xff", 500) + "\x01", ":n!u@h PRIVMSG me :\x01VERSION " + strings.Repeat("\x80", 460) + "\x01",
		"PRIVMSG @ :hi", ":n!u@h NOTICE ~ :x", ":n!u@h PRIVMSG % :\x01ACTION x\x01", "PRIVMSG ~@% :hi", ":n!u@h PRIVMSG + :x", ":n!u@h NOTICE @ :\x01VERSION\x01",
		":n!u@h PRIVMSG #c :" + strings.Repeat("x", 4080), ":n!u@h PRIVMSG #c :" + strings.Repeat("y", 5000), "@k=" + strings.Repeat("v", 4500) + " :n!u@h PRIVMSG #c :tagged",
	} {
		add(s)
	}
	for n := 1; n <= 3; n++ {
		forEachString("", c02Alphabet, n, func(s string) bool {
			if len(s) == n {
				add(s)
			}
			return true
		})
	}
	for _, v := range c02ProbeVerbs {
		for _, src := range c02ProbeSrcs {
			for _, l := range c02ProbeLines(v, src, 2) {
				add(l)
			}
		}
	}
	return c
}

type c02Reps struct {
	Lines   []string
	Classes []string
	Pool    int
}

var c02RepCache = map[bool]*c02Reps{}
var c02RepMu sync.Mutex

// c02Representatives: first candidate of every distinct outcome class (deterministic order).
func c02Representatives(tracking bool) *c02Reps {
	c02RepMu.Lock()
	defer c02RepMu.Unlock()
	if r := c02RepCache[tracking]; r != nil {
		return r
	}
	cands := c02Candidates()
	r := &c02Reps{Pool: len(cands)}
	seen := map[string]bool{}
	for _, l := range cands {
		k := c02Class(l, tracking)
		if !seen[k] {
			seen[k] = true
			r.Lines = append(r.Lines, l)
			r.Classes = append(r.Classes, k)
		}
	}
	c02RepCache[tracking] = r
	return r
}

const c02MaxReps = 160

func c02SeqJob(name string, tracking bool, part, parts, maxLen int) Job {
	return Job{Name: name, Cost: 40 * maxLen * maxLen, Run: func(jc *JobCtx) *JobResult {
		e := NewEnum(name)
		fb := newFailBook(e)
		reps := c02Representatives(tracking)
		lines := reps.Lines
		if len(lines) > c02MaxReps {
			e.R.Notes = append(e.R.Notes, fmt.Sprintf("%d outcome classes found, sequences built over the first %d", len(lines), c02MaxReps))
			lines = lines[:c02MaxReps]
		}
		tk := "T0|"
		if tracking {
			tk = "T1|"
		}
		n := 0
		stop := false
		var rec func(seq []string)
		rec = func(seq []string) {
			if stop {
				return
			}
			if len(seq) > 0 {
				e.Case(tk + strings.Join(seq, "\n"))
				n++
				res := c02Session(seq, tracking)
				if o, msg := res.verdict(); o != "" {
					bad := seq
					if len(seq) > 1 {
						bad = minimizeFailing(seq, func(sub []string) bool {
							o2, _ := c02Session(sub, tracking).verdict()
							return o2 != ""
						})
						res = c02Session(bad, tracking)
						o, msg = res.verdict()
					}
					fb.Fail("sequence", o, res.Crash, c02Input(bad, tracking), msg, c02SessionParams(bad, tracking))
				}
				if n&63 == 0 && jc.Expired() {
					stop = true
					return
				}
			}
			if len(seq) == maxLen {
				return
			}
			for i, l := range lines {
				if len(seq) == 0 && i%parts != part {
					continue
				}
				rec(append(seq, l))
			}
		}
		rec(nil)
		if stop {
			e.Incomplete(fmt.Sprintf("deadline after %d sequences", n))
		}
		if part == 0 {
			e.R.Notes = append(e.R.Notes, fmt.Sprintf("tracking=%v: %d outcome classes among %d candidate lines", tracking, len(reps.Lines), reps.Pool))
			for i := 0; i < len(reps.Lines) && i < 3; i++ {
				e.Sample(map[string]string{"representative": reps.Lines[i], "class": reps.Classes[i]})
			}
		}
		fb.Flush()
		return e.Done()
	}}
}

// ---------------------------------------------------------------- registration

func c02Jobs(tier string) []Job {
	thorough := tier == "thorough"
	maxLen, maxTok, maxParams, seqLen := 6, 4, 4, 2
	if thorough {
		maxLen, maxTok, maxParams, seqLen = 7, 5, 6, 3
	}
	var jobs []Job
	// (1)
	jobs = append(jobs, c02BytesJob(fmt.Sprintf("c02/bytes/len<=%d/short", maxLen), "", 1, nil))
	for _, a := range c02Alphabet {
		for _, b := range c02Alphabet {
			p := string([]byte{a, b})
			jobs = append(jobs, c02BytesJob(fmt.Sprintf("c02/bytes/len<=%d/prefix=%s", maxLen, Q(p)), p, maxLen-2, nil))
		}
	}
	// (1b) the same byte strings behind prefixes that reach the branches for message text, tags, capability and mode lists
	for _, p := range c02DeepPrefixes {
		jobs = append(jobs, c02BytesJob(fmt.Sprintf("c02/bytes-after/len<=%d/prefix=%s", maxLen-2, Q(p)), p, maxLen-2, nil))
	}
	// (1c) and through sessions, three (quick) / four (thorough) bytes after the prefix
	for _, p := range c02DeepPrefixes {
		for _, tr := range []bool{false, true} {
			jobs = append(jobs, c02AfterSessionJob(fmt.Sprintf("c02/bytes-after-session/len<=%d/prefix=%s/tracking=%v", maxLen-3, Q(p), tr), p, maxLen-3, tr))
		}
	}
	// (2)
	tokens := append(append([]string(nil), c02TokenVerbs...), c02TokenOther...)
	for _, t := range tokens {
		jobs = append(jobs, c02TokensJob(fmt.Sprintf("c02/tokens/len<=%d/first=%s", maxTok, Q(t)), t, tokens, maxTok-1))
	}
	// (3)
	for _, v := range c02ProbeVerbs {
		for si, src := range c02ProbeSrcs {
			for _, tr := range []bool{false, true} {
				t := "off"
				if tr {
					t = "on"
				}
				jobs = append(jobs, c02ProbeJob(fmt.Sprintf("c02/probe/params<=%d/verb=%s/src=%d/tracking=%s", maxParams, v, si, t), v, src, tr, maxParams))
			}
		}
	}
	// (3b) the negotiation-sensitive verbs again with capability negotiation and SASL PLAIN configured, at three stages
	for _, v := range c02SaslVerbs {
		for si, src := range c02ProbeSrcs {
			jobs = append(jobs, c02SaslProbeJob(fmt.Sprintf("c02/probe-sasl/params<=%d/verb=%s/src=%d", maxParams, v, si), v, src, maxParams))
		}
	}
	// (3c) the hand-picked lines and eight PINGs with flood protection on (what they provoke is written through the rate limiter)
	jobs = append(jobs, Job{Name: "c02/flood-protected", Cost: 30, Run: func(jc *JobCtx) *JobResult {
		e := NewEnum("c02/flood-protected")
		fb := newFailBook(e)
		lines := append([]string{}, c02Candidates()...)
		for i := 0; i < 8; i++ {
			lines = append(lines, fmt.Sprintf("PING :flood-%d", i), ":n!u@h PRIVMSG me :\x01VERSION\x01")
		}
		for _, tr := range []bool{false, true} {
			for i := 0; i < len(lines); i += 40 {
				j := i + 40
				if j > len(lines) {
					j = len(lines)
				}
				for _, l := range lines[i:j] {
					e.Case(fmt.Sprintf("FC|%v|%s", tr, l))
				}
				c02CheckBatchSasl(fb, "session-floodctl", lines[i:j], tr, -2)
				if fb.TooMany() || jc.Expired() {
					e.Incomplete("stopped early")
					fb.Flush()
					return e.Done()
				}
			}
		}
		e.Sample(map[string]interface{}{"lines": len(lines), "first": lines[0]})
		fb.Flush()
		return e.Done()
	}})
	// (4)
	const parts = 16
	for _, tr := range []bool{false, true} {
		t := "off"
		if tr {
			t = "on"
		}
		for p := 0; p < parts; p++ {
			jobs = append(jobs, c02SeqJob(fmt.Sprintf("c02/seq/len<=%d/tracking=%s/part=%02d", seqLen, t, p), tr, p, parts, seqLen))
		}
	}
	for i := range jobs {
		jobs[i] = GuardJob(jobs[i])
	}
	return jobs
}

func init() {
	Register(&Prop{
		ID: "C02",
		Rule: "(1) every string over {@ : space ! ; = \\ \\x01 a # 1} up to length 6 (quick) / 7 (thorough) and (2) every concatenation of up to 4 / 5 tokens (24 verbs and numerics, 14 punctuation / prefix tokens) given to ParseLine, with Text/Target/Public on every non-nil result; (1b) the strings of (1) up to length 4 / 5 after each of 12 prefixes (PRIVMSG / NOTICE text with and without source and tags, CAP LS / ACK lists, MODE, 353, 324, AUTHENTICATE), and (1c) up to length 3 / 4 through sessions with and without tracking; " +
			"(3) every probe line verb x 0-4 / 0-6 middle parameters over {me,#c,x} (CAP: plus LS, ACK, NAK, at most 4) x 6 trailings (absent, empty, two words, the own nick, a bare minus sign, odd modifier tokens) x 4 sources for the 30 verbs with built-in handling and for every other command name or numeric that occurs as a string literal in the sources of package client (read from the tree under check), sent through a connection 100 per session with state tracking off and on, each session closed by PING :sync-end and a well-formed PRIVMSG; (3b) the same for the 8 negotiation-sensitive verbs (plus base64 / non-base64 AUTHENTICATE payloads) with negotiation and SASL PLAIN configured at 3 negotiation stages; " +
			"(4) every sequence of up to 2 / 3 lines over one representative per outcome class (class = direct parse result, session outcome, warn/error log formats, verbs written in response; computed over a pool of about 8000 candidate lines) through a connection; " +
			"distinct = distinct line (1,2), distinct (tracking, line) (3), distinct (tracking, sequence) (4)",
		Assumptions: []string{
			"only the exhaustive, length-bounded part of the quantifier is covered; the 'randomly and coverage-guided beyond that' part is sampling/fuzzing, a different technique, and is not done here",
			"the alphabet has one representative per byte class the parser and the built-in handlers branch on; CR and LF cannot occur inside a line (recv splits on LF and trims CR/LF)",
			"sessions run under the default schedule of the vx runtime; all lines of a session arrive in one segment after a 001 / JOIN prelude; a panic caught by the configured Recover (handlers) is not a crash, a panic on recv/runLoop/send is",
			"families (3) and (4) run without SASL and with capability negotiation off (the CAP handler still runs on every CAP line); family (3c) sends the hand-picked lines and eight PING / CTCP VERSION pairs with flood protection on (the answers go through the rate limiter; an hour of virtual time before the sync marker); family (3b) repeats the probes of CAP, AUTHENTICATE, 903, 904, 908, 001, 433 and NICK with negotiation on and SASL PLAIN configured, before the server's CAP LS answer, with the initial response pending, and after 903",
			"teardown after the tail line (server EOF) is part of the session, but only a crash there is judged, not a deadlock (that is C07)",
		},
		Jobs: c02Jobs,
	})
	prev := replayInput
	replayInput = func(v *Violation) int {
		if v.Property != "C02" {
			if prev != nil {
				return prev(v)
			}
			fmt.Println("violation has no schedule; input:", v.Input)
			return 0
		}
		return c02Replay(v)
	}
}

func c02Replay(v *Violation) int {
	b, _ := json.Marshal(v.Params)
	var p struct {
		Lines    []string `json:"lines"`
		Tracking bool     `json:"tracking"`
		Mode     string   `json:"mode"`
		Stage    *int     `json:"sasl_stage"`
	}
	if err := json.Unmarshal(b, &p); err != nil || len(p.Lines) == 0 {
		fmt.Println("no lines recorded; input:", v.Input)
		return 0
	}
	rc := 0
	if p.Mode == "direct" {
		e := NewEnum("replay")
		fb := newFailBook(e)
		c02Direct(e, fb, p.Lines[0])
		fb.Flush()
		for _, x := range e.R.Violations {
			fmt.Printf("FINDING family=%s oracle=%s %s\n", x.Family, x.Oracle, x.Msg)
			if x.Oracle == v.Oracle && x.Family == v.Family {
				rc = 1
			}
		}
	} else {
		stage := -1
		if p.Stage != nil {
			stage = *p.Stage
		}
		r := c02SessionSasl(p.Lines, p.Tracking, stage)
		for _, w := range r.Wire {
			fmt.Println("client wrote:", Q(w))
		}
		fmt.Printf("outcome=%s pong=%d tails=%d %s\n", r.Kind, r.Pong, r.Tails, r.Crash)
		if o, msg := r.verdict(); o != "" {
			fmt.Printf("FINDING oracle=%s %s\n", o, msg)
			if o == v.Oracle {
				rc = 1
			}
		}
	}
	if rc == 1 {
		fmt.Println("REPRODUCED")
	} else {
		fmt.Println("NOT REPRODUCED")
	}
	return rc
}
