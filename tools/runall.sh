#!/bin/bash
# runs every claimed check at the given tier (default quick) and prints a one-line summary each
tier=${1:-quick}
cd /verif
for p in $(python3 -c "import json;print(' '.join(c['property_id'] for c in json.load(open('MANIFEST.json'))['checks']))"); do
  s=$(date +%s.%N)
  out=$(./bin/verif check $p --tier $tier 2>&1); rc=$?
  e=$(date +%s.%N)
  printf "%s rc=%d %.1fs :: %s\n" $p $rc $(echo "$e - $s" | bc) "$(echo "$out" | tail -1 | cut -c1-220)"
  echo "$out" | grep -E "^(VIOLATION|KNOWN-FINDING|INCONCLUSIVE|BUILD)" | cut -c1-200
done
