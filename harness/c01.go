package harness

// C01: well-formed IRC messages parse to exactly the components that were sent.
//
// The cases are the product of component menus (tags x source x verb x middle
// parameters with separators x trailing), printed to wire text by the
// reference printer in c01_model.go. Each message is
//   (a) given to client.ParseLine directly and compared field by field with
//       the components it was printed from, and
//   (b) for a systematic subset (every stride-th message of each job and every
//       message with at most one singly spaced middle parameter, batched
//       c01Batch per session) sent over an in-memory connection; the *Line a
//       foreground handler for the expected event name receives must equal
//       the direct parse (except Time).
//
// Not generated, because the quantifier puts it outside the claim: white
// space other than U+0020 inside parameters, more than one space between
// tags / source / verb, CTCP payloads without text or with extra \x01 bytes,
// invalid tag escapes. Also not generated because the statement does not fix
// the answer: duplicate tag keys; lower-case CTCP verbs; a CTCP payload on a
// PRIVMSG/NOTICE that does not have exactly one middle parameter (target);
// more than one space before the " :" of the trailing parameter; sources
// that are neither a server name nor nick!user@host.

import (
	"encoding/json"
	"fmt"
	"runtime/debug"
	"sort"
	"strings"

	"github.com/fluffle/goirc/client"

	"verif/vx"
)

const c01Batch = 150

// ---------------------------------------------------------------- menus

type c01Mid struct {
	Mid []string
	Sep []int
}

type c01Trail struct {
	Has      bool
	Trail    string
	CtcpVerb string
	CtcpText string
}

type c01Menus struct {
	tags   [][]MTag
	srcs   []MSrc
	verbs  []string
	mids   []c01Mid
	trails []c01Trail
}

// value alphabet for escaped tag values: the five bytes that need escaping
// plus the letters that follow a backslash in an escape (so that e.g. the
// value backslash+'s', printed `\\s`, is distinguished from the escape `\s`),
// plus an ordinary letter.
var c01ValAlphabet = []byte{';', ' ', '\\', '\r', '\n', 's', ':', 'n', 'r', 'x'}

func c01Values(minLen, maxLen int) []string {
	var out []string
	var rec func(prefix []byte, n int)
	rec = func(prefix []byte, n int) {
		if len(prefix) == n {
			out = append(out, string(prefix))
			return
		}
		for _, c := range c01ValAlphabet {
			rec(append(prefix, c), n)
		}
	}
	for n := minLen; n <= maxLen; n++ {
		rec(nil, n)
	}
	return out
}

// c01BaseTags: no tag section, the fixed shapes, every value of length 1..2
// over the value alphabet (all five escapes and every ordered pair of them),
// and two-tag sections whose values are single escapes (the ';' that
// separates tags next to an escaped ';').
func c01BaseTags() [][]MTag {
	ts := [][]MTag{
		nil,
		{{Key: "a"}},
		{{Key: "a", Eq: true}},
		{{Key: "a", Val: "b", Eq: true}},
		{{Key: "a", Val: "b", Eq: true}, {Key: "c", Val: "d", Eq: true}},
		{{Key: "a", Val: "b=c", Eq: true}},
		{{Key: "a"}, {Key: "b", Val: "c", Eq: true}},
		{{Key: "a", Eq: true}, {Key: "b"}},
		{{Key: "example.com/k", Val: "v", Eq: true}},
		{{Key: "+draft/x", Val: "y", Eq: true}},
	}
	for _, v := range c01Values(1, 2) {
		ts = append(ts, []MTag{{Key: "k", Val: v, Eq: true}})
	}
	esc := []string{";", " ", "\\", "\r", "\n"}
	for _, v1 := range esc {
		for _, v2 := range esc {
			ts = append(ts, []MTag{{Key: "a", Val: v1, Eq: true}, {Key: "b", Val: v2, Eq: true}})
		}
	}
	return ts
}

// c01LongTags: every value of length 3 (thorough only).
func c01LongTags() [][]MTag {
	var ts [][]MTag
	for _, v := range c01Values(3, 3) {
		ts = append(ts, []MTag{{Key: "k", Val: v, Eq: true}})
	}
	return ts
}

func c01Srcs(thorough bool) []MSrc {
	s := []MSrc{
		{},
		{Kind: "server", Name: "irc.example.org"},
		{Kind: "nuh", Nick: "n", User: "u", Host: "h"},
		{Kind: "nuh", Nick: "n", User: "u", Host: "h.x"},
		// RFC 2812: user = any octet except NUL, CR, LF, " " and "@" - so '!' may occur in it
		{Kind: "nuh", Nick: "n", User: "u!v", Host: "h"},
	}
	if thorough {
		s = append(s,
			MSrc{Kind: "server", Name: "localhost"},
			MSrc{Kind: "nuh", Nick: "Nick-1", User: "~user", Host: "2001:db8::1"})
	}
	return s
}

var c01Verbs = []string{"PRIVMSG", "privmsg", "PrivMsg", "NOTICE", "notice", "001", "433", "JOIN", "Foo", "foo"}

// c01Mids: lists of 0..14 middle parameters. Up to full parameters every list
// over the menu; beyond that one list per rotation of the menu. Each list is
// combined with the separator patterns 1,1,1.. / 2,2,2.. / 3,3,3.. / 1,2,3,1.. /
// 3,2,1,3.. (spaces before each middle parameter).
func c01Mids(menu []string, full int) []c01Mid {
	var lists [][]string
	var rec func(prefix []string, n int)
	rec = func(prefix []string, n int) {
		if len(prefix) == n {
			lists = append(lists, append([]string(nil), prefix...))
			return
		}
		for _, p := range menu {
			rec(append(prefix, p), n)
		}
	}
	for n := 0; n <= full; n++ {
		rec(nil, n)
	}
	for n := full + 1; n <= 14; n++ {
		for r := range menu {
			l := make([]string, n)
			for i := range l {
				l[i] = menu[(i+r)%len(menu)]
			}
			lists = append(lists, l)
		}
	}
	pats := [][]int{{1}, {2}, {3}, {1, 2, 3}, {3, 2, 1}}
	var out []c01Mid
	for _, l := range lists {
		seen := map[string]bool{}
		for _, p := range pats {
			sep := make([]int, len(l))
			for i := range sep {
				sep[i] = p[i%len(p)]
			}
			k := fmt.Sprint(sep)
			if seen[k] {
				continue
			}
			seen[k] = true
			out = append(out, c01Mid{l, sep})
		}
	}
	return out
}

func c01Trails(thorough bool) []c01Trail {
	t := []c01Trail{
		{},
		{Has: true, Trail: ""},
		{Has: true, Trail: "hello"},
		{Has: true, Trail: "hello world"},
		{Has: true, Trail: "a :b"},
		{Has: true, Trail: ":x"},
		{Has: true, Trail: " x"},
		{Has: true, Trail: "x "},
		{Has: true, Trail: "  "},
		{Has: true, CtcpVerb: "ACTION", CtcpText: "waves"},
		{Has: true, CtcpVerb: "ACTION", CtcpText: "waves hi"},
		{Has: true, CtcpVerb: "VERSION", CtcpText: "x"},
		{Has: true, CtcpVerb: "PING", CtcpText: "1 2"},
		// text that begins with a blank (two blanks after the verb), inner double blank, blank before the closing \x01
		{Has: true, CtcpVerb: "ACTION", CtcpText: " o/ waves"},
		{Has: true, CtcpVerb: "PING", CtcpText: "1  2 "},
	}
	if thorough {
		t = append(t,
			c01Trail{Has: true, Trail: "me"},
			c01Trail{Has: true, CtcpVerb: "DCC", CtcpText: "SEND f 1 2 3"},
			c01Trail{Has: true, CtcpVerb: "ACTION", CtcpText: ":x :y"})
	}
	return t
}

var c01MidMenuQuick = []string{"x", "#c", "a:b", "me"}
var c01MidMenuThorough = []string{"x", "#c", "a:b", "me", "k:", "&c"}

// ---------------------------------------------------------------- direct part

// parseCrashSite names the panic: function of the first goirc frame plus the
// panic value (line numbers of the instrumented copy are not those of /repo).
func parseCrashSite(r interface{}, stack string) string {
	fn := ""
	lines := strings.Split(stack, "\n")
	for _, l := range lines {
		if strings.Contains(l, "fluffle/goirc/") && !strings.HasPrefix(l, "\t") {
			fn = l
			if j := strings.LastIndex(fn, "("); j > 0 {
				fn = fn[:j]
			}
			if j := strings.LastIndex(fn, "/"); j >= 0 {
				fn = fn[j+1:]
			}
			break
		}
	}
	return fn + ": " + fmt.Sprint(r)
}

// SafeParse calls client.ParseLine and turns a panic into a value.
func SafeParse(s string) (l *client.Line, crash string) {
	BeatParse(&s)
	defer func() {
		if r := recover(); r != nil {
			l = nil
			crash = parseCrashSite(r, string(debug.Stack()))
		}
	}()
	return client.ParseLine(s), ""
}

type accRes struct {
	Text, Target string
	Public       bool
	Crash        string // "" or "<Accessor>: <site>"
}

// SafeAccessors calls Text, Target and Public, each under its own recover.
func SafeAccessors(l *client.Line) (a accRes) {
	call := func(name string, f func()) {
		defer func() {
			if r := recover(); r != nil && a.Crash == "" {
				a.Crash = name + "(): " + parseCrashSite(r, string(debug.Stack()))
			}
		}()
		f()
	}
	call("Text", func() { a.Text = l.Text() })
	call("Target", func() { a.Target = l.Target() })
	call("Public", func() { a.Public = l.Public() })
	return
}

func sameArgs(a, b []string) bool {
	if len(a) != len(b) {
		return false
	}
	for i := range a {
		if a[i] != b[i] {
			return false
		}
	}
	return true
}

func sameTags(a, b map[string]string) bool {
	if (a == nil) != (b == nil) || len(a) != len(b) {
		return false
	}
	for k, v := range a {
		if w, ok := b[k]; !ok || w != v {
			return false
		}
	}
	return true
}

func showTags(t map[string]string) string {
	if t == nil {
		return "nil"
	}
	var ks []string
	for k := range t {
		ks = append(ks, k)
	}
	sort.Strings(ks)
	var sb strings.Builder
	sb.WriteByte('{')
	for i, k := range ks {
		if i > 0 {
			sb.WriteByte(',')
		}
		sb.WriteString(Q(k) + ":" + Q(t[k]))
	}
	sb.WriteByte('}')
	return sb.String()
}

type c01Finding struct{ Oracle, Msg, Class string }

// c01Judge compares the direct parse with the demanded result.
func c01Judge(l *client.Line, crash string, e *Exp) []c01Finding {
	if crash != "" {
		return []c01Finding{{"crash", "ParseLine panics on a well-formed message: " + crash, crash}}
	}
	if l == nil {
		return []c01Finding{{"rejected", "ParseLine returns nil for a well-formed message", ""}}
	}
	var fs []c01Finding
	add := func(o, f string, a ...interface{}) { fs = append(fs, c01Finding{o, fmt.Sprintf(f, a...), ""}) }
	if l.Raw != e.Raw {
		add("raw-mismatch", "Raw=%s, sent %s", Q(l.Raw), Q(e.Raw))
	}
	if !sameTags(l.Tags, e.Tags) {
		if (l.Tags == nil) != (e.Tags == nil) {
			add("tags-nilness", "Tags=%s, want %s (nil map iff no tag section was sent)", showTags(l.Tags), showTags(e.Tags))
		} else {
			add("tags-mismatch", "Tags=%s, sent %s", showTags(l.Tags), showTags(e.Tags))
		}
	}
	if l.Src != e.Src || l.Nick != e.Nick || l.Ident != e.Ident || l.Host != e.Host {
		add("source-mismatch", "Src=%s Nick=%s Ident=%s Host=%s, want Src=%s Nick=%s Ident=%s Host=%s",
			Q(l.Src), Q(l.Nick), Q(l.Ident), Q(l.Host), Q(e.Src), Q(e.Nick), Q(e.Ident), Q(e.Host))
	}
	okR := false
	for _, r := range e.Renderings {
		if l.Cmd == r.Cmd && sameArgs(l.Args, r.Args) {
			okR = true
		}
	}
	if !okR {
		r := e.Renderings[0]
		switch {
		case e.Ctcp:
			add("ctcp-rewrite", "Cmd=%s Args=%s, want %s %s", Q(l.Cmd), joinQ(l.Args), r.Cmd, joinQ(r.Args))
		case l.Cmd != r.Cmd:
			add("cmd-mismatch", "Cmd=%s, want %s", Q(l.Cmd), Q(r.Cmd))
		default:
			add("args-mismatch", "Args=%s, want %s", joinQ(l.Args), joinQ(r.Args))
		}
	}
	a := SafeAccessors(l)
	if a.Crash != "" {
		fs = append(fs, c01Finding{"accessor-crash", a.Crash + " panics on the parsed line", a.Crash})
		return fs
	}
	if okR {
		// accessors are judged against the components only when the fields
		// they are computed from are right (otherwise it is the same defect twice)
		if a.Text != e.Text {
			add("text-mismatch", "Text()=%s, want %s", Q(a.Text), Q(e.Text))
		}
		if e.TargetKnown && a.Target != e.Target {
			add("target-mismatch", "Target()=%s, want %s", Q(a.Target), Q(e.Target))
		}
		if e.PublicKnown && a.Public != e.Public {
			add("public-mismatch", "Public()=%v, want %v", a.Public, e.Public)
		}
	}
	return fs
}

// failBook collects the violations of one job. Unlike Enum.Fail (first three
// per family/oracle) it keeps, for every distinct class of failure (family,
// oracle id, and for crashes the panicking function + panic value), the
// shortest input seen, so that distinct defects hiding behind one oracle id
// are all written out. Flush hands them to the job result.
type failBook struct {
	e     *Enum
	ents  map[string]*failEnt
	sigs  map[string]bool
	total int
}

type failEnt struct {
	v Violation
	n int
}

func newFailBook(e *Enum) *failBook {
	return &failBook{e: e, ents: map[string]*failEnt{}, sigs: map[string]bool{}}
}

func (b *failBook) Fail(family, oracle, class, input, msg string, params map[string]interface{}) {
	b.total++
	b.sigs[family+"|"+oracle] = true
	// the indices of a slice-bounds panic depend on the input, not on the site
	if i := strings.Index(class, "slice bounds out of range ["); i >= 0 {
		if j := strings.IndexByte(class[i:], ']'); j >= 0 {
			class = class[:i] + "slice bounds out of range [..]" + class[i+j+1:]
		}
	}
	k := family + "|" + oracle + "|" + class
	if ent := b.ents[k]; ent != nil {
		ent.n++
		if len(input) < len(ent.v.Input) {
			ent.v.Input, ent.v.Msg, ent.v.Params = input, msg, params
		}
		return
	}
	if len(b.ents) >= 48 {
		return
	}
	b.ents[k] = &failEnt{v: Violation{Family: family, Scenario: family, Params: params, Oracle: oracle, Msg: msg, Input: input}, n: 1}
}

// TooMany: enough distinct (family, oracle) signatures to stop the job early.
func (b *failBook) TooMany() bool { return len(b.sigs) >= 10 }

func (b *failBook) Flush() {
	var ks []string
	for k := range b.ents {
		ks = append(ks, k)
	}
	sort.Strings(ks)
	for _, k := range ks {
		ent := b.ents[k]
		if ent.n > 1 {
			ent.v.Msg += fmt.Sprintf(" [%d inputs of this class in this job; shortest shown]", ent.n)
		}
		b.e.R.Violations = append(b.e.R.Violations, ent.v)
	}
}

// ---------------------------------------------------------------- through a connection

type c01Item struct {
	M      Msg
	Wire   string
	Direct *client.Line
}

type c01Cap struct {
	Event string
	Line  *client.Line
}

func c01Events() []string {
	seen := map[string]bool{}
	var evs []string
	for _, v := range append(append([]string(nil), c01Verbs...), "ACTION", "CTCP", "CTCPREPLY") {
		u := asciiUpper(v)
		if !seen[u] {
			seen[u] = true
			evs = append(evs, u)
		}
	}
	return evs
}

// c01RunSession sends the wires over one connection and returns what the
// foreground handlers received, in order.
func c01RunSession(wires []string) (*vx.Outcome, []c01Cap) {
	var caps []c01Cap
	o := RunSeq(vx.Options{}, func(env *vx.Env) {
		s, err := StartSession(env, "me", nil, func(c *client.Conn) {
			for _, ev := range c01Events() {
				ev := ev
				c.HandleFunc(ev, func(conn *client.Conn, l *client.Line) {
					caps = append(caps, c01Cap{ev, l})
				})
			}
		})
		if err != nil {
			return
		}
		s.Feed(wires...)
		s.End()
	})
	return o, caps
}

func lineDiff(h, d *client.Line) string {
	var ds []string
	if h.Raw != d.Raw {
		ds = append(ds, fmt.Sprintf("Raw %s vs %s", Q(h.Raw), Q(d.Raw)))
	}
	if !sameTags(h.Tags, d.Tags) {
		ds = append(ds, fmt.Sprintf("Tags %s vs %s", showTags(h.Tags), showTags(d.Tags)))
	}
	if h.Src != d.Src || h.Nick != d.Nick || h.Ident != d.Ident || h.Host != d.Host {
		ds = append(ds, fmt.Sprintf("source %s/%s/%s/%s vs %s/%s/%s/%s", Q(h.Src), Q(h.Nick), Q(h.Ident), Q(h.Host), Q(d.Src), Q(d.Nick), Q(d.Ident), Q(d.Host)))
	}
	if h.Cmd != d.Cmd {
		ds = append(ds, fmt.Sprintf("Cmd %s vs %s", Q(h.Cmd), Q(d.Cmd)))
	}
	if !sameArgs(h.Args, d.Args) {
		ds = append(ds, fmt.Sprintf("Args %s vs %s", joinQ(h.Args), joinQ(d.Args)))
	}
	return strings.Join(ds, "; ")
}

// minimizeFailing narrows a failing list of lines down by halving (re-running
// fails on each half); when neither half fails on its own it drops single
// lines while the failure persists. fails(lines) must be true on entry.
func minimizeFailing(lines []string, fails func([]string) bool) []string {
	for len(lines) > 1 {
		h := len(lines) / 2
		a, b := lines[:h], lines[h:]
		if fails(a) {
			lines = a
		} else if fails(b) {
			lines = b
		} else {
			break
		}
	}
	if len(lines) > 1 && len(lines) <= 32 {
		for i := 0; i < len(lines) && len(lines) > 1; {
			cand := append(append([]string(nil), lines[:i]...), lines[i+1:]...)
			if fails(cand) {
				lines = cand
			} else {
				i++
			}
		}
	}
	return lines
}

func outcomeText(o *vx.Outcome) string {
	switch o.Kind {
	case "crash":
		return "task " + o.Crash.Task + " panics: " + o.Crash.Value + " @ " + o.Crash.Top
	case "deadlock":
		return "session does not finish; blocked: " + o.BlockedSig()
	}
	return o.Kind
}

func c01Params(m *Msg) map[string]interface{} {
	return map[string]interface{}{"msg": *m}
}

// c01CheckBatch runs part (b) for one batch.
func c01CheckBatch(fb *failBook, batch []c01Item) {
	if len(batch) == 0 {
		return
	}
	wires := make([]string, len(batch))
	byWire := map[string]*c01Item{}
	for i := range batch {
		wires[i] = batch[i].Wire
		byWire[batch[i].Wire] = &batch[i]
	}
	o, caps := c01RunSession(wires)
	if o.Kind == "crash" {
		// a panic escaped a client goroutine: narrow the batch down to the message
		bad := minimizeFailing(wires, func(sub []string) bool {
			o2, _ := c01RunSession(sub)
			return o2.Kind == "crash"
		})
		o2, _ := c01RunSession(bad)
		var p map[string]interface{}
		if it := byWire[bad[0]]; it != nil && len(bad) == 1 {
			p = c01Params(&it.M)
		}
		fb.Fail("via-connection", "crash", outcomeText(o2), joinQ(bad), "sending the well-formed message over a connection: "+outcomeText(o2), p)
		return
	}
	// any other outcome (e.g. a teardown that does not finish) is not this
	// property's business; if it keeps messages from being delivered that
	// shows below as handler-missing
	check := func(c c01Cap, it *c01Item) {
		if d := lineDiff(c.Line, it.Direct); d != "" {
			fb.Fail("via-connection", "handler-line-differs", "", Q(it.Wire), "line received by the "+c.Event+" handler differs from the direct parse: "+d, c01Params(&it.M))
		} else if asciiUpper(c.Event) != asciiUpper(it.Direct.Cmd) {
			fb.Fail("via-connection", "handler-wrong-event", "", Q(it.Wire), "line with Cmd "+Q(it.Direct.Cmd)+" was delivered to the handler registered for "+c.Event, c01Params(&it.M))
		}
	}
	if len(caps) == len(batch) {
		// one delivery per message: compare position by position
		for i := range batch {
			check(caps[i], &batch[i])
		}
		return
	}
	// deliveries are missing or duplicated: align on the raw text
	j := 0
	for i := range batch {
		it := &batch[i]
		if j >= len(caps) || caps[j].Line.Raw != it.Wire {
			got := "nothing further was delivered"
			if j < len(caps) {
				got = "next delivered line is " + Q(caps[j].Line.Raw)
			}
			fb.Fail("via-connection", "handler-missing", "", Q(it.Wire), "no foreground handler for "+it.Direct.Cmd+" received the message; "+got, c01Params(&it.M))
			continue
		}
		check(caps[j], it)
		j++
	}
	for ; j < len(caps); j++ {
		fb.Fail("via-connection", "handler-extra", "", Q(caps[j].Line.Raw), "a handler received a line that was not sent at this position (duplicate delivery?)", nil)
	}
}

// ---------------------------------------------------------------- jobs

type c01Space struct {
	name   string
	tags   [][]MTag
	srcs   []MSrc
	verbs  []string
	mids   []c01Mid
	trails []c01Trail
	stride int // every stride-th message also goes through a connection
	phase  int
}

func (sp *c01Space) size() int {
	return len(sp.tags) * len(sp.srcs) * len(sp.verbs) * len(sp.mids) * len(sp.trails)
}

func c01Generated(cmd string, md *c01Mid, tr *c01Trail) bool {
	if tr.CtcpVerb != "" && (cmd == "PRIVMSG" || cmd == "NOTICE") && len(md.Mid) != 1 {
		// a CTCP payload on a message without exactly one target: the
		// statement does not say what the "text" of such a message is
		return false
	}
	return true
}

func c01Run(sp *c01Space) func(jc *JobCtx) *JobResult {
	return func(jc *JobCtx) *JobResult {
		e := NewEnum(sp.name)
		fb := newFailBook(e)
		var batch []c01Item
		idx := 0
		nSess, nVia := 0, 0
		stop := false
	outer:
		for _, tags := range sp.tags {
			for _, src := range sp.srcs {
				for _, verb := range sp.verbs {
					cmd := asciiUpper(verb)
					for mi := range sp.mids {
						md := &sp.mids[mi]
						for ti := range sp.trails {
							tr := &sp.trails[ti]
							if !c01Generated(cmd, md, tr) {
								continue
							}
							m := Msg{Tags: tags, Src: src, Verb: verb, Mid: md.Mid, Sep: md.Sep,
								HasTrail: tr.Has, Trail: tr.Trail, CtcpVerb: tr.CtcpVerb, CtcpText: tr.CtcpText}
							exp := m.Expect()
							wire := exp.Raw
							l, crash := SafeParse(wire)
							e.Case(wire)
							for _, f := range c01Judge(l, crash, exp) {
								fam := "parse-direct"
								if strings.HasPrefix(f.Oracle, "text-") || strings.HasPrefix(f.Oracle, "target-") || strings.HasPrefix(f.Oracle, "public-") || f.Oracle == "accessor-crash" {
									fam = "accessors"
								}
								fb.Fail(fam, f.Oracle, f.Class, Q(wire), f.Msg, c01Params(&m))
							}
							if idx == 0 {
								e.Sample(map[string]interface{}{"wire": wire, "components": m})
							}
							// through a connection: every stride-th message, and every
							// message with at most one, singly spaced, middle parameter
							simple := len(md.Mid) == 0 || (len(md.Mid) == 1 && md.Sep[0] == 1)
							if sp.stride > 0 && (simple || idx%sp.stride == sp.phase%sp.stride) && l != nil {
								batch = append(batch, c01Item{m, wire, l})
								nVia++
								if len(batch) >= c01Batch {
									c01CheckBatch(fb, batch)
									batch = batch[:0]
									nSess++
								}
							}
							idx++
							if idx&1023 == 0 && (fb.TooMany() || jc.Expired()) {
								stop = true
								break outer
							}
						}
					}
				}
			}
		}
		if stop {
			if jc.Expired() {
				e.Incomplete(fmt.Sprintf("deadline at message %d of %d", idx, sp.size()))
			} else {
				e.Incomplete(fmt.Sprintf("stopped after %d messages: enough distinct violations", idx))
			}
		} else {
			c01CheckBatch(fb, batch)
			if len(batch) > 0 {
				nSess++
				e.Sample(map[string]interface{}{"via_connection_messages": nVia, "sessions": nSess, "example": batch[0].Wire})
			}
		}
		e.R.Notes = append(e.R.Notes, fmt.Sprintf("%d of the %d messages were also sent through a connection (%d sessions)", nVia, idx, nSess))
		fb.Flush()
		return e.Done()
	}
}

// c01LongJob: a few messages longer than the client's 4096-byte read buffer (a long tag section is legal: up to
// 8191 bytes; a long trailing is what a lenient server may relay), parsed directly and sent through a connection.
func c01LongJob() Job {
	name := "c01/long-lines"
	return Job{Name: name, Cost: 1, Run: func(jc *JobCtx) *JobResult {
		e := NewEnum(name)
		fb := newFailBook(e)
		longVal := strings.Repeat("v;w x\\", 700) // 4900 bytes before escaping
		longText := strings.Repeat("word ", 1000)
		src := MSrc{Kind: "nuh", Nick: "n", User: "u", Host: "h.example"}
		var batch []c01Item
		for _, m := range []Msg{
			{Tags: []MTag{{Key: "k", Val: longVal, Eq: true}}, Src: src, Verb: "PRIVMSG", Mid: []string{"#c"}, Sep: []int{1}, HasTrail: true, Trail: "short"},
			{Src: src, Verb: "PRIVMSG", Mid: []string{"#c"}, Sep: []int{1}, HasTrail: true, Trail: longText},
			{Tags: []MTag{{Key: "a", Val: "b", Eq: true}, {Key: "k", Val: longVal, Eq: true}}, Src: src, Verb: "notice", Mid: []string{"me"}, Sep: []int{1}, HasTrail: true, Trail: longText},
			{Src: MSrc{Kind: "server", Name: "irc.example.org"}, Verb: "001", Mid: []string{"me", strings.Repeat("p", 4200)}, Sep: []int{1, 1}, HasTrail: true, Trail: "end"},
			{Src: src, Verb: "PRIVMSG", Mid: []string{"#c"}, Sep: []int{1}, HasTrail: true, Trail: "after the long ones"},
		} {
			m := m
			exp := m.Expect()
			l, crash := SafeParse(exp.Raw)
			e.Case(exp.Raw)
			for _, f := range c01Judge(l, crash, exp) {
				fb.Fail("parse-direct", f.Oracle, f.Class, Q(exp.Raw[:60]+"…"), f.Msg, nil)
			}
			if l != nil {
				batch = append(batch, c01Item{m, exp.Raw, l})
			}
		}
		c01CheckBatch(fb, batch)
		e.Sample(map[string]interface{}{"long_lines": len(batch), "first_length": len(batch[0].Wire)})
		fb.Flush()
		return e.Done()
	}}
}

// c01TargetsJob: what Target() and Public() make of every kind of first parameter: the four channel prefixes
// (# & + !), STATUSMSG-style prefixes before a channel, parameters consisting of prefix characters only, plain
// nicks; for PRIVMSG / NOTICE and their CTCP forms, with and without a nick!user@host source.
func c01TargetsJob() Job {
	name := "c01/targets"
	return Job{Name: name, Cost: 1, Run: func(jc *JobCtx) *JobResult {
		e := NewEnum(name)
		fb := newFailBook(e)
		targets := []string{"#c", "&c", "+c", "!c", "#", "&", "+", "!", "+modeless", "!ABCDEchan", "##", "#+c", "+#c", "@#c", "%#c", "~#c", "@+#c",
			"@", "%", "~", "~@%", "@%+", "x", "me", "a#b", "c+", "0", "[x]", "\\x", "#c,#d", "x,#c"}
		type body struct{ trail, ctcpVerb, ctcpText string }
		trails := []body{{trail: "hello there"}, {trail: ""}, {ctcpVerb: "ACTION", ctcpText: "waves"}, {ctcpVerb: "VERSION"}, {ctcpVerb: "PING", ctcpText: "1 2"}}
		srcs := []MSrc{{Kind: "nuh", Nick: "n", User: "u", Host: "h.example"}, {Kind: "server", Name: "irc.example.org"}, {}}
		var batch []c01Item
		for _, verb := range []string{"PRIVMSG", "NOTICE", "privmsg", "Notice"} {
			for _, tg := range targets {
				for _, tr := range trails {
					for _, src := range srcs {
						m := Msg{Src: src, Verb: verb, Mid: []string{tg}, Sep: []int{1}, HasTrail: true, Trail: tr.trail, CtcpVerb: tr.ctcpVerb, CtcpText: tr.ctcpText}
						exp := m.Expect()
						l, crash := SafeParse(exp.Raw)
						e.Case(exp.Raw)
						for _, f := range c01Judge(l, crash, exp) {
							fb.Fail("parse-direct", f.Oracle, f.Class, Q(exp.Raw), f.Msg, nil)
						}
						if l != nil && src.Kind == "nuh" && verb == "PRIVMSG" {
							batch = append(batch, c01Item{m, exp.Raw, l})
						}
					}
				}
			}
		}
		c01CheckBatch(fb, batch)
		e.Sample(map[string]interface{}{"targets": len(targets), "also_sent_through_a_connection": len(batch)})
		fb.Flush()
		return e.Done()
	}}
}

func c01Jobs(tier string) []Job {
	jobs := c01JobsUnguarded(tier)
	for i := range jobs {
		jobs[i] = GuardJob(jobs[i])
	}
	return jobs
}

func c01JobsUnguarded(tier string) []Job {
	var jobs []Job
	jobs = append(jobs, c01LongJob(), c01TargetsJob())
	add := func(sp *c01Space) {
		sp.phase = len(jobs) * 7
		jobs = append(jobs, Job{Name: sp.name, Cost: sp.size() / 1000, Run: c01Run(sp)})
	}
	base := c01BaseTags()
	if tier != "thorough" {
		srcs, mids, trails := c01Srcs(false), c01Mids(c01MidMenuQuick, 2), c01Trails(false)
		for i := range base {
			add(&c01Space{name: fmt.Sprintf("c01/quick/tag%03d", i), tags: base[i : i+1], srcs: srcs, verbs: c01Verbs, mids: mids, trails: trails, stride: 97})
		}
		return jobs
	}
	srcs, trails := c01Srcs(true), c01Trails(true)
	// (B) base tags x the larger middle-parameter set
	midsT := c01Mids(c01MidMenuThorough, 3)
	for i := range base {
		add(&c01Space{name: fmt.Sprintf("c01/thorough/params/tag%03d", i), tags: base[i : i+1], srcs: srcs, verbs: c01Verbs, mids: midsT, trails: trails, stride: 499})
	}
	// (A) long tag values x a reduced rest (disjoint from (B): other tag sections)
	long := c01LongTags()
	midsQ := c01Mids(c01MidMenuQuick, 2)
	for i := 0; i < len(long); i += 10 {
		j := i + 10
		if j > len(long) {
			j = len(long)
		}
		add(&c01Space{name: fmt.Sprintf("c01/thorough/longtags/%04d", i), tags: long[i:j], srcs: srcs, verbs: []string{"PRIVMSG", "notice", "001"}, mids: midsQ, trails: trails, stride: 499})
	}
	return jobs
}

func init() {
	Register(&Prop{
		ID: "C01",
		Rule: "every message of the product tag section x source x verb x middle-parameter list with separators x trailing (menus in harness/c01.go), printed by the reference printer; " +
			"each is parsed directly and compared field by field with its components, every stride-th (97 quick / 499 thorough) and every message with at most one singly spaced middle parameter is also sent over a connection in batches of 150 and the handler's line compared with the direct parse; " +
			"distinct = distinct wire text (every generated message is a different text)",
		Assumptions: []string{
			"the menus are finite samples of the infinite grammar: tag values up to 2 (quick) / 3 (thorough) bytes over the escape-relevant alphabet, 0-14 middle parameters exhaustive up to 2 (quick) / 3 (thorough) and one list per menu rotation beyond, separators of 1-3 spaces",
			"not generated because the statement does not fix the answer: duplicate tag keys, lower-case CTCP verbs, CTCP payloads on PRIVMSG/NOTICE without exactly one target, several spaces before the trailing ' :', nick-only or nick@host sources; for NOTICE + CTCP ACTION both ACTION(target,text) and CTCPREPLY(ACTION,target,text) are accepted",
			"Target() is judged for private messages only when the source is nick!user@host; Public() is judged only for PRIVMSG/NOTICE and their CTCP forms with a target; both are always called and must not panic",
			"the through-connection part uses the default schedule of the vx runtime (one segment per batch); it does not vary read boundaries",
		},
		Jobs: c01Jobs,
	})
	prev := replayInput
	replayInput = func(v *Violation) int {
		if v.Property != "C01" {
			if prev != nil {
				return prev(v)
			}
			fmt.Println("violation has no schedule; input:", v.Input)
			return 0
		}
		return c01Replay(v)
	}
}

// c01Replay re-checks the single message of a recorded violation.
func c01Replay(v *Violation) int {
	raw, ok := v.Params["msg"]
	if !ok {
		fmt.Println("no message components recorded; input:", v.Input)
		return 0
	}
	b, _ := json.Marshal(raw)
	var m Msg
	if err := json.Unmarshal(b, &m); err != nil {
		fmt.Println("cannot decode components:", err)
		return 2
	}
	exp := m.Expect()
	fmt.Println("wire:", Q(exp.Raw))
	l, crash := SafeParse(exp.Raw)
	if l != nil {
		fmt.Printf("parsed: Tags=%s Src=%s Nick=%s Ident=%s Host=%s Cmd=%s Args=%s\n", showTags(l.Tags), Q(l.Src), Q(l.Nick), Q(l.Ident), Q(l.Host), Q(l.Cmd), joinQ(l.Args))
	}
	rc := 0
	for _, f := range c01Judge(l, crash, exp) {
		fmt.Printf("FINDING oracle=%s %s\n", f.Oracle, f.Msg)
		if f.Oracle == v.Oracle {
			rc = 1
		}
	}
	if v.Family == "via-connection" && l != nil {
		e := NewEnum("replay")
		fb := newFailBook(e)
		c01CheckBatch(fb, []c01Item{{m, exp.Raw, l}})
		fb.Flush()
		for _, x := range e.R.Violations {
			fmt.Printf("FINDING oracle=%s %s\n", x.Oracle, x.Msg)
			if x.Oracle == v.Oracle {
				rc = 1
			}
		}
	}
	if rc == 1 {
		fmt.Println("REPRODUCED")
	} else {
		fmt.Println("NOT REPRODUCED")
	}
	return rc
}
