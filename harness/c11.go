package harness

import (
	"fmt"
	"os"
	"runtime"
	"sort"
	"strings"
	"sync/atomic"
	"time"

	"github.com/fluffle/goirc/client"

	"verif/vx"
)

// C11: long messages are split losslessly into bounded pieces.
//
// Oracle (only what the statement says). Effective limit L = SplitLen if
// SplitLen >= 13, else 450. For a text longer than L:
//   * the call returns (finitely many pieces)            -> does-not-return / crash
//   * there is at least one piece                        -> no-pieces
//   * every piece is at most L bytes long                -> piece-too-long
//   * every piece but the last ends in "..."             -> missing-marker
//   * no piece is empty: a non-last piece is longer than
//     the 3-byte marker, the last piece is non-empty     -> empty-piece
//   * the pieces, markers removed from all but the last,
//     concatenate to the text                            -> lossy
//   * (wire) every line is VERB target :piece, with the
//     CTCP framing around the piece where applicable     -> framing
// For texts not longer than L the statement is silent: the call is made and
// counted, nothing is judged.
//
// Levels: (1) in-package through client.VerifSplitMessage, (2) on the wire
// through Privmsg, Notice, Ctcp, CtcpReply, Privmsgf, Privmsgln and Action of a
// connected client with Config.SplitLen set.

const c11Marker = "..."

func c11Limit(splitLen int) int {
	if splitLen < 13 {
		return 450
	}
	return splitLen
}

// c11Check judges the pieces of a text longer than L; "" = the statement holds.
// (No allocation: this is the hot path of ~10^8 evaluations.)
func c11Check(text string, L int, pieces []string) string {
	if len(pieces) == 0 {
		return "no-pieces"
	}
	pos, last := 0, len(pieces)-1
	for i, p := range pieces {
		if len(p) > L {
			return "piece-too-long"
		}
		body := p
		if i < last {
			if !strings.HasSuffix(p, c11Marker) {
				return "missing-marker"
			}
			if len(p) <= len(c11Marker) {
				return "empty-piece"
			}
			body = p[:len(p)-len(c11Marker)]
		} else if len(p) == 0 {
			return "empty-piece"
		}
		if len(text)-pos < len(body) || text[pos:pos+len(body)] != body {
			return "lossy"
		}
		pos += len(body)
	}
	if pos != len(text) {
		return "lossy"
	}
	return ""
}

func c11Explain(oracle string, L int, pieces []string) string {
	show := pieces
	more := ""
	if len(show) > 6 {
		show = show[:6]
		more = fmt.Sprintf(" … (%d pieces)", len(pieces))
	}
	q := make([]string, len(show))
	for i, p := range show {
		q[i] = Q(c08Clip(p))
	}
	what := map[string]string{
		"no-pieces":      "no piece at all was produced",
		"piece-too-long": fmt.Sprintf("a piece is longer than the limit of %d bytes", L),
		"missing-marker": "a piece other than the last does not end in \"...\"",
		"empty-piece":    "a piece carries no text (non-last pieces must be longer than the marker, the last must be non-empty)",
		"lossy":          "the pieces with the markers removed do not concatenate to the text",
	}[oracle]
	return fmt.Sprintf("%s; limit %d; pieces: [%s]%s", what, L, strings.Join(q, ", "), more)
}

func c11ShapeHash(tag uint64, splitLen int, pieces []string) uint64 {
	h := uint64(1469598103934665603) ^ tag
	h = (h ^ uint64(uint32(splitLen))) * 1099511628211
	for _, p := range pieces {
		h = (h ^ uint64(len(p)+1)) * 1099511628211
	}
	return h
}

// c11Text is one input text; Period != "" marks a periodic text (for a short description).
type c11Text struct {
	S      string
	Period string
}

func (t c11Text) desc() string {
	if t.Period != "" && len(t.S) > 3*len(t.Period) {
		return fmt.Sprintf("strings.Repeat(%s, %d)[:%d]", Q(t.Period), len(t.S)/len(t.Period)+1, len(t.S))
	}
	return Q(t.S)
}

// ---------------------------------------------------------------- guard: a call that never returns

// c11Guard runs the body of a job in its own goroutine and watches a heartbeat
// that is bumped before every call into the library. splitMessage has no
// scheduling point, so a loop that stops advancing can be noticed only from
// outside: no heartbeat for a while (with the heap growing, or for a long
// time) means the current call does not return. The job then reports
// "does-not-return" with the current input and the worker process exits
// shortly afterwards (the stuck goroutine cannot be stopped).
type c11Guard struct {
	beat     atomic.Int64
	curText  c11Text
	curSL    int
	curWhat  string
	judged   int64
	unjudged int64
	notes    map[string]int
}

func (g *c11Guard) enter(what string, t c11Text, sl int) {
	g.curText, g.curSL, g.curWhat = t, sl, what
	g.beat.Add(1)
}

func (g *c11Guard) note(s string) {
	if g.notes == nil {
		g.notes = map[string]int{}
	}
	g.notes[s]++
}

// c11Dying is set once a stuck call was reported: the process is about to exit
// and must not start another job next to the stuck goroutine.
var c11Dying atomic.Bool

func c11RunGuarded(jc *JobCtx, name string, body func(e *Enum, g *c11Guard)) *JobResult {
	if c11Dying.Load() {
		select {} // the runner sees the worker exit and reports this job as not run
	}
	e := NewEnum(name)
	g := &c11Guard{}
	done := make(chan interface{}, 1)
	go func() {
		defer func() { done <- recover() }()
		body(e, g)
	}()
	finish := func() *JobResult {
		e.R.Notes = append(e.R.Notes, fmt.Sprintf("judged (text longer than the limit) %d, recorded only %d", g.judged, g.unjudged))
		var ks []string
		for k := range g.notes {
			ks = append(ks, k)
		}
		sort.Strings(ks)
		for _, k := range ks {
			e.R.Notes = append(e.R.Notes, fmt.Sprintf("%s (x%d)", k, g.notes[k]))
		}
		return e.Done()
	}
	tick := time.NewTicker(100 * time.Millisecond)
	defer tick.Stop()
	last, lastChange := g.beat.Load(), time.Now()
	for {
		select {
		case p := <-done:
			if p != nil {
				r := finish()
				r.Error = fmt.Sprint("harness panic: ", p)
				return r
			}
			return finish()
		case <-tick.C:
			if b := g.beat.Load(); b != last {
				last, lastChange = b, time.Now()
				continue
			}
			stalled := time.Since(lastChange)
			if stalled < 400*time.Millisecond {
				continue
			}
			var ms runtime.MemStats
			runtime.ReadMemStats(&ms)
			if stalled < 20*time.Second && ms.HeapAlloc < 400<<20 {
				continue
			}
			if b := g.beat.Load(); b != last {
				continue
			}
			L := c11Limit(g.curSL)
			msg := fmt.Sprintf("%s did not return within %.1fs (heap %d MB); no single call takes more than a few milliseconds", g.curWhat, stalled.Seconds(), ms.HeapAlloc>>20)
			if len(g.curText.S) > L {
				e.Case("stuck")
				e.Fail(c11Family(g.curWhat), "does-not-return", c11Input(g.curWhat, g.curText, g.curSL), msg, c11Params(g.curWhat, g.curText, g.curSL))
			} else {
				e.R.Notes = append(e.R.Notes, "a call with a text not longer than the limit did not return (not judged): "+c11Input(g.curWhat, g.curText, g.curSL))
			}
			e.Incomplete("stopped: " + msg)
			c11Dying.Store(true)
			go func() {
				time.Sleep(300 * time.Millisecond)
				os.Exit(3)
			}()
			return finish()
		}
	}
}

func c11Family(what string) string {
	if what == "splitMessage" {
		return "split"
	}
	return "wire"
}

func c11Input(what string, t c11Text, sl int) string {
	if what == "splitMessage" {
		return fmt.Sprintf("splitMessage(%s, %d)", t.desc(), sl)
	}
	return fmt.Sprintf("%s(%s, %s) with SplitLen=%d", what, Q(c11Target), t.desc(), sl)
}

func c11Params(what string, t c11Text, sl int) map[string]interface{} {
	p := map[string]interface{}{"splitlen": sl, "text": t.S, "level": "split"}
	if what != "splitMessage" {
		p["level"] = "wire"
		p["method"] = what
	}
	return p
}

// ---------------------------------------------------------------- level 1: in-package

func c11SafeSplit(text string, sl int) (pieces []string, pan interface{}) {
	defer func() {
		if r := recover(); r != nil {
			pan = r
		}
	}()
	return c11Split(text, sl), nil
}

// eval makes one in-package call and judges it.
func (g *c11Guard) eval(e *Enum, t c11Text, sl int) {
	g.enter("splitMessage", t, sl)
	pieces, pan := c11SafeSplit(t.S, sl)
	e.R.Evaluations++
	e.R.Transitions++
	L := c11Limit(sl)
	if len(t.S) <= L {
		g.unjudged++
		if pan != nil {
			g.note("panic for a text not longer than the limit (not judged): " + c11Input("splitMessage", t, sl))
		}
		return
	}
	g.judged++
	if pan != nil {
		e.Fail("split", "crash", c11Input("splitMessage", t, sl), fmt.Sprint("panic: ", pan), c11Params("splitMessage", t, sl))
		return
	}
	e.distinct[c11ShapeHash(1, sl, pieces)] = struct{}{}
	if o := c11Check(t.S, L, pieces); o != "" {
		e.Fail("split", o, c11Input("splitMessage", t, sl), c11Explain(o, L, pieces), c11Params("splitMessage", t, sl))
	}
}

func (g *c11Guard) sample(e *Enum, t c11Text, sl int) {
	g.enter("splitMessage", t, sl)
	pieces, _ := c11SafeSplit(t.S, sl)
	e.Sample(map[string]interface{}{"text": t.desc(), "splitlen": sl, "pieces": pieces})
}

// c11Texts calls f with every text prefix+w, w over alpha, len(prefix+w) <= maxLen,
// shortest first; f returns false to stop.
func c11Texts(alpha string, prefix string, maxLen int, f func(s string) bool) {
	for n := 0; len(prefix)+n <= maxLen; n++ {
		buf := make([]byte, len(prefix)+n)
		copy(buf, prefix)
		idx := make([]int, n)
		for i := range idx {
			buf[len(prefix)+i] = alpha[0]
		}
		for {
			if !f(string(buf)) {
				return
			}
			k := n - 1
			for k >= 0 {
				idx[k]++
				if idx[k] < len(alpha) {
					buf[len(prefix)+k] = alpha[idx[k]]
					break
				}
				idx[k] = 0
				buf[len(prefix)+k] = alpha[0]
				k--
			}
			if k < 0 {
				break
			}
		}
	}
}

// c11Words lists every string over alpha of length exactly n.
func c11Words(alpha string, n int) []string {
	r := []string{""}
	for i := 0; i < n; i++ {
		var nx []string
		for _, p := range r {
			for j := 0; j < len(alpha); j++ {
				nx = append(nx, p+string(alpha[j]))
			}
		}
		r = nx
	}
	return r
}

const (
	c11A3 = "a ."
	c11A5 = "a .!\""
)

func c11NoExports(e *Enum) bool {
	if c11HaveSplit {
		return false
	}
	e.R.Notes = append(e.R.Notes, "client.VerifSplitMessage is not available in this build (export shim failed); in-package part skipped, the wire-level jobs cover the same oracle")
	e.Incomplete("in-package level skipped: no export shim")
	return true
}

// texts over {a, space, .} with a given prefix, SplitLen 13
func c11JobSplit3(prefixes []string, exactShort int, maxLen int, name string, cost int) Job {
	return Job{Name: name, Cost: cost, Run: func(jc *JobCtx) *JobResult {
		return c11RunGuarded(jc, name, func(e *Enum, g *c11Guard) {
			if c11NoExports(e) {
				return
			}
			n := 0
			stop := false
			run := func(s string) bool {
				g.eval(e, c11Text{S: s}, 13)
				n++
				if n&0xffff == 0 && (e.TooMany() || jc.Expired()) {
					e.Incomplete("stopped at text " + Q(s))
					stop = true
					return false
				}
				return true
			}
			if exactShort >= 0 {
				// all texts shorter than the prefix length used by the other jobs
				c11Texts(c11A3, "", exactShort, run)
			}
			for _, p := range prefixes {
				if stop {
					break
				}
				c11Texts(c11A3, p, maxLen, run)
			}
			g.sample(e, c11Text{S: prefixes[0] + " a.a a. aa"}, 13)
		})
	}}
}

var c11PadsAfter = []string{"aaaaaaaaaaaaaaaaa", ". a! \"a\" a, aa. a"}
var c11PadsBefore = []string{"aaaaaaaaaaaaaaaaa", "a. a! a\" a aa.aa "}

// texts over {a, space, ., !, "} at SplitLen 13, 14, 16: as they are (never longer
// than the limit: recorded only), and embedded before / after 17-byte pads so
// that every punctuation/space layout of the enumerated part meets a split.
func c11JobSplit5(prefixes []string, exactShort int, maxLen int, name string, cost int) Job {
	return Job{Name: name, Cost: cost, Run: func(jc *JobCtx) *JobResult {
		return c11RunGuarded(jc, name, func(e *Enum, g *c11Guard) {
			if c11NoExports(e) {
				return
			}
			n := 0
			stop := false
			run := func(s string) bool {
				for _, sl := range []int{13, 14, 16} {
					g.eval(e, c11Text{S: s}, sl)
					for _, pad := range c11PadsAfter {
						g.eval(e, c11Text{S: s + pad}, sl)
					}
					for _, pad := range c11PadsBefore {
						g.eval(e, c11Text{S: pad + s}, sl)
					}
				}
				n++
				if n&0x3fff == 0 && (e.TooMany() || jc.Expired()) {
					e.Incomplete("stopped at text " + Q(s))
					stop = true
					return false
				}
				return true
			}
			if exactShort >= 0 {
				c11Texts(c11A5, "", exactShort, run)
			}
			for _, p := range prefixes {
				if stop {
					break
				}
				c11Texts(c11A5, p, maxLen, run)
			}
			g.sample(e, c11Text{S: prefixes[0] + "! \"a\" a" + c11PadsAfter[1]}, 14)
		})
	}}
}

// c11JobSplitBytes: texts over {a, space, 0xC3, 0xA9, 0xE2} (the bytes of multi-byte UTF-8 characters, valid and
// invalid sequences alike: the property is about bytes), bare and embedded before / after pads, at SplitLen 13, 14, 16.
// "Keeping multi-byte characters intact" is outside the claim; the byte bound, the markers and losslessness are not.
const c11AB = "a \xc3\xa9\xe2"

func c11JobSplitBytes(prefix string, maxLen int, name string, cost int) Job {
	return Job{Name: name, Cost: cost, Run: func(jc *JobCtx) *JobResult {
		return c11RunGuarded(jc, name, func(e *Enum, g *c11Guard) {
			if c11NoExports(e) {
				return
			}
			n := 0
			c11Texts(c11AB, prefix, maxLen, func(s string) bool {
				for _, sl := range []int{13, 14, 16} {
					g.eval(e, c11Text{S: s}, sl)
					g.eval(e, c11Text{S: s + "aaaaaaaaaaaaaaaaa"}, sl)
					g.eval(e, c11Text{S: "aaaaaaaaaaaaaaaaa" + s}, sl)
					g.eval(e, c11Text{S: "h\xc3\xa9llo w\xc3\xb6rld " + s + " \xe2\x98\x83\xe2\x98\x83\xe2\x98\x83 \xc3\xa9\xc3\xa9\xc3\xa9\xc3\xa9\xc3\xa9\xc3\xa9\xc3\xa9\xc3\xa9\xc3\xa9"}, sl)
				}
				n++
				if n&0x3fff == 0 && (e.TooMany() || jc.Expired()) {
					e.Incomplete("stopped at text " + Q(s))
					return false
				}
				return true
			})
			g.sample(e, c11Text{S: prefix + "\xc3\xa9\xc3\xa9 aaaaaaaaaaaaaaaaa"}, 13)
		})
	}}
}

var c11PeriodicSplitLens = []int{-5, 0, 1, 12, 13, 14, 20, 450, 1000}

// c11Lengths: every length up to dense, then every step-th up to 3000, plus the
// lengths around the limits 450 and 1000 and their multiples.
func c11Lengths(dense, step int) []int {
	set := map[int]bool{}
	for n := 0; n <= dense; n++ {
		set[n] = true
	}
	for n := dense; n <= 3000; n += step {
		set[n] = true
	}
	for _, L := range []int{450, 1000} {
		for d := -4; d <= 4; d++ {
			set[L+d] = true
			set[2*(L-3)+d] = true
			set[2*L+d] = true
		}
	}
	set[3000] = true
	var r []int
	for n := range set {
		if n >= 0 && n <= 3000 {
			r = append(r, n)
		}
	}
	sort.Ints(r)
	return r
}

func c11Periods(maxLen int) []string {
	var r []string
	for n := 1; n <= maxLen; n++ {
		r = append(r, c11Words(c11A5, n)...)
	}
	return r
}

func c11JobPeriodic(periods []string, name string, cost int) Job {
	return Job{Name: name, Cost: cost, Run: func(jc *JobCtx) *JobResult {
		return c11RunGuarded(jc, name, func(e *Enum, g *c11Guard) {
			if c11NoExports(e) {
				return
			}
			lengths := c11Lengths(200, 7)
			for _, p := range periods {
				full := strings.Repeat(p, 3000/len(p)+1)
				for _, n := range lengths {
					for _, sl := range c11PeriodicSplitLens {
						g.eval(e, c11Text{S: full[:n], Period: p}, sl)
					}
				}
				if e.TooMany() || jc.Expired() {
					e.Incomplete("stopped after period " + Q(p))
					break
				}
			}
			g.sample(e, c11Text{S: strings.Repeat(periods[0], 40)[:37], Period: periods[0]}, 13)
		})
	}}
}

// ---------------------------------------------------------------- level 2: on the wire

// c11Target is the target of every wire-level call; job wire/targets-and-bytes swaps it (one job at a time per
// worker process).
var c11Target = "#c"

// c11JobWireTargets: the target is the caller's, byte for byte, on every line (format verbs, commas, other
// channel prefixes), and the text may hold any byte but CR and LF (NUL, 0x01, 0xff).
func c11JobWireTargets(methods []*c11WireMethod) Job {
	name := "wire/targets-and-bytes"
	return Job{Name: name, Cost: 5, Run: func(jc *JobCtx) *JobResult {
		return c11RunGuarded(jc, name, func(e *Enum, g *c11Guard) {
			old := c11Target
			defer func() { c11Target = old }()
			var texts []c11Text
			for _, p := range []string{"word ", "x", "a\x00b ", "\x00", "é", "q\xff r", "%s %d ", "100% "} {
				full := strings.Repeat(p, 400/len(p)+1)
				for _, n := range []int{30, 61, 130, 300} {
					texts = append(texts, c11Text{S: full[:n], Period: p})
				}
			}
		loop:
			for _, tg := range []string{"#100%", "#%s", "nick%d%v", "#c,#d", "&x", "+m", "a%", "%"} {
				c11Target = tg
				for _, m := range methods {
					for _, sl := range []int{20, 60} {
						if c11WireRun(jc, e, g, m, sl, texts) {
							break loop
						}
					}
				}
			}
			e.Sample(map[string]interface{}{"targets": 8, "texts": len(texts)})
		})
	}}
}

type c11WireMethod struct {
	Name, Verb string
	Pre, Post  string // CTCP framing around each piece ("" for plain messages)
	Call       func(c *client.Conn, t, text string)
}

var c11WireMethods = []c11WireMethod{
	{"Privmsg", "PRIVMSG", "", "", func(c *client.Conn, t, s string) { c.Privmsg(t, s) }},
	{"Notice", "NOTICE", "", "", func(c *client.Conn, t, s string) { c.Notice(t, s) }},
	{"Ctcp", "PRIVMSG", "\x01PING ", "\x01", func(c *client.Conn, t, s string) { c.Ctcp(t, "ping", s) }},
	{"CtcpReply", "NOTICE", "\x01PING ", "\x01", func(c *client.Conn, t, s string) { c.CtcpReply(t, "ping", s) }},
	{"Privmsgf", "PRIVMSG", "", "", func(c *client.Conn, t, s string) { c.Privmsgf(t, "%s", s) }},
	{"Privmsgln", "PRIVMSG", "", "", func(c *client.Conn, t, s string) { c.Privmsgln(t, s) }},
	{"Action", "PRIVMSG", "\x01ACTION ", "\x01", func(c *client.Conn, t, s string) { c.Action(t, s) }},
	// the text as the format itself, without operands: every % doubled, so that the formatted text is s again
	{"Privmsgf(fmt)", "PRIVMSG", "", "", func(c *client.Conn, t, s string) { c.Privmsgf(t, strings.Replace(s, "%", "%%", -1)) }},
}

func c11FindWire(name string) *c11WireMethod {
	for i := range c11WireMethods {
		if c11WireMethods[i].Name == name {
			return &c11WireMethods[i]
		}
	}
	return nil
}

// c11WirePieces takes the bytes one call wrote apart into text pieces; ok=false
// (with a reason) if a line is not "VERB target :" + framing + piece + framing.
func c11WirePieces(m *c11WireMethod, wrote string) (pieces []string, bad string) {
	if wrote == "" {
		return nil, ""
	}
	if !strings.HasSuffix(wrote, "\r\n") {
		return nil, "the bytes written do not end in CRLF"
	}
	prefix := m.Verb + " " + c11Target + " :"
	bare := strings.TrimRight(m.Pre, " ") + m.Post
	for _, l := range strings.Split(wrote[:len(wrote)-2], "\r\n") {
		if !strings.HasPrefix(l, prefix) {
			return nil, fmt.Sprintf("line %s does not begin with %s (same verb and target on every line)", Q(c08Clip(l)), Q(prefix))
		}
		body := l[len(prefix):]
		if m.Pre != "" {
			switch {
			case body == bare:
				body = ""
			case len(body) >= len(m.Pre)+len(m.Post) && strings.HasPrefix(body, m.Pre) && strings.HasSuffix(body, m.Post):
				body = body[len(m.Pre) : len(body)-len(m.Post)]
			default:
				return nil, fmt.Sprintf("line %s lacks the CTCP framing %s…%s around the piece", Q(c08Clip(l)), Q(m.Pre), Q(m.Post))
			}
		}
		pieces = append(pieces, body)
	}
	return pieces, ""
}

// c11WireRun pushes the texts through method m in batched sessions at SplitLen sl and judges each call.
func c11WireRun(jc *JobCtx, e *Enum, g *c11Guard, m *c11WireMethod, sl int, texts []c11Text) (stopped bool) {
	L := c11Limit(sl)
	judge := func(t c11Text, wrote string) {
		e.R.Evaluations++
		e.R.Transitions++
		if len(t.S) <= L {
			g.unjudged++
			return
		}
		g.judged++
		pieces, bad := c11WirePieces(m, wrote)
		if bad != "" {
			e.Fail("wire", "framing", c11Input(m.Name, t, sl), bad+"; bytes written: "+Q(c08Clip(wrote)), c11Params(m.Name, t, sl))
			return
		}
		e.distinct[c11ShapeHash(HashStringLite(m.Name), sl, pieces)] = struct{}{}
		if o := c11Check(t.S, L, pieces); o != "" {
			e.Fail("wire", o, c11Input(m.Name, t, sl), c11Explain(o, L, pieces), c11Params(m.Name, t, sl))
		}
	}
	i := 0
	for i < len(texts) {
		if e.TooMany() || jc.Expired() {
			e.Incomplete(fmt.Sprintf("stopped at text %d of %d", i, len(texts)))
			return true
		}
		// batch: bounded number of calls and of expected lines
		j, lines := i, 0
		for j < len(texts) && j-i < 1500 && lines < 15000 {
			lines += len(texts[j].S)/(L-3) + 1
			j++
		}
		batch := texts[i:j]
		var wrote []string
		var cerr error
		o := RunSeq(vx.Options{MaxSteps: 8000000}, func(env *vx.Env) {
			s, err := StartSession(env, "me", func(cfg *client.Config) { cfg.SplitLen = sl }, nil)
			if err != nil {
				cerr = err
				return
			}
			for _, t := range batch {
				g.enter(m.Name, t, sl)
				n0 := len(s.VC.Writes)
				m.Call(s.C, c11Target, t.S)
				vx.Quiesce()
				var b string
				if ws := s.VC.Writes[n0:]; len(ws) == 1 {
					b = ws[0].Data
				} else if len(ws) > 1 {
					var sb strings.Builder
					for _, w := range ws {
						sb.WriteString(w.Data)
					}
					b = sb.String()
				}
				wrote = append(wrote, b)
			}
			s.End()
		})
		if cerr != nil {
			e.R.Error = "connect failed in harness: " + cerr.Error()
			return true
		}
		for k, b := range wrote {
			judge(batch[k], b)
		}
		i += len(wrote)
		if o.Kind != "ok" {
			if len(wrote) < len(batch) {
				t := batch[len(wrote)]
				e.R.Evaluations++
				e.R.Transitions++
				msg := "execution ended with " + o.Kind
				if o.Crash != nil {
					msg = "panic: " + o.Crash.Value + " @ " + o.Crash.Top
				} else if o.Kind == "deadlock" {
					msg += "; blocked: " + o.BlockedSig()
				}
				if len(t.S) > L {
					g.judged++
					oracle := o.Kind
					if oracle != "crash" {
						oracle = "does-not-return"
					}
					e.Fail("wire", oracle, c11Input(m.Name, t, sl), msg, c11Params(m.Name, t, sl))
				} else {
					g.unjudged++
					g.note("a call with a text not longer than the limit ended with " + o.Kind + " (not judged)")
				}
				i++
			} else {
				g.note("session teardown ended with " + o.Kind)
			}
		}
	}
	return false
}

// ---------------------------------------------------------------- level 2d: histories on one connection

var c11HistTexts = []string{
	(strings.Repeat("word ", 100))[:500],
	(strings.Repeat("lorem ipsum. dolor sit amet, ", 20))[:480],
}
var c11HistSLs = []int{0, 13, 20, 40, 100}

type c11HistStep struct{ SL, Text int }

// c11HistRun makes the calls of one history on a fresh connection, setting Config().SplitLen before each call;
// it returns what each completed call wrote.
func c11HistRun(m *c11WireMethod, steps []c11HistStep) (wrote []string, o *vx.Outcome, cerr error) {
	o = RunSeq(vx.Options{MaxSteps: 4000000}, func(env *vx.Env) {
		s, err := StartSession(env, "me", func(cfg *client.Config) { cfg.SplitLen = steps[0].SL }, nil)
		if err != nil {
			cerr = err
			return
		}
		for _, st := range steps {
			s.C.Config().SplitLen = st.SL
			n0 := len(s.VC.Writes)
			m.Call(s.C, c11Target, c11HistTexts[st.Text])
			vx.Quiesce()
			var sb strings.Builder
			for _, w := range s.VC.Writes[n0:] {
				sb.WriteString(w.Data)
			}
			wrote = append(wrote, sb.String())
		}
		s.End()
	})
	return
}

// c11HistJudge judges every completed call of a history against the SplitLen in force when it was made.
func c11HistJudge(m *c11WireMethod, steps []c11HistStep, wrote []string) (k int, oracle, msg string) {
	for k, b := range wrote {
		L := c11Limit(steps[k].SL)
		text := c11HistTexts[steps[k].Text]
		pieces, bad := c11WirePieces(m, b)
		if bad != "" {
			return k, "framing", bad + "; bytes written: " + Q(c08Clip(b))
		}
		if o := c11Check(text, L, pieces); o != "" {
			return k, o, c11Explain(o, L, pieces)
		}
	}
	return -1, "", ""
}

func c11HistDesc(m *c11WireMethod, steps []c11HistStep) string {
	var sb strings.Builder
	for i, st := range steps {
		if i > 0 {
			sb.WriteString("; ")
		}
		fmt.Fprintf(&sb, "SplitLen=%d %s(text%d)", st.SL, m.Name, st.Text)
	}
	return sb.String()
}

// c11JobWireHistory: every history of n calls of method m on one connection, each call with one of two long
// texts after Config().SplitLen was set to one of five values: a call's pieces depend on the SplitLen in force
// and on its own text only, not on what was sent before.
func c11JobWireHistory(m *c11WireMethod, n int) Job {
	name := fmt.Sprintf("wire/%s/history/len=%d", m.Name, n)
	return Job{Name: name, Cost: 100, Run: func(jc *JobCtx) *JobResult {
		return c11RunGuarded(jc, name, func(e *Enum, g *c11Guard) {
			opts := len(c11HistSLs) * len(c11HistTexts)
			total := 1
			for i := 0; i < n; i++ {
				total *= opts
			}
			for idx := 0; idx < total; idx++ {
				if e.TooMany() || jc.Expired() {
					e.Incomplete(fmt.Sprintf("stopped at history %d of %d", idx, total))
					return
				}
				steps := make([]c11HistStep, n)
				var raw []interface{}
				for i, x := n-1, idx; i >= 0; i-- {
					steps[i] = c11HistStep{c11HistSLs[(x%opts)/len(c11HistTexts)], (x % opts) % len(c11HistTexts)}
					x /= opts
				}
				for _, st := range steps {
					raw = append(raw, []int{st.SL, st.Text})
				}
				g.enter(m.Name, c11Text{S: c11HistTexts[steps[n-1].Text], Period: "history"}, steps[n-1].SL)
				wrote, o, cerr := c11HistRun(m, steps)
				if cerr != nil {
					e.R.Error = "connect failed in harness: " + cerr.Error()
					return
				}
				e.R.Evaluations++
				e.R.Transitions++
				g.judged++
				params := map[string]interface{}{"level": "wire-history", "method": m.Name, "steps": raw}
				if o.Kind != "ok" && len(wrote) < n {
					oracle := o.Kind
					if oracle != "crash" {
						oracle = "does-not-return"
					}
					e.Fail("wire-history", oracle, c11HistDesc(m, steps), fmt.Sprintf("call %d: execution ended with %s", len(wrote)+1, o.Kind), params)
					continue
				}
				var sh uint64 = HashStringLite(m.Name)
				for k, b := range wrote {
					ps, _ := c11WirePieces(m, b)
					sh = c11ShapeHash(sh, steps[k].SL, ps)
				}
				e.distinct[sh] = struct{}{}
				if k, oracle, msg := c11HistJudge(m, steps, wrote); oracle != "" {
					e.Fail("wire-history", oracle, c11HistDesc(m, steps), fmt.Sprintf("call %d of the history: %s", k+1, msg), params)
				}
			}
			e.Sample(map[string]interface{}{"method": m.Name, "histories": total, "calls_each": n})
		})
	}}
}

func c11ReplayHistory(v *Violation) int {
	name, _ := v.Params["method"].(string)
	m := c11FindWire(name)
	if m == nil {
		fmt.Println("unknown method", name)
		return 2
	}
	var steps []c11HistStep
	if raw, ok := v.Params["steps"].([]interface{}); ok {
		for _, x := range raw {
			if p, ok := x.([]interface{}); ok && len(p) == 2 {
				a, _ := p[0].(float64)
				b, _ := p[1].(float64)
				steps = append(steps, c11HistStep{int(a), int(b)})
			}
		}
	}
	if len(steps) == 0 {
		fmt.Println("no steps in replay file")
		return 2
	}
	wrote, o, cerr := c11HistRun(m, steps)
	fmt.Printf("history: %s\noutcome: %s (connect error: %v)\n", c11HistDesc(m, steps), o.Kind, cerr)
	for k, b := range wrote {
		fmt.Printf("call %d wrote: %s\n", k+1, Q(c08Clip(b)))
	}
	if o.Kind != "ok" && len(wrote) < len(steps) {
		oracle := o.Kind
		if oracle != "crash" {
			oracle = "does-not-return"
		}
		fmt.Printf("FINDING oracle=%s\n", oracle)
		if oracle == v.Oracle {
			fmt.Println("REPRODUCED")
			return 1
		}
	}
	if k, oracle, msg := c11HistJudge(m, steps, wrote); oracle != "" {
		fmt.Printf("FINDING oracle=%s call %d: %s\n", oracle, k+1, msg)
		if oracle == v.Oracle {
			fmt.Println("REPRODUCED")
			return 1
		}
	}
	fmt.Println("NOT REPRODUCED")
	return 0
}

// HashStringLite: FNV-1a, for tagging shape hashes with the method name.
func HashStringLite(s string) uint64 {
	h := uint64(1469598103934665603)
	for i := 0; i < len(s); i++ {
		h = (h ^ uint64(s[i])) * 1099511628211
	}
	return h
}

var c11WirePads = []string{"aaaaaaaaaaaaaa", " a. aaaaaaaaaaa a"}

// short texts over {a, space, .} (as they are: never longer than 13, recorded
// only; and followed by a pad, so that they are split) at SplitLen 13
func c11JobWireShort(m *c11WireMethod, prefixes []string, exactShort int, maxLen int, name string, cost int) Job {
	return Job{Name: name, Cost: cost, Run: func(jc *JobCtx) *JobResult {
		return c11RunGuarded(jc, name, func(e *Enum, g *c11Guard) {
			var texts []c11Text
			flush := func() bool {
				st := c11WireRun(jc, e, g, m, 13, texts)
				texts = texts[:0]
				return !st
			}
			add := func(s string) bool {
				texts = append(texts, c11Text{S: s})
				for _, pad := range c11WirePads {
					texts = append(texts, c11Text{S: s + pad})
				}
				if len(texts) >= 30000 {
					return flush()
				}
				return true
			}
			ok := true
			if exactShort >= 0 {
				c11Texts(c11A3, "", exactShort, func(s string) bool { ok = add(s); return ok })
			}
			for _, p := range prefixes {
				if !ok {
					break
				}
				c11Texts(c11A3, p, maxLen, func(s string) bool { ok = add(s); return ok })
			}
			if ok {
				flush()
			}
			e.Sample(map[string]interface{}{"call": m.Name + "(" + Q(c11Target) + ", " + Q("a. a a.a"+c11WirePads[1]) + ")", "splitlen": 13})
		})
	}}
}

func c11JobWirePeriodic(m *c11WireMethod, sl int, periods []string, name string, cost int) Job {
	return Job{Name: name, Cost: cost, Run: func(jc *JobCtx) *JobResult {
		return c11RunGuarded(jc, name, func(e *Enum, g *c11Guard) {
			lengths := c11Lengths(40, 53)
			for _, p := range periods {
				full := strings.Repeat(p, 3000/len(p)+1)
				var texts []c11Text
				for _, n := range lengths {
					texts = append(texts, c11Text{S: full[:n], Period: p})
				}
				if c11WireRun(jc, e, g, m, sl, texts) {
					break
				}
			}
			e.Sample(map[string]interface{}{"call": fmt.Sprintf("%s(%s, %s)", m.Name, Q(c11Target), c11Text{S: strings.Repeat(periods[0], 500)[:453], Period: periods[0]}.desc()), "splitlen": sl})
		})
	}}
}

// ---------------------------------------------------------------- jobs

func c11Chunks(ss []string, n int) [][]string {
	var r [][]string
	for len(ss) > n {
		r = append(r, ss[:n])
		ss = ss[n:]
	}
	if len(ss) > 0 {
		r = append(r, ss)
	}
	return r
}

func c11Jobs(tier string) []Job {
	thorough := tier == "thorough"
	pick := func(q, t int) int {
		if thorough {
			return t
		}
		return q
	}
	var jobs []Job

	// (1a) {a, space, .}* up to 14 / 16 at SplitLen 13: one job per 4-letter prefix (81) + the texts shorter than 4
	max3 := pick(14, 16)
	for i, p := range c11Words(c11A3, 4) {
		short := -1
		if i == 0 {
			short = 3
		}
		jobs = append(jobs, c11JobSplit3([]string{p}, short, max3, fmt.Sprintf("split/abc3/len<=%d/prefix=%s", max3, Q(p)), pick(60, 500)))
	}
	// (1b) {a, space, ., !, "}* up to 10 / 11 at SplitLen 13, 14, 16, bare and padded: one job per 3-letter prefix (125)
	max5 := pick(10, 11)
	for i, p := range c11Words(c11A5, 3) {
		short := -1
		if i == 0 {
			short = 2
		}
		jobs = append(jobs, c11JobSplit5([]string{p}, short, max5, fmt.Sprintf("split/abc5/len<=%d/prefix=%s", max5, Q(p)), pick(300, 1500)))
	}
	// (1b') bytes of multi-byte characters: one job per 2-letter prefix (25)
	maxB := pick(7, 9)
	for _, p := range c11Words(c11AB, 2) {
		jobs = append(jobs, c11JobSplitBytes(p, maxB, fmt.Sprintf("split/bytes/len<=%d/prefix=%s", maxB, Q(p)), pick(100, 800)))
	}
	// (1c) periodic texts of length 0..3000 at nine SplitLens: five periods per job
	for i, ch := range c11Chunks(c11Periods(pick(3, 4)), 5) {
		jobs = append(jobs, c11JobPeriodic(ch, fmt.Sprintf("split/periodic/periods<=%d/%03d-%s", pick(3, 4), i, Q(ch[0])), 150))
	}

	// (2c) wire, other targets and bytes
	{
		var ms []*c11WireMethod
		for mi := range c11WireMethods {
			ms = append(ms, &c11WireMethods[mi])
		}
		jobs = append(jobs, c11JobWireTargets(ms))
	}
	// (2d) wire, histories of 3 (thorough: 4) calls with SplitLen changed in between
	for mi := range c11WireMethods {
		jobs = append(jobs, c11JobWireHistory(&c11WireMethods[mi], pick(3, 4)))
	}
	// (2a) wire, short texts: method x 2-letter prefix
	maxW := pick(9, 12)
	for mi := range c11WireMethods {
		m := &c11WireMethods[mi]
		for i, p := range c11Words(c11A3, 2) {
			short := -1
			if i == 0 {
				short = 1
			}
			jobs = append(jobs, c11JobWireShort(m, []string{p}, short, maxW, fmt.Sprintf("wire/%s/abc3/len<=%d/prefix=%s", m.Name, maxW, Q(p)), pick(100, 2500)))
		}
	}
	// (2b) wire, periodic texts: method x SplitLen x chunk of periods
	wp := c11Periods(pick(2, 3))
	for mi := range c11WireMethods {
		m := &c11WireMethods[mi]
		for _, sl := range c11PeriodicSplitLens {
			per, cost := 40, 50
			if sl >= 13 && sl <= 20 {
				per, cost = 5, 400 // a 3000-byte text becomes hundreds of lines
			}
			for i, ch := range c11Chunks(wp, per) {
				jobs = append(jobs, c11JobWirePeriodic(m, sl, ch, fmt.Sprintf("wire/%s/periodic/splitlen=%d/%03d-%s", m.Name, sl, i, Q(ch[0])), cost))
			}
		}
	}
	return jobs
}

func init() {
	Register(&Prop{
		ID: "C11",
		Rule: "inputs = (text, SplitLen). In-package (client.VerifSplitMessage): every text over {a,space,.} up to length 14 (thorough 16) at SplitLen 13; every text over {a,space,.,!,\"} up to length 10 (thorough 11) at SplitLen 13/14/16, bare and embedded before/after two 17-byte pads (plain and punctuated) so that it is split; " +
			"periodic texts (every period of length <= 3, thorough 4, over the 5-letter alphabet) of every length 0..200, every 7th up to 3000 and the lengths around 450/1000 and their doubles, at SplitLen -5,0,1,12,13,14,20,450,1000. " +
			"Wire: Privmsg, Notice, Ctcp, CtcpReply, Privmsgf, Privmsgln, Action on a connected client with Config.SplitLen set: every text over {a,space,.} up to length 9 (thorough 12), bare and followed by two pads, at SplitLen 13; periodic texts (periods <= 2, thorough 3; 0..40, every 53rd, boundaries) at the nine SplitLens. " +
			"One evaluation = one call. A case is non-trivial (judged) iff the text is longer than the effective limit (SplitLen, or 450 when SplitLen < 13); distinct = distinct (level/method, SplitLen, sequence of piece lengths) among the judged cases",
		Assumptions: []string{
			"texts contain no CR/LF and only single-byte characters (keeping multi-byte characters intact is outside the claim)",
			"for texts not longer than the limit nothing is judged (the statement is silent)",
			"wire level: calls are made one at a time on an idle registered connection, Flood=true, PingFreq=0; the bytes between two quiescent points belong to one call",
			"a call is deemed not to return when the job's heartbeat stops for 0.4 s while the heap has grown past 400 MB, or for 20 s",
		},
		Jobs: c11Jobs,
	})
	prev := replayInput
	replayInput = func(v *Violation) int {
		if v.Property != "C11" {
			if prev != nil {
				return prev(v)
			}
			fmt.Println("violation has no schedule; input:", v.Input)
			return 0
		}
		return c11Replay(v)
	}
}

// c11Replay re-executes the single call recorded in a violation file.
func c11Replay(v *Violation) int {
	text, _ := v.Params["text"].(string)
	sl := 0
	if f, ok := v.Params["splitlen"].(float64); ok {
		sl = int(f)
	}
	level, _ := v.Params["level"].(string)
	if level == "wire-history" {
		return c11ReplayHistory(v)
	}
	L := c11Limit(sl)
	type result struct {
		pieces []string
		oracle string
		msg    string
	}
	ch := make(chan result, 1)
	go func() {
		var r result
		if level == "wire" {
			name, _ := v.Params["method"].(string)
			m := c11FindWire(name)
			if m == nil {
				r.oracle, r.msg = "?", "unknown method "+name
				ch <- r
				return
			}
			var wrote string
			o := RunSeq(vx.Options{}, func(env *vx.Env) {
				s, err := StartSession(env, "me", func(cfg *client.Config) { cfg.SplitLen = sl }, nil)
				if err != nil {
					return
				}
				n0 := len(s.VC.Writes)
				m.Call(s.C, c11Target, text)
				vx.Quiesce()
				for _, w := range s.VC.Writes[n0:] {
					wrote += w.Data
				}
				s.End()
			})
			fmt.Printf("call: %s(%s, %s) SplitLen=%d\noutcome: %s\nbytes written: %s\n", m.Name, Q(c11Target), Q(text), sl, o.Kind, Q(wrote))
			if o.Kind == "crash" {
				r.oracle, r.msg = "crash", o.Crash.Value
				ch <- r
				return
			}
			var bad string
			r.pieces, bad = c11WirePieces(m, wrote)
			if bad != "" {
				r.oracle, r.msg = "framing", bad
				ch <- r
				return
			}
		} else {
			if !c11HaveSplit {
				r.oracle, r.msg = "?", "no export shim in this build"
				ch <- r
				return
			}
			var pan interface{}
			r.pieces, pan = c11SafeSplit(text, sl)
			fmt.Printf("call: splitMessage(%s, %d)\n", Q(text), sl)
			if pan != nil {
				r.oracle, r.msg = "crash", fmt.Sprint(pan)
				ch <- r
				return
			}
		}
		fmt.Printf("limit: %d, text length %d\npieces: %s\n", L, len(text), joinQ(r.pieces))
		if len(text) > L {
			if o := c11Check(text, L, r.pieces); o != "" {
				r.oracle, r.msg = o, c11Explain(o, L, r.pieces)
			}
		}
		ch <- r
	}()
	select {
	case r := <-ch:
		if r.oracle != "" {
			fmt.Printf("FINDING oracle=%s %s\n", r.oracle, r.msg)
			if r.oracle == v.Oracle {
				fmt.Println("REPRODUCED")
				return 1
			}
		}
		fmt.Println("NOT REPRODUCED")
		return 0
	case <-time.After(2 * time.Second):
		fmt.Println("FINDING oracle=does-not-return the call did not return within 2 s")
		if v.Oracle == "does-not-return" {
			fmt.Println("REPRODUCED")
			os.Exit(1)
		}
		fmt.Println("NOT REPRODUCED")
		os.Exit(0)
		return 0
	}
}
