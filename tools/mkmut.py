#!/usr/bin/env python3
"""mkmut.py <name> <file-relative-to-/repo> <old> <new> [<file> <old> <new> ...] : writes /verif/mutants/<name>.patch (does not leave /repo modified)"""
import sys, subprocess
name=sys.argv[1]; args=sys.argv[2:]
assert len(args)%3==0
subprocess.check_call(['git','-C','/repo','diff','--quiet'])
for i in range(0,len(args),3):
    f,old,new=args[i:i+3]
    p='/repo/'+f; s=open(p).read()
    old=old.encode().decode('unicode_escape'); new=new.encode().decode('unicode_escape')
    assert s.count(old)==1, (f, 'occurrences', s.count(old))
    open(p,'w').write(s.replace(old,new))
d=subprocess.check_output(['git','-C','/repo','diff'])
open('/verif/mutants/%s.patch'%name,'wb').write(d)
subprocess.check_call(['git','-C','/repo','checkout','--','.'])
print('wrote mutants/%s.patch (%d bytes)'%(name,len(d)))
