// Command vcheck is the worker binary: built against the instrumented goirc.
package main

//go:debug panicnil=1

import (
	"verif/harness"
)

func main() { harness.WorkerMain() }
