package harness

// Reference model shared by C01 and C02: an IRC message *printer*.
//
// A message is described by its components (tags, source, verb, middle
// parameters, trailing parameter or CTCP payload). Wire() prints the
// components as wire text following RFC 2812 section 2.3.1 plus the IRCv3
// message-tags prefix; Expect() states what a parsed line has to expose
// according to the statement of C01. Nothing in this file parses anything:
// the expected result is known by construction.

import (
	"strings"
)

// MTag is one tag of the tag section. Eq=false prints the key alone
// ("@key"), Eq=true prints "key=" followed by the escaped value (which may be
// empty).
type MTag struct {
	Key string `json:"k"`
	Val string `json:"v"`
	Eq  bool   `json:"eq"`
}

// MSrc is the message source (prefix).
type MSrc struct {
	Kind string `json:"kind"` // "" (no source) | "server" | "nuh"
	Name string `json:"name,omitempty"`
	Nick string `json:"nick,omitempty"`
	User string `json:"user,omitempty"`
	Host string `json:"host,omitempty"`
}

// Msg is one well-formed message, by components.
type Msg struct {
	Tags []MTag   `json:"tags,omitempty"` // non-empty <=> a tag section is sent
	Src  MSrc     `json:"src"`
	Verb string   `json:"verb"`          // letters in any case, or three digits
	Mid  []string `json:"mid,omitempty"` // middle parameters
	Sep  []int    `json:"sep,omitempty"` // Sep[i] = number of spaces before Mid[i] (>=1)
	// trailing parameter: absent | plain text | CTCP payload \x01VERB text\x01
	HasTrail bool   `json:"has_trail"`
	Trail    string `json:"trail,omitempty"`     // plain trailing text (when CtcpVerb == "")
	CtcpVerb string `json:"ctcp_verb,omitempty"` // upper-case CTCP verb; the trailing is \x01VERB text\x01
	CtcpText string `json:"ctcp_text,omitempty"` // non-empty
}

// EscapeTagValue applies the five IRCv3 tag-value escapes.
func EscapeTagValue(v string) string {
	var sb strings.Builder
	for i := 0; i < len(v); i++ {
		switch v[i] {
		case ';':
			sb.WriteString(`\:`)
		case ' ':
			sb.WriteString(`\s`)
		case '\\':
			sb.WriteString(`\\`)
		case '\r':
			sb.WriteString(`\r`)
		case '\n':
			sb.WriteString(`\n`)
		default:
			sb.WriteByte(v[i])
		}
	}
	return sb.String()
}

func (s MSrc) String() string {
	switch s.Kind {
	case "server":
		return s.Name
	case "nuh":
		return s.Nick + "!" + s.User + "@" + s.Host
	}
	return ""
}

// TrailText is the text of the trailing parameter as it appears on the wire.
func (m *Msg) TrailText() string {
	if m.CtcpVerb != "" {
		return "\x01" + m.CtcpVerb + " " + m.CtcpText + "\x01"
	}
	return m.Trail
}

var spaces = [...]string{"", " ", "  ", "   ", "    "}

// Wire prints the message (without CRLF).
func (m *Msg) Wire() string {
	var sb strings.Builder
	if len(m.Tags) > 0 {
		sb.WriteByte('@')
		for i, t := range m.Tags {
			if i > 0 {
				sb.WriteByte(';')
			}
			sb.WriteString(t.Key)
			if t.Eq {
				sb.WriteByte('=')
				sb.WriteString(EscapeTagValue(t.Val))
			}
		}
		sb.WriteByte(' ')
	}
	if m.Src.Kind != "" {
		sb.WriteByte(':')
		sb.WriteString(m.Src.String())
		sb.WriteByte(' ')
	}
	sb.WriteString(m.Verb)
	for i, p := range m.Mid {
		n := 1
		if i < len(m.Sep) && m.Sep[i] > 0 {
			n = m.Sep[i]
		}
		if n < len(spaces) {
			sb.WriteString(spaces[n])
		} else {
			sb.WriteString(strings.Repeat(" ", n))
		}
		sb.WriteString(p)
	}
	if m.HasTrail {
		sb.WriteString(" :")
		sb.WriteString(m.TrailText())
	}
	return sb.String()
}

// Rendering is one acceptable (Cmd, Args) pair.
type Rendering struct {
	Cmd  string
	Args []string
}

// Exp is what the statement of C01 demands of the parsed line.
type Exp struct {
	Raw                    string
	Tags                   map[string]string // nil <=> no tag section was sent
	Nick, Ident, Host, Src string
	// Renderings lists the acceptable (Cmd, Args) pairs; there is one, except
	// for a NOTICE carrying a CTCP ACTION, where the statement allows reading
	// it both as ACTION(target,text) and as CTCPREPLY(ACTION,target,text).
	Renderings []Rendering
	Ctcp       bool // the CTCP/ACTION rewriting rule applies to this message

	// Accessors. The *Known flags say whether statement + doc comments fix
	// the answer; where they do not, the accessor is only called (it must
	// answer, i.e. not panic) and its value is not judged.
	Text        string // last parameter (after rewriting), "" when there is none
	TargetKnown bool
	Target      string
	PublicKnown bool
	Public      bool
}

func asciiUpper(s string) string {
	b := []byte(s)
	for i, c := range b {
		if c >= 'a' && c <= 'z' {
			b[i] = c - 'a' + 'A'
		}
	}
	return string(b)
}

func isChannelName(s string) bool {
	if s == "" {
		return false
	}
	switch s[0] {
	case '#', '&', '+', '!':
		return true
	}
	return false
}

// Expect computes the demanded result from the components.
func (m *Msg) Expect() *Exp {
	e := &Exp{Raw: m.Wire()}
	if len(m.Tags) > 0 {
		e.Tags = map[string]string{}
		for _, t := range m.Tags {
			if t.Eq {
				e.Tags[t.Key] = t.Val
			} else {
				e.Tags[t.Key] = ""
			}
		}
	}
	switch m.Src.Kind {
	case "server":
		e.Src = m.Src.Name
		e.Host = m.Src.Name
	case "nuh":
		e.Src = m.Src.String()
		e.Nick, e.Ident, e.Host = m.Src.Nick, m.Src.User, m.Src.Host
	}
	cmd := asciiUpper(m.Verb)
	args := append([]string(nil), m.Mid...)
	if m.HasTrail {
		args = append(args, m.TrailText())
	}
	msgVerb := cmd == "PRIVMSG" || cmd == "NOTICE"
	if msgVerb && m.HasTrail && m.CtcpVerb != "" && len(m.Mid) == 1 {
		// "A PRIVMSG or NOTICE whose text is \x01VERB text\x01 is delivered
		// instead as ACTION (target, text) or as CTCP / CTCPREPLY (VERB,
		// target, text)."
		e.Ctcp = true
		target, text := m.Mid[0], m.CtcpText
		action := Rendering{"ACTION", []string{target, text}}
		switch {
		case cmd == "PRIVMSG" && m.CtcpVerb == "ACTION":
			e.Renderings = []Rendering{action}
		case cmd == "PRIVMSG":
			e.Renderings = []Rendering{{"CTCP", []string{m.CtcpVerb, target, text}}}
		case m.CtcpVerb == "ACTION":
			// NOTICE + ACTION: the statement does not say which of the two wins.
			e.Renderings = []Rendering{{"CTCPREPLY", []string{m.CtcpVerb, target, text}}, action}
		default:
			e.Renderings = []Rendering{{"CTCPREPLY", []string{m.CtcpVerb, target, text}}}
		}
		e.Text = text
		e.PublicKnown, e.Public = true, isChannelName(target)
		if e.Public {
			e.TargetKnown, e.Target = true, target
		} else if m.Src.Kind == "nuh" {
			e.TargetKnown, e.Target = true, m.Src.Nick
		}
		return e
	}
	e.Renderings = []Rendering{{cmd, args}}
	if len(args) > 0 {
		e.Text = args[len(args)-1]
	}
	switch {
	case msgVerb && len(m.Mid) >= 1:
		// the message has a proper target: the first middle parameter
		target := m.Mid[0]
		e.PublicKnown, e.Public = true, isChannelName(target)
		if e.Public {
			e.TargetKnown, e.Target = true, target
		} else if m.Src.Kind == "nuh" {
			// "If the line was sent directly by a user, the target will be that user."
			e.TargetKnown, e.Target = true, m.Src.Nick
		}
	case msgVerb:
		// PRIVMSG/NOTICE without a middle parameter has no proper target:
		// Target and Public are called but not judged.
	case len(args) > 0:
		// "usually the first Arg for the IRC verb"
		e.TargetKnown, e.Target = true, args[0]
		// Public for a verb that is not a message: not judged.
	}
	return e
}
