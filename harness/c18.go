package harness

import (
	"crypto/tls"
	"fmt"
	"strings"
	"time"

	"github.com/fluffle/goirc/client"
	"github.com/fluffle/goirc/state"

	"verif/vx"
)

// C18: registration and keep-alive follow the protocol.
//
// Expected values are known by construction from the configuration (never
// parsed back from what the library produced):
//
//   - dial address  = configured server, plus ":6667" (":6697" with SSL) iff the
//     harness put no port into it;
//   - first lines   = [CAP LS] [PASS pw] NICK nick, USER ident 12 * :name;
//   - own PINGs     = one per PingFreq of virtual time iff PingFreq > 0;
//   - PONGs         = one "PONG :<token>" per tokened server PING, in order.

type c18Server struct {
	Addr    string
	HasPort bool
	V6Lit   bool // bracketed IPv6 literal
}

var c18Servers = []c18Server{
	{"h", false, false},
	{"h:7000", true, false},
	{"1.2.3.4", false, false},
	{"1.2.3.4:7000", true, false},
	{"[::1]", false, true},
	{"[::1]:7000", true, true},
}

type c18Cfg struct {
	Given    bool // ident and real name given to NewConfig (false: its defaults)
	Pass     string
	Cap      bool
	SSL      bool
	Server   c18Server
	PingFreq time.Duration
	Tracking bool          // state tracking enabled
	Welcome  bool          // the server sends the 001 welcome (confirming nick and ident) on every connect
	TLSCfg   bool          // Config.SSLConfig is set although Config.SSL is false: still a plain connection to 6667
	FloodCtl bool          // flood protection on (Config.Flood false)
	Chatter  time.Duration // > 0: a user task sends a short line every Chatter while the connection is up
	WText    string        // wording of the welcome: "" = "Welcome nick!ident@host" | bang, at: free text with '!' resp. '@' before the mask
	Literal  string        // "" = NewConfig | full: a Config struct literal with the whole identity given | nil-me, no-ident: a literal whose identity Client() repairs (nick __idiot__, ident goirc, name "Powered by GoIRC"); everything else in it stays
	Late     string        // "" = everything is in the Config given to Client() | "flags" = SSL, password, negotiation and PingFreq are set through Conn.Config() after Client(), which saw the opposite values | "server" = so is the server
	Twice    bool          // Connect() is called once more while each connection is up (it cannot succeed: nothing may be dialled or sent again)
	Via      string        // "" = Connect() both times | "to" = ConnectTo(server) the second time | "to-pass" = ConnectTo(server, password) both times with an empty Config.Pass
}

// c18Other: the server the second connect goes to with Via "to-other": named with port 7000 if the first was named
// without a port, without a port if the first had one.
func c18Other(first c18Server) string {
	if first.HasPort {
		return "other.example"
	}
	return "other.example:7000"
}

func (c c18Cfg) String() string {
	return fmt.Sprintf("NewConfig(%s) pass=%s negotiation=%v ssl=%v server=%s pingfreq=%s",
		map[bool]string{false: `"me"`, true: `"me","myident","My Real Name"`}[c.Given], Q(c.Pass), c.Cap, c.SSL, Q(c.Server.Addr), c.PingFreq) +
		fmt.Sprintf(" tracking=%v welcome=%v", c.Tracking, c.Welcome) + c.extra()
}

func (c c18Cfg) extra() string {
	x := ""
	if c.TLSCfg {
		x += " sslconfig-set"
	}
	if c.FloodCtl {
		x += " floodctl=on"
	}
	if c.Chatter > 0 {
		x += fmt.Sprintf(" user-line-every=%s", c.Chatter)
	}
	if c.Via != "" {
		x += " connect-via=" + c.Via
	}
	if c.Late != "" {
		x += " set-after-Client()=" + c.Late
	}
	if c.Literal != "" {
		x += " config-literal=" + c.Literal
	}
	if c.WText != "" {
		x += " welcome-wording=" + c.WText
	}
	if c.Twice {
		x += " connect-again-while-connected"
	}
	return x
}

func (c c18Cfg) params() map[string]interface{} {
	return map[string]interface{}{"given": c.Given, "pass": c.Pass, "negotiation": c.Cap, "ssl": c.SSL, "server": c.Server.Addr, "pingfreq": c.PingFreq.String(), "tracking": c.Tracking, "welcome": c.Welcome, "tlscfg": c.TLSCfg, "floodctl": c.FloodCtl, "chatter": c.Chatter.String(), "via": c.Via, "late": c.Late, "twice": c.Twice, "literal": c.Literal, "wtext": c.WText}
}

// client builds the client: normally Client(c.build()); with Late, Client() sees a Config with the opposite
// flags (and another server), and the real values are written through Conn.Config() afterwards.
func (c c18Cfg) client() *client.Conn {
	cfg := c.build()
	if c.Late == "" {
		return client.Client(cfg)
	}
	early := *cfg
	early.SSL = !cfg.SSL
	early.SSLConfig = nil
	if early.SSL {
		early.SSLConfig = &tls.Config{InsecureSkipVerify: true}
	}
	early.EnableCapabilityNegotiation = !cfg.EnableCapabilityNegotiation
	early.Pass = map[bool]string{true: "", false: "early-password"}[cfg.Pass != ""]
	early.PingFreq = map[bool]time.Duration{true: 0, false: 4 * time.Second}[cfg.PingFreq > 0]
	if c.Late == "server" {
		early.Server = "early.example"
	}
	cl := client.Client(&early)
	live := cl.Config()
	live.SSL, live.SSLConfig, live.EnableCapabilityNegotiation, live.Pass, live.PingFreq = cfg.SSL, cfg.SSLConfig, cfg.EnableCapabilityNegotiation, cfg.Pass, cfg.PingFreq
	if c.Late == "server" {
		live.Server = cfg.Server
	}
	return cl
}

func (c c18Cfg) build() *client.Config {
	var cfg *client.Config
	switch {
	case c.Literal != "":
		// hand-built: no NewConfig defaults at all except the two functions a Config cannot do without
		cfg = &client.Config{NewNick: client.DefaultNewNick, Recover: (*client.Conn).LogPanic}
		switch c.Literal {
		case "full":
			cfg.Me = &state.Nick{Nick: "me", Ident: "myident", Name: "My Real Name"}
		case "no-ident":
			cfg.Me = &state.Nick{Nick: "me", Name: "My Real Name"}
		}
	case c.Given:
		cfg = client.NewConfig("me", "myident", "My Real Name")
	default:
		cfg = client.NewConfig("me")
	}
	cfg.Proxy = "verif://proxy" // the in-memory dialler records the address it is asked for
	cfg.Flood = !c.FloodCtl
	cfg.Server = c.Server.Addr
	cfg.Pass = c.Pass
	if c.Via == "to-pass" {
		cfg.Pass = "" // handed to ConnectTo instead
	}
	cfg.EnableCapabilityNegotiation = c.Cap
	cfg.SSL = c.SSL
	if c.SSL {
		// a real handshake attempt (ClientHello is written, the scripted EOF answers it)
		cfg.SSLConfig = &tls.Config{InsecureSkipVerify: true}
	}
	if c.TLSCfg && !c.SSL {
		cfg.SSLConfig = &tls.Config{InsecureSkipVerify: true}
	}
	cfg.PingFreq = c.PingFreq
	return cfg
}

// c18LinesAt reassembles the lines written on a connection; each line carries
// the virtual time of the write that completed it.
type c18Line struct {
	Text string
	At   time.Duration
}

func c18LinesAt(vc *vx.Conn) []c18Line {
	var out []c18Line
	buf := ""
	for _, w := range vc.Writes {
		buf += w.Data
		for {
			i := strings.Index(buf, "\r\n")
			if i < 0 {
				break
			}
			out = append(out, c18Line{buf[:i], w.At})
			buf = buf[i+2:]
		}
	}
	return out
}

func c18Cmd(l string) string {
	if i := strings.IndexByte(l, ' '); i >= 0 {
		return l[:i]
	}
	return l
}

const c18Window = 10 * time.Second

// c18RunConfig runs the two-cycle session for one configuration and judges it.
func c18RunConfig(e *Enum, c c18Cfg) {
	const cycles = 2
	var (
		errs      [cycles]string
		connAt    [cycles]time.Duration
		connIdx   [cycles]int
		regLines  [cycles][]string
		events    []string
		again     [cycles]bool
		wantNick  string
		wantIdent string
		wantName  string
	)
	for i := range connIdx {
		connIdx[i] = -1
	}
	window := c18Window
	if c.PingFreq <= 0 {
		window = 2 * time.Hour // "never": far beyond any default period a zero value might be replaced by
	}
	o := RunSeq(vx.Options{MaxSteps: 200000, Horizon: 6 * time.Hour}, func(env *vx.Env) {
		cfg := c.build()
		cl := c.client()
		switch c.Literal {
		case "":
			wantNick, wantIdent, wantName = cfg.Me.Nick, cfg.Me.Ident, cfg.Me.Name
		case "full":
			wantNick, wantIdent, wantName = "me", "myident", "My Real Name"
		default:
			// documented in Client(): an unusable identity is replaced as a whole
			wantNick, wantIdent, wantName = "__idiot__", "goirc", "Powered by GoIRC"
		}
		if c.Tracking {
			cl.EnableStateTracking()
		}
		for _, ev := range []string{client.REGISTER, client.CONNECTED, client.DISCONNECTED} {
			ev := ev
			cl.HandleFunc(ev, func(*client.Conn, *client.Line) { events = append(events, ev) })
		}
		for cy := 0; cy < cycles; cy++ {
			var vc *vx.Conn
			env.ConnSetup = func(x *vx.Conn) {
				vc = x
				if c.SSL {
					x.PreloadEOF() // the server closes at once: the TLS handshake cannot succeed
				}
			}
			var err error
			switch {
			case c.Via == "to-other" && cy > 0:
				err = cl.ConnectTo(c18Other(c.Server)) // another server: with a port if the first had none, and the other way round
			case c.Via == "to" && cy > 0:
				err = cl.ConnectTo(c.Server.Addr) // no password argument: the configured one stays
			case c.Via == "to-pass":
				err = cl.ConnectTo(c.Server.Addr, c.Pass)
			default:
				err = cl.Connect()
			}
			if vc != nil {
				connIdx[cy] = vc.Idx
			}
			if err != nil {
				errs[cy] = err.Error()
				if !c.SSL {
					return
				}
				continue
			}
			errs[cy] = "<nil>"
			vx.Quiesce()
			if c.Twice {
				if err := cl.Connect(); err == nil {
					again[cy] = true
				}
				vx.Quiesce()
			}
			connAt[cy] = env.Now()
			regLines[cy] = append([]string{}, vc.Lines()...)
			if c.Welcome {
				text := map[string]string{"": "Welcome", "bang": "Welcome to ExampleNet! You are", "at": "Welcome, mail admin@example.net for help,"}[c.WText]
				vc.SendLines(fmt.Sprintf(":irc.example 001 %s :%s %s!%s@host.example", wantNick, text, wantNick, wantIdent))
				vx.Quiesce()
				_ = cl.Me()
			}
			if c.Chatter > 0 {
				n := int(window / c.Chatter)
				cy := cy
				env.Go("user-chatter", func() {
					for i := 1; i <= n && c.Chatter*time.Duration(i) < window; i++ {
						vx.Sleep(c.Chatter)
						cl.Raw(fmt.Sprintf("PRIVMSG #c :c%d-%d", cy, i))
					}
				})
			}
			vx.Sleep(window)
			vc.EOF()
			vx.Quiesce()
		}
	})
	in := c.String()
	fam := "registration"
	if o.Kind != "ok" {
		msg := "session did not finish: " + o.Kind + " " + o.BlockedSig()
		if o.Crash != nil {
			msg = o.Crash.Task + ": panic: " + o.Crash.Value + " @ " + o.Crash.Top
		}
		e.Fail(fam, "crash", in, msg, c.params())
		return
	}
	// ---- dial address
	port := "6667"
	if c.SSL {
		port = "6697"
	}
	wantAddr := c.Server.Addr
	if !c.Server.HasPort {
		wantAddr += ":" + port
	}
	if len(o.DialAddrs) != cycles {
		e.Fail(fam, "dial-count", in, fmt.Sprintf("%d connects dialled %s (Connect results: %v)", cycles, joinQ(o.DialAddrs), errs), c.params())
	}
	for cy, a := range o.DialAddrs {
		wantAddr := wantAddr
		if c.Via == "to-other" && cy > 0 {
			wantAddr = c18Other(c.Server)
			if c.Server.HasPort {
				wantAddr += ":" + port // the other server was named without a port
			}
		}
		if a != wantAddr {
			id := "dial-address"
			if c.Server.V6Lit && !c.Server.HasPort {
				id = "dial-address-ipv6-literal"
			}
			e.Fail(fam, id, in, fmt.Sprintf("connect %d dialled %s, want %s", cy+1, Q(a), Q(wantAddr)), c.params())
			break
		}
	}
	if c.SSL {
		// only the dial address is observable: the handshake fails by script
		for cy := 0; cy < cycles; cy++ {
			if errs[cy] == "<nil>" {
				e.Fail(fam, "ssl-handshake-failure-not-reported", in, fmt.Sprintf("connect %d: the server closed during the TLS handshake but Connect returned nil", cy+1), c.params())
			}
		}
		for _, ev := range events {
			if ev == client.REGISTER || ev == client.CONNECTED {
				e.Fail(fam, "ssl-events-after-failed-connect", in, "handlers ran although Connect failed: "+joinQ(events), c.params())
				break
			}
		}
		return
	}
	// ---- registration lines, every cycle
	var want []string
	if c.Cap {
		want = append(want, "CAP LS")
	}
	if c.Pass != "" {
		want = append(want, "PASS "+c.Pass)
	}
	want = append(want, "NICK "+wantNick, NormLine("USER "+wantIdent+" 12 * :"+wantName))
	for cy := 0; cy < cycles; cy++ {
		if errs[cy] != "<nil>" {
			e.Fail(fam, "connect-error", in, fmt.Sprintf("connect %d failed: %s", cy+1, errs[cy]), c.params())
			return
		}
		if c.FloodCtl {
			// the flood penalty carries over to the next connection and may hold registration lines back: they are
			// still the first lines of the connection, whenever they are written
			regLines[cy] = nil
			for i, l := range o.Conns[connIdx[cy]].Lines() {
				if i < len(want) {
					regLines[cy] = append(regLines[cy], l)
				}
			}
		}
		got := make([]string, len(regLines[cy]))
		for i, l := range regLines[cy] {
			got[i] = NormLine(l) // spelling the protocol leaves open (USER's mode fields, CAP LS version) is not judged
		}
		if strings.Join(got, "\n") != strings.Join(want, "\n") {
			e.Fail(fam, "registration-lines", in, fmt.Sprintf("connect %d: first lines %s, want %s", cy+1, joinQ(got), joinQ(want)), c.params())
		}
		// once each over the whole connection; own PINGs at k*PingFreq
		all := c18LinesAt(o.Conns[connIdx[cy]])
		seen := map[string]int{}
		var pings []c18Line
		for _, l := range all {
			seen[c18Cmd(l.Text)]++
			if c18Cmd(l.Text) == "PING" {
				pings = append(pings, l)
			}
		}
		for _, cmd := range []string{"CAP", "PASS", "NICK", "USER"} {
			if seen[cmd] > 1 {
				e.Fail(fam, "registration-repeated", in, fmt.Sprintf("connect %d: %s sent %d times: %v", cy+1, cmd, seen[cmd], all), c.params())
			}
		}
		var wantAt []time.Duration
		if c.PingFreq > 0 {
			for t := c.PingFreq; t <= c18Window; t += c.PingFreq {
				wantAt = append(wantAt, connAt[cy]+t)
			}
		}
		var gotAt []time.Duration
		for _, p := range pings {
			gotAt = append(gotAt, p.At)
		}
		if c.FloodCtl && cy > 0 {
			// lines of this connection may be held back by the penalty left over from the previous one (C10 judges
			// write times under flood protection); the period is judged on the first connection only
			if c.PingFreq > 0 && len(pings) == 0 {
				e.Fail("keepalive", "keepalive-period", in, fmt.Sprintf("connect %d: no own PING at all in %s", cy+1, c18Window), c.params())
			}
		} else if fmt.Sprint(gotAt) != fmt.Sprint(wantAt) {
			id := "keepalive-period"
			if c.PingFreq <= 0 {
				id = "keepalive-when-disabled"
			}
			e.Fail("keepalive", id, in, fmt.Sprintf("connect %d at %s, %s of virtual time: own PINGs at %v, want %v", cy+1, connAt[cy], c18Window, gotAt, wantAt), c.params())
		}
		for _, p := range pings {
			if !strings.HasPrefix(p.Text, "PING :") || len(p.Text) == len("PING :") {
				e.Fail("keepalive", "keepalive-form", in, "own PING line "+Q(p.Text)+" carries no token", c.params())
				break
			}
		}
	}
	if len(e.R.Samples) < 2 {
		e.Sample(map[string]interface{}{"config": in, "dialled": o.DialAddrs, "first_lines": regLines[0], "own_pings": len(c18LinesAt(o.Conns[connIdx[0]])) - len(regLines[0])})
	}
}

func c18ConfigJob(srv c18Server, ssl bool, pf time.Duration) Job {
	name := fmt.Sprintf("config/server=%s/ssl=%v/pingfreq=%s", srv.Addr, ssl, pf)
	return Job{Name: name, Cost: 2, Run: func(jc *JobCtx) *JobResult {
		e := NewEnum(name)
		for _, given := range []bool{false, true} {
			for _, pass := range []string{"", "sekrit"} {
				for _, cp := range []bool{false, true} {
					for _, tw := range [][2]bool{{false, false}, {true, false}, {false, true}, {true, true}} {
						if ssl && (tw[0] || tw[1]) {
							continue // the TLS handshake fails by script: nothing more to see
						}
						for _, late := range []string{"", "flags", "server"} {
							for _, twice := range []bool{false, true} {
								if ssl && twice {
									continue // no connection comes up
								}
								c := c18Cfg{Given: given, Pass: pass, Cap: cp, SSL: ssl, Server: srv, PingFreq: pf, Tracking: tw[0], Welcome: tw[1], Late: late, Twice: twice}
								e.Case(c.String())
								c18RunConfig(e, c)
							}
						}
					}
				}
			}
		}
		e.R.Bounds = append(e.R.Bounds, "2 connects per configuration, 10 s of virtual time after each")
		return e.Done()
	}}
}

// ---------------------------------------------------------------- PING answers

type c18Ping struct {
	Line  string
	Token string
	Form  string
}

func c18Tokens() []string {
	return []string{"x", "a b", ":c", "", "a:b", "::", strings.Repeat("x", 400), strings.Repeat("y", 5000), // 5000: longer than the client's 4096-byte read buffer
		// more of the same kinds
		"a :b", " x", "x ", "é", "\x01", "PONG :y", "0"}
}

func c18Pings() []c18Ping {
	var ps []c18Ping
	for _, t := range c18Tokens() {
		ps = append(ps, c18Ping{"PING :" + t, t, "trailing"})
		ps = append(ps, c18Ping{":irc.example PING :" + t, t, "trailing+source"})
		if t != "" && !strings.Contains(t, " ") && t[0] != ':' {
			ps = append(ps, c18Ping{"PING " + t, t, "middle"})
			ps = append(ps, c18Ping{"PING " + t + " srv2", t, "two-params"})
			ps = append(ps, c18Ping{":irc.example PING " + t + " :srv2 x", t, "two-params-trailing"})
		}
	}
	return ps
}

const c18Chat = ":o!u@h PRIVMSG #c :hello there"

// c18Script is a list of segments; every segment is fed as one write and followed by quiescence.
type c18Script struct {
	Name     string
	Welcome  bool // 001 before the probes
	Segments [][]string
	PingFreq time.Duration // >0: own PINGs run, one second of virtual time passes after every segment
}

func c18Expect(sc c18Script, byLine map[string]string) []string {
	var want []string
	for _, seg := range sc.Segments {
		for _, l := range seg {
			if t, ok := byLine[l]; ok {
				want = append(want, "PONG :"+t)
			}
		}
	}
	return want
}

// c18RunPings plays the script and compares the PONG lines with the tokens sent.
func c18RunPings(e *Enum, sc c18Script, byLine map[string]string) bool {
	var wire []string
	connectErr := ""
	o := RunSeq(vx.Options{MaxSteps: 400000}, func(env *vx.Env) {
		s, err := StartSession(env, "me", func(cfg *client.Config) { cfg.PingFreq = sc.PingFreq }, nil)
		if err != nil {
			connectErr = err.Error()
			return
		}
		if sc.Welcome {
			s.Feed(":irc.example 001 me :Welcome me!ident@host")
		}
		for _, seg := range sc.Segments {
			s.Feed(seg...)
			if sc.PingFreq > 0 {
				vx.Sleep(time.Second)
				vx.Quiesce()
			}
		}
		wire = append([]string{}, s.Wire()...)
		s.End()
	})
	params := map[string]interface{}{"after_welcome": sc.Welcome, "pingfreq": sc.PingFreq.String()}
	var flat []string
	for _, seg := range sc.Segments {
		flat = append(flat, "write"+joinQ(seg))
	}
	in := fmt.Sprintf("after-welcome=%v pingfreq=%s: %s", sc.Welcome, sc.PingFreq, strings.Join(flat, " "))
	if connectErr != "" {
		e.R.Notes = append(e.R.Notes, "connect failed: "+connectErr)
		return false
	}
	if o.Kind != "ok" {
		msg := "session did not finish: " + o.Kind + " " + o.BlockedSig()
		if o.Crash != nil {
			msg = o.Crash.Task + ": panic: " + o.Crash.Value + " @ " + o.Crash.Top
		}
		e.Fail("ping-answer", "crash", in, msg, params)
		return false
	}
	var got []string
	for _, l := range wire {
		if c18Cmd(l) == "PONG" {
			got = append(got, NormLine(l))
		}
	}
	want := c18Expect(sc, byLine)
	if strings.Join(got, "\n") != strings.Join(want, "\n") {
		e.Fail("ping-answer", "pong-token", in, fmt.Sprintf("PONG lines %s, want %s", c18Short(got), c18Short(want)), params)
		return false
	}
	return true
}

func c18Short(ls []string) string {
	var q []string
	for _, l := range ls {
		if len(l) > 60 {
			l = fmt.Sprintf("%s...(%d bytes)", l[:40], len(l))
		}
		q = append(q, Q(l))
	}
	return "[" + strings.Join(q, ",") + "]"
}

func c18PingMap(ps []c18Ping) map[string]string {
	m := map[string]string{}
	for _, p := range ps {
		m[p.Line] = p.Token
	}
	return m
}

// c18SingleJob: every PING variant on its own, in five surroundings, before and after the welcome.
func c18SingleJob(welcome bool) Job {
	name := fmt.Sprintf("ping/single/after-welcome=%v", welcome)
	return Job{Name: name, Cost: 3, Run: func(jc *JobCtx) *JobResult {
		e := NewEnum(name)
		ps := c18Pings()
		by := c18PingMap(ps)
		for _, p := range ps {
			for ctx, segs := range [][][]string{
				{{p.Line}},
				{{c18Chat, p.Line, c18Chat}},
				{{c18Chat}, {p.Line}, {c18Chat}},
				{{p.Line, p.Line}},
				{{":o!u@h PRIVMSG me :\x01PING 123\x01", p.Line, ":o!u@h NOTICE me :PING :nope"}},
			} {
				sc := c18Script{Welcome: welcome, Segments: segs}
				e.Case(fmt.Sprintf("%v|%d|%s", welcome, ctx, p.Line))
				ok := c18RunPings(e, sc, by)
				if ok && len(e.R.Samples) < 2 && ctx == 1 && (p.Form == "two-params" || p.Token == "a b") {
					e.Sample(map[string]interface{}{"fed": segs, "pongs": c18Expect(sc, by)})
				}
			}
		}
		return e.Done()
	}}
}

// c18PairJob: the first-th variant followed by every variant, chat in between, one write.
func c18PairJob(first int, welcome bool) Job {
	ps := c18Pings()
	name := fmt.Sprintf("ping/pair/first=%02d-%s/after-welcome=%v", first, ps[first].Form, welcome)
	return Job{Name: name, Cost: 2, Run: func(jc *JobCtx) *JobResult {
		e := NewEnum(name)
		by := c18PingMap(ps)
		for _, p2 := range ps {
			for ctx, segs := range [][][]string{
				{{ps[first].Line, c18Chat, p2.Line}},
				{{ps[first].Line, p2.Line, c18Chat}},
			} {
				e.Case(fmt.Sprintf("%v|%d|%s|%s", welcome, ctx, ps[first].Line, p2.Line))
				c18RunPings(e, c18Script{Welcome: welcome, Segments: segs}, by)
			}
		}
		return e.Done()
	}}
}

// c18LongJob: every variant in one session, chat between them, three rounds;
// also with the client's own keep-alive PINGs running in between.
func c18LongJob(welcome bool, pf time.Duration) Job {
	name := fmt.Sprintf("ping/all-in-one/after-welcome=%v/pingfreq=%s", welcome, pf)
	return Job{Name: name, Cost: 3, Run: func(jc *JobCtx) *JobResult {
		e := NewEnum(name)
		ps := c18Pings()
		by := c18PingMap(ps)
		for rot := 0; rot < len(ps); rot += 7 {
			var segs [][]string
			for round := 0; round < 3; round++ {
				var seg []string
				for i := range ps {
					p := ps[(i+rot+round)%len(ps)]
					seg = append(seg, p.Line)
					if (i+round)%2 == 0 {
						seg = append(seg, c18Chat)
					}
					if round == 1 && i%5 == 4 {
						segs = append(segs, seg)
						seg = nil
					}
				}
				if len(seg) > 0 {
					segs = append(segs, seg)
				}
			}
			sc := c18Script{Welcome: welcome, Segments: segs, PingFreq: pf}
			e.CaseN(int64(3*len(ps)), fmt.Sprintf("%v|%s|rot%d", welcome, pf, rot))
			if !c18RunPings(e, sc, by) {
				// name the single line that is answered wrongly
				for _, p := range ps {
					if !c18RunPings(e, c18Script{Welcome: welcome, Segments: [][]string{{p.Line}}, PingFreq: pf}, by) {
						break
					}
				}
			}
		}
		return e.Done()
	}}
}

// c18RenameJob: the nick sent on a second connect after the nick changed during the first.
// "NICK with its current nick": the current nick is the one Me() reports, i.e. the
// one the server used last (C17).
func c18RenameJob() Job {
	name := "reconnect-after-rename"
	return Job{Name: name, Cost: 1, Run: func(jc *JobCtx) *JobResult {
		e := NewEnum(name)
		for _, track := range []bool{false, true} {
			for _, how := range []string{"forced", "welcome-other", "collision", "requested", "welcome-other-nomask", "collision-nomask", "forced-nomask"} {
				for _, readMe := range []bool{false, true} {
					in := fmt.Sprintf("tracking=%v rename=%s Me()-called-before-reconnect=%v", track, how, readMe)
					e.Case(in)
					var second []string
					meNick := ""
					want := "neo"
					o := RunSeq(vx.Options{}, func(env *vx.Env) {
						s, err := StartSession(env, "me", nil, func(c *client.Conn) {
							if track {
								c.EnableStateTracking()
							}
						})
						if err != nil {
							return
						}
						switch how {
						case "forced":
							s.Feed(":irc 001 me :Welcome me!ident@host", ":me!ident@host NICK :neo")
						case "welcome-other":
							s.Feed(":irc 001 neo :Welcome neo!ident@host")
						case "collision":
							want = client.DefaultNewNick("me")
							s.Feed(":irc 433 * me :Nickname is already in use", ":irc 001 "+want+" :Welcome "+want+"!ident@host")
						// the same with welcome texts that do not end in nick!user@host (many networks)
						case "welcome-other-nomask":
							s.Feed(":irc 001 neo :Welcome to the Example IRC Network, neo")
						case "collision-nomask":
							want = client.DefaultNewNick("me")
							s.Feed(":irc 433 * me :Nickname is already in use", ":irc 001 "+want+" :Welcome to the Example IRC Network")
						case "forced-nomask":
							s.Feed(":irc 001 me :Welcome", ":me!ident@host NICK :neo")
						case "requested":
							s.Feed(":irc 001 me :Welcome me!ident@host")
							s.C.Nick("neo")
							vx.Quiesce()
							s.Feed(":me!ident@host NICK neo")
						}
						s.End()
						if readMe {
							meNick = s.C.Me().Nick
						}
						var vc *vx.Conn
						env.ConnSetup = func(x *vx.Conn) { vc = x }
						if err := s.C.Connect(); err != nil {
							return
						}
						vx.Quiesce()
						second = append([]string{}, vc.Lines()...)
						vc.EOF()
						vx.Quiesce()
					})
					params := map[string]interface{}{"tracking": track, "rename": how, "me_called": readMe}
					if o.Kind != "ok" || second == nil {
						e.Fail("reconnect", "crash", in, "session did not finish: "+o.Kind+" "+o.BlockedSig(), params)
						continue
					}
					if readMe && meNick != want {
						e.R.Notes = append(e.R.Notes, in+": Me().Nick="+Q(meNick)+" before the reconnect (C17's business)")
						continue
					}
					n := 0
					for _, l := range second {
						if c18Cmd(l) == "NICK" {
							n++
							if l != "NICK "+want {
								e.Fail("reconnect", "registration-nick-after-rename", in, fmt.Sprintf("second connect registered with %s, the client's current nick is %s", Q(l), Q(want)), params)
							}
						}
					}
					if n != 1 {
						e.Fail("reconnect", "registration-lines", in, "second connect: "+joinQ(second), params)
					}
				}
			}
		}
		return e.Done()
	}}
}

// c18TrafficJob: the keep-alive period does not depend on other traffic or on flood protection, and a TLS
// configuration that is merely present does not switch TLS on.
func c18TrafficJob() Job {
	name := "config/keepalive-under-traffic"
	return Job{Name: name, Cost: 2, Run: func(jc *JobCtx) *JobResult {
		e := NewEnum(name)
		for _, srv := range []c18Server{c18Servers[0], c18Servers[1]} {
			for _, fc := range []bool{false, true} {
				for _, ch := range []time.Duration{0, 2500 * time.Millisecond, time.Second} {
					if fc && ch == time.Second {
						continue // a line a second runs into the flood limit: write times are C10's subject
					}
					for _, tc := range []bool{false, true} {
						for _, tr := range []bool{false, true} {
							c := c18Cfg{Server: srv, PingFreq: 3 * time.Second, FloodCtl: fc, Chatter: ch, TLSCfg: tc, Tracking: tr, Welcome: tr}
							e.Case(c.String())
							c18RunConfig(e, c)
						}
					}
				}
			}
		}
		for _, srv := range c18Servers {
			for _, pass := range []string{"", "sekrit"} {
				c := c18Cfg{Server: srv, Pass: pass, TLSCfg: true}
				e.Case(c.String())
				c18RunConfig(e, c)
				// a Config built as a struct literal: whole identity given, or one that Client() has to repair
				for _, lit := range []string{"full", "nil-me", "no-ident"} {
					for _, cp := range []bool{false, true} {
						for _, tr := range []bool{false, true} {
							c := c18Cfg{Server: srv, Pass: pass, Cap: cp, Literal: lit, Tracking: tr, Welcome: tr, PingFreq: 3 * time.Second}
							e.Case(c.String())
							c18RunConfig(e, c)
						}
					}
				}
				// other wordings of the welcome (the mask is its last word)
				for _, wt := range []string{"bang", "at"} {
					for _, tr := range []bool{false, true} {
						c := c18Cfg{Server: srv, Pass: pass, Welcome: true, WText: wt, Tracking: tr, Given: true}
						e.Case(c.String())
						c18RunConfig(e, c)
					}
				}
				// the same through ConnectTo, with and without its password argument
				for _, via := range []string{"to", "to-pass", "to-other"} {
					for _, cp := range []bool{false, true} {
						c := c18Cfg{Server: srv, Pass: pass, Cap: cp, Via: via}
						e.Case(c.String())
						c18RunConfig(e, c)
					}
				}
			}
		}
		return e.Done()
	}}
}

// c18LenJob (thorough): tokens of every length from..to-1 in trailing form, one session per 47 lengths.
func c18LenJob(from, to int) Job {
	name := fmt.Sprintf("ping/length/%03d-%03d", from, to-1)
	return Job{Name: name, Cost: 2, Run: func(jc *JobCtx) *JobResult {
		e := NewEnum(name)
		for _, welcome := range []bool{false, true} {
			by := map[string]string{}
			var seg []string
			for n := from; n < to; n++ {
				t := strings.Repeat("y", n-1) + "z"
				by["PING :"+t] = t
				seg = append(seg, "PING :"+t, c18Chat)
				e.Case(fmt.Sprintf("%v|len%d", welcome, n))
			}
			if !c18RunPings(e, c18Script{Welcome: welcome, Segments: [][]string{seg}}, by) {
				for n := from; n < to; n++ {
					t := strings.Repeat("y", n-1) + "z"
					if !c18RunPings(e, c18Script{Welcome: welcome, Segments: [][]string{{"PING :" + t}}}, by) {
						break
					}
				}
			}
		}
		return e.Done()
	}}
}

func init() {
	Register(&Prop{
		ID:   "C18",
		Rule: "configurations: full product of NewConfig(nick) defaults / given ident+name x password unset/set x negotiation on/off x SSL on/off x 6 server spellings (name, IPv4, bracketed IPv6; with and without port) x PingFreq {0, -1s, 3s} (thorough: also -1ns, 0.7s, 1.5s, 7s, 11s) x the settings given to Client() / SSL, password, negotiation and PingFreq written through Conn.Config() after Client() saw the opposite values / the server too x Connect() called once / once more while the connection is up, plus (job keepalive-under-traffic) flood protection on/off x a user line every 2.5 s / 1 s / never x Config.SSLConfig set with SSL off, Config struct literals (identity given in full / nil / without ident, which Client() replaces by its documented defaults), welcome texts with '!' or '@' before the mask, and connects through ConnectTo(server) / ConnectTo(server, password) / ConnectTo(another server, named with a port if the first had none and the other way round), each run as a session of two connects on one client with 10 s of virtual time after each (SSL: the server closes during the handshake, only the dial address and the failure of Connect are observed); PING answers: 14 tokens (single byte, with spaces, leading colon, empty-but-present, inner colons, 400 bytes, ...) in trailing form, with a source, in middle form and with a second parameter where legal; each alone in five surroundings, all ordered pairs in one write with chat between or after, and all variants in one session (three rounds, seven rotations, with and without the client's own keep-alive running), before and after the welcome; thorough: also every token length 1..470; one case = one configuration / one probe script, distinct = distinct configurations / scripts",
		Assumptions: []string{
			"the address is observed at the registered proxy dialler (Config.Proxy set); the direct net.Dialer path passes the same Config.Server string",
			"for the bracketed IPv6 literal without port the port is expected to be appended to the literal as written ([::1]:6667)",
			"with negotiation enabled the server stays silent about CAP, so registration proceeds without waiting",
			"SSL: the TLS handshake cannot succeed against the in-memory socket, so registration lines are not observed with SSL on",
			"a PING without any parameter is outside the statement and not sent here",
			"own PINGs are timed in virtual time with flood control off: the k-th is written exactly k*PingFreq after the connect",
		},
		Jobs: func(tier string) []Job {
			var jobs []Job
			for _, srv := range c18Servers {
				for _, ssl := range []bool{false, true} {
					pfs := []time.Duration{0, -time.Second, 3 * time.Second}
					if tier == "thorough" {
						// more periods; none has a multiple at the very end of the 10 s window
						pfs = append(pfs, -time.Nanosecond, 700*time.Millisecond, 1500*time.Millisecond, 7*time.Second, 11*time.Second)
					}
					for _, pf := range pfs {
						jobs = append(jobs, c18ConfigJob(srv, ssl, pf))
					}
				}
			}
			if tier == "thorough" {
				for from := 1; from < 471; from += 47 {
					jobs = append(jobs, c18LenJob(from, from+47))
				}
			}
			jobs = append(jobs, c18RenameJob(), c18TrafficJob())
			n := len(c18Pings())
			for _, w := range []bool{false, true} {
				jobs = append(jobs, c18SingleJob(w))
				for f := 0; f < n; f++ {
					jobs = append(jobs, c18PairJob(f, w))
				}
				for _, pf := range []time.Duration{0, 3 * time.Second} {
					jobs = append(jobs, c18LongJob(w, pf))
				}
			}
			return jobs
		},
	})
}
