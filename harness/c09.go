package harness

import (
	"fmt"
	"strings"

	"github.com/fluffle/goirc/client"

	"verif/explore"
	"verif/vx"
)

// C09: outgoing lines reach the server in order, once each.

type c09Params struct {
	Senders int  // concurrent user tasks
	Lines   int  // lines per user task
	Events  int  // incoming events, each answered by a foreground handler...
	HLines  int  // ...with this many lines
	Slow    bool // server reads slowly: 64-byte pipe drained line by line by a server task
	ChanCap int  // 0 real (32) | 1 | 2
	Overlap bool // senders start while the registration lines are still in flight
	Pings   int  // server PINGs arriving meanwhile (answered by the built-in handler)
	HPong   bool // the foreground handler sends a PONG of its own between its first and second line
}

func (p c09Params) name() string {
	n := fmt.Sprintf("sendorder/senders=%dx%d/events=%dx%d/slow=%v/cap=%d/overlap=%v", p.Senders, p.Lines, p.Events, p.HLines, p.Slow, p.ChanCap, p.Overlap)
	if p.Pings > 0 || p.HPong {
		n += fmt.Sprintf("/pings=%d/hpong=%v", p.Pings, p.HPong)
	}
	return n
}

// every line carries bytes that make "byte for byte" observable: format verbs, control bytes, quotes,
// backslashes, UTF-8, NUL; every third line is long
const c09Special = "100%s %d %% %v %! tab\there \x01x\x01 \"q\" \\ back h\u00e9llo \u2603 \x00nul"

func c09Text(who string, i int) string {
	t := fmt.Sprintf("%s-%d %s", who, i, c09Special)
	if i%3 == 2 {
		t += " " + strings.Repeat("long-", 60)
	}
	return t
}

func c09Scenario(p c09Params) *explore.Scenario {
	sc := &explore.Scenario{
		Family: "sendorder",
		Name:   p.name(),
		Params: map[string]interface{}{"senders": p.Senders, "lines": p.Lines, "events": p.Events, "hlines": p.HLines, "slow": p.Slow, "chancap": p.ChanCap, "overlap": p.Overlap, "pings": p.Pings, "hpong": p.HPong},
		Opt:    vx.Options{ChanCap: p.ChanCap, MaxSteps: 40000},
	}
	total := 2 + p.Senders*p.Lines + p.Events*p.HLines + p.Pings
	if p.HPong {
		total += p.Events
	}
	sc.Main = func(env *vx.Env) {
		c := NewClient("me", nil)
		c.HandleFunc("PRIVMSG", func(conn *client.Conn, line *client.Line) {
			for i := 0; i < p.HLines; i++ {
				if i%2 == 0 {
					conn.Privmsg("#c", c09Text("h-"+line.Text(), i))
				} else {
					conn.Raw("PRIVMSG #c :" + c09Text("h-"+line.Text(), i))
				}
				if i == 0 && p.HPong {
					conn.Pong("hp-" + line.Text())
				}
			}
		})
		var vc *vx.Conn
		env.ConnSetup = func(x *vx.Conn) {
			vc = x
			if p.Slow {
				x.PipeCap = 64
			}
		}
		if err := c.Connect(); err != nil {
			return
		}
		if !p.Overlap {
			vx.Quiesce()
		}
		if p.Slow {
			env.Go("server-reader", func() {
				for n := 0; n < total; n++ {
					if _, ok := vc.ReadLine(); !ok {
						return
					}
				}
			})
		}
		done := vx.NewCounter("senders-done")
		for s := 0; s < p.Senders; s++ {
			s := s
			env.Go(fmt.Sprintf("sender%d", s), func() {
				for i := 0; i < p.Lines; i++ {
					if (s+i)%2 == 0 {
						c.Raw("PRIVMSG #c :" + c09Text(fmt.Sprintf("u%d", s), i))
					} else {
						c.Privmsg("#c", c09Text(fmt.Sprintf("u%d", s), i))
					}
				}
				done.Add(1)
			})
		}
		if p.Events > 0 {
			env.Go("server-events", func() {
				for e := 0; e < p.Events; e++ {
					vc.SendLines(fmt.Sprintf(":o!u@h PRIVMSG #c :e%d", e))
				}
			})
		}
		if p.Pings > 0 {
			env.Go("server-pings", func() {
				for i := 0; i < p.Pings; i++ {
					vc.SendLines(fmt.Sprintf("PING :p%d", i))
				}
			})
		}
		done.WaitFor(p.Senders)
		vx.Quiesce()
		vx.Observe("ev", fmt.Sprintf("end connected=%v", c.Connected()))
	}
	sc.Check = func(o *vx.Outcome) []explore.Finding {
		if fs := stdOutcome(o); fs != nil {
			return fs
		}
		var fs []explore.Finding
		if len(o.Conns) != 1 {
			return []explore.Finding{{Oracle: "no-connection", Msg: "no socket"}}
		}
		tr := o.Conns[0].Transcript()
		bad := func(id, msg string) {
			fs = append(fs, explore.Finding{Oracle: id, Msg: msg + " :: wire=" + Q(tr)})
		}
		if !strings.HasSuffix(tr, "\r\n") && tr != "" {
			bad("partial-line", "the wire ends in the middle of a line although the client is idle")
		}
		lines := o.Conns[0].Lines()
		// expected multiset
		want := map[string]int{} // the registration lines are C18's business; here only their relative order
		for s := 0; s < p.Senders; s++ {
			for i := 0; i < p.Lines; i++ {
				want["PRIVMSG #c :"+c09Text(fmt.Sprintf("u%d", s), i)]++
			}
		}
		for e := 0; e < p.Events; e++ {
			for i := 0; i < p.HLines; i++ {
				want["PRIVMSG #c :"+c09Text(fmt.Sprintf("h-e%d", e), i)]++
			}
		}
		for i := 0; i < p.Pings; i++ {
			want[fmt.Sprintf("PONG :p%d", i)]++
		}
		if p.HPong {
			for e := 0; e < p.Events; e++ {
				want[fmt.Sprintf("PONG :hp-e%d", e)]++
			}
		}
		for i, l := range lines {
			lines[i] = NormLine(l)
		}
		got := map[string]int{}
		for _, l := range lines {
			if strings.HasPrefix(l, "NICK ") || strings.HasPrefix(l, "USER ") {
				continue
			}
			got[l]++
		}
		for l, n := range want {
			if got[l] < n {
				bad("line-lost", fmt.Sprintf("line %q was handed to the client but never written (connection still up)", l))
			} else if got[l] > n {
				bad("line-duplicated", fmt.Sprintf("line %q written %d times", l, got[l]))
			}
		}
		for l := range got {
			if want[l] == 0 {
				bad("line-corrupted", fmt.Sprintf("line %q on the wire was never issued", l))
			}
		}
		// per-sender order
		last := map[string]int{}
		for _, l := range lines {
			var who string
			var s, i, e int
			if n, _ := fmt.Sscanf(l, "PRIVMSG #c :u%d-%d ", &s, &i); n == 2 {
				who = fmt.Sprintf("sender%d", s)
			} else if n, _ := fmt.Sscanf(l, "PRIVMSG #c :h-e%d-%d ", &e, &i); n == 2 {
				who = fmt.Sprintf("handler-e%d", e)
			} else {
				continue
			}
			if prev, ok := last[who]; ok && i < prev {
				bad("order", fmt.Sprintf("lines of %s are out of order on the wire (%d after %d)", who, i, prev))
			}
			last[who] = i
		}
		// the handler's own PONG sits between its first and second line
		if p.HPong && p.HLines >= 2 {
			for e := 0; e < p.Events; e++ {
				pos := map[string]int{}
				for j, l := range lines {
					pos[l] = j + 1
				}
				a, b, c := pos["PRIVMSG #c :"+c09Text(fmt.Sprintf("h-e%d", e), 0)], pos[fmt.Sprintf("PONG :hp-e%d", e)], pos["PRIVMSG #c :"+c09Text(fmt.Sprintf("h-e%d", e), 1)]
				if a > 0 && b > 0 && c > 0 && !(a < b && b < c) {
					bad("order", fmt.Sprintf("the handler for event e%d issued line 0, a PONG, line 1 in this order but the wire has them at positions %d, %d, %d", e, a, b, c))
				}
			}
		}
		// registration order (same goroutine: the caller of Connect)
		ni, ui := -1, -1
		for j, l := range lines {
			if l == "NICK me" {
				ni = j
			}
			if strings.HasPrefix(l, "USER ") {
				ui = j
			}
		}
		if ni >= 0 && ui >= 0 && ui < ni {
			bad("order", "USER was written before NICK although issued after it by the same goroutine")
		}
		ev := o.Log("ev")
		if len(ev) == 0 || ev[len(ev)-1] != "end connected=true" {
			bad("connection-dropped", "the connection went down during the scenario")
		}
		return fs
	}
	return sc
}

func init() {
	Register(&Prop{
		ID:   "C09",
		Rule: "2-3 concurrent user senders x 1-3 lines (alternating Raw / Privmsg), optionally a foreground handler answering 1-2 incoming events with 1-2 lines, server reading at once or through a 64-byte pipe drained line by line by a server task, queue capacity 32 / 2 / 1, senders started after or during registration; small harnesses are explored without any deviation bound (state cache), the rest within K<=2-3; distinct = distinct wire transcripts per scenario",
		Assumptions: []string{
			"interleavings at synchronisation/channel/socket granularity (DESIGN.md 3.8)",
			"unbounded mode relies on the happens-before state cache; cache-on/off agreement is cross-checked at a small bound",
		},
		Jobs: func(tier string) []Job {
			var jobs []Job
			unb := []explore.Budget{{K: -1, E: -1}}
			b2 := []explore.Budget{{0, 0}, {1, 0}, {2, 0}}
			b3 := []explore.Budget{{0, 0}, {1, 0}, {2, 0}, {3, 0}}
			add := func(p c09Params, bs []explore.Budget, variants []int, cost int, cross bool) {
				spec := ExploreSpec{Sc: c09Scenario(p), Variants: variants, Budgets: bs, Cache: true}
				if cross {
					spec.CrossChk = &explore.Budget{K: 2}
				}
				jobs = append(jobs, ExploreJob("C09", spec, cost))
			}
			// unbounded: every interleaving
			add(c09Params{Senders: 2, Lines: 1}, unb, []int{1}, 50, true)
			add(c09Params{Senders: 2, Lines: 1, ChanCap: 1}, unb, []int{1}, 50, false)
			add(c09Params{Senders: 2, Lines: 1, Slow: true, ChanCap: 1}, unb, []int{1}, 60, false)
			add(c09Params{Senders: 2, Lines: 2}, unb, []int{1}, 500, false)
			add(c09Params{Senders: 2, Lines: 2, Slow: true}, unb, []int{1}, 500, false)
			add(c09Params{Senders: 2, Lines: 2, ChanCap: 1}, unb, []int{1}, 500, false)
			if tier == "thorough" {
				add(c09Params{Senders: 2, Lines: 2, Slow: true, ChanCap: 1}, unb, []int{1}, 500, false)
				add(c09Params{Senders: 2, Lines: 3, Slow: true}, unb, []int{1}, 500, false)
				add(c09Params{Senders: 3, Lines: 1}, unb, []int{1}, 500, false)
				add(c09Params{Senders: 2, Lines: 1, Overlap: true}, unb, []int{1}, 500, false)
			}
			bs := b2
			if tier == "thorough" {
				bs = b3
			}
			for _, cap := range []int{0, 2, 1} {
				for _, slow := range []bool{false, true} {
					add(c09Params{Senders: 2, Lines: 2, Slow: slow, ChanCap: cap}, bs, []int{1, 2, 3}, 20, false)
					add(c09Params{Senders: 3, Lines: 2, Slow: slow, ChanCap: cap}, bs, []int{1, 2, 3}, 30, false)
					add(c09Params{Senders: 2, Lines: 3, Events: 1, HLines: 2, Slow: slow, ChanCap: cap}, bs, []int{1, 2, 3}, 30, false)
					add(c09Params{Senders: 1, Lines: 2, Events: 2, HLines: 2, Slow: slow, ChanCap: cap}, bs, []int{1, 2, 3}, 30, false)
				}
				add(c09Params{Senders: 2, Lines: 2, ChanCap: cap, Overlap: true}, bs, []int{1, 2, 3}, 30, false)
			}
			// server PINGs answered by the built-in handler while others are sending; a handler mixing lines and a PONG
			for _, cap := range []int{0, 1} {
				for _, slow := range []bool{false, true} {
					add(c09Params{Senders: 2, Lines: 2, Slow: slow, ChanCap: cap, Pings: 2}, bs, []int{1, 2, 3}, 30, false)
					add(c09Params{Senders: 1, Lines: 2, Events: 2, HLines: 2, Slow: slow, ChanCap: cap, Pings: 1, HPong: true}, bs, []int{1, 2, 3}, 30, false)
				}
			}
			// many lines through the real queue: senders really block on the 32-slot queue when the server is slow
			add(c09Params{Senders: 2, Lines: 40, Slow: true}, []explore.Budget{{0, 0}, {1, 0}}, []int{1, 2, 3}, 60, false)
			return jobs
		},
	})
}
