package harness

import (
	"fmt"
	"sort"
	"strings"
	"time"

	"github.com/fluffle/goirc/state"

	"verif/explore"
	"verif/vx"
)

// C14 (concurrency half): calls made concurrently from several goroutines are
// free of data races and behave as if executed one at a time in an order
// consistent with real time.
//
// Package state is instrumented at statement granularity (a scheduling point
// before every statement, a Touch record for every field access), so that
// without correct locking the statement-level interleavings are explored, and a
// happens-before monitor (vector clocks over lock / spawn / harness edges)
// flags unordered conflicting accesses. Every interleaving of the harness is
// explored (no deviation bound; the state cache terminates the search).
// Linearizability is judged against the tracker itself run sequentially.

type c14Op struct {
	Name string
	Do   func(st state.Tracker) string
}

func c14Ops() []c14Op {
	pr := func(p *state.ChanPrivs, ok bool) string { return fmt.Sprintf("%s/%v", privStr(p), ok) }
	return []c14Op{
		{"Me", func(st state.Tracker) string { return nickStr(st.Me()) }},
		{"GetNick(a)", func(st state.Tracker) string { return nickStr(st.GetNick("a")) }},
		{"GetChannel(#x)", func(st state.Tracker) string { return chanStr(st.GetChannel("#x")) }},
		{"IsOn(#x,a)", func(st state.Tracker) string { return pr(st.IsOn("#x", "a")) }},
		{"NewNick(a)", func(st state.Tracker) string { return nickStr(st.NewNick("a")) }},
		{"DelNick(a)", func(st state.Tracker) string { return nickStr(st.DelNick("a")) }},
		{"ReNick(a,a2)", func(st state.Tracker) string { return nickStr(st.ReNick("a", "a2")) }},
		{"ReNick(me,me2)", func(st state.Tracker) string { return nickStr(st.ReNick("me", "me2")) }},
		{"NickInfo(a)", func(st state.Tracker) string { return nickStr(st.NickInfo("a", "id", "host", "name")) }},
		{"NickModes(me,+i)", func(st state.Tracker) string { return nickStr(st.NickModes("me", "+i")) }},
		{"NewChannel(#x)", func(st state.Tracker) string { return chanStr(st.NewChannel("#x")) }},
		{"DelChannel(#x)", func(st state.Tracker) string { return chanStr(st.DelChannel("#x")) }},
		{"Topic(#x)", func(st state.Tracker) string { return chanStr(st.Topic("#x", "t")) }},
		{"ChannelModes(#x,+o a)", func(st state.Tracker) string { return chanStr(st.ChannelModes("#x", "+o", "a")) }},
		{"ChannelModes(#x,+nk key)", func(st state.Tracker) string { return chanStr(st.ChannelModes("#x", "+nk", "key")) }},
		{"Associate(#x,a)", func(st state.Tracker) string { return privStr(st.Associate("#x", "a")) }},
		{"Dissociate(#x,a)", func(st state.Tracker) string { st.Dissociate("#x", "a"); return "" }},
		{"Dissociate(#x,me)", func(st state.Tracker) string { st.Dissociate("#x", "me"); return "" }},
		{"Wipe", func(st state.Tracker) string { st.Wipe(); return "" }},
		{"String", func(st state.Tracker) string { _ = st.String(); return "" }},
		// a second channel: operations that span channels (Wipe, DelNick, ReNick, Me) must be atomic across them
		{"GetChannel(#y)", func(st state.Tracker) string { return chanStr(st.GetChannel("#y")) }},
		{"DelChannel(#y)", func(st state.Tracker) string { return chanStr(st.DelChannel("#y")) }},
		{"IsOn(#y,a)", func(st state.Tracker) string { return pr(st.IsOn("#y", "a")) }},
	}
}

var c14Starts = []struct {
	Name  string
	Setup func(st state.Tracker)
}{
	{"initial", func(st state.Tracker) {}},
	{"nick-a", func(st state.Tracker) { st.NewNick("a") }},
	{"me-on-x", func(st state.Tracker) { st.NewChannel("#x"); st.Associate("#x", "me") }},
	{"me+a-on-x", func(st state.Tracker) {
		st.NewChannel("#x")
		st.Associate("#x", "me")
		st.NewNick("a")
		st.Associate("#x", "a")
	}},
	{"me+a-on-x-opped", func(st state.Tracker) {
		st.NewChannel("#x")
		st.Associate("#x", "me")
		st.NewNick("a")
		st.Associate("#x", "a")
		st.ChannelModes("#x", "+o", "a")
		st.Topic("#x", "old")
		st.NickInfo("a", "i0", "h0", "n0")
	}},
	{"a-without-channel+x", func(st state.Tracker) {
		st.NewChannel("#x")
		st.Associate("#x", "me")
		st.NewNick("a")
	}},
	{"me+a-on-x+y", func(st state.Tracker) {
		st.NewNick("a")
		for _, c := range []string{"#x", "#y"} {
			st.NewChannel(c)
			st.Associate(c, "me")
			st.Associate(c, "a")
		}
	}},
}

func c14Vector(st state.Tracker) string {
	var v []string
	v = append(v, "Me="+nickStr(st.Me()))
	v = append(v, "chan="+chanStr(st.GetChannel("#x")))
	v = append(v, "chany="+chanStr(st.GetChannel("#y")))
	for _, n := range []string{"me", "me2", "a", "a2"} {
		v = append(v, n+"="+nickStr(st.GetNick(n)))
	}
	return strings.Join(v, " ;; ")
}

// c14Scenario: tasks[i] is the list of op indices task i performs, in order.
func c14Scenario(start int, tasks [][]int, ops []c14Op, seqCache map[string][]string) *explore.Scenario {
	var tn []string
	nops := 0
	for _, t := range tasks {
		var on []string
		for _, k := range t {
			on = append(on, ops[k].Name)
			nops++
		}
		tn = append(tn, strings.Join(on, ">"))
	}
	name := fmt.Sprintf("tracker-concurrent/start=%s/%s", c14Starts[start].Name, strings.Join(tn, " || "))
	sc := &explore.Scenario{
		Family: "tracker-concurrent",
		Name:   name,
		Params: map[string]interface{}{"start": c14Starts[start].Name, "tasks": strings.Join(tn, " || ")},
		Opt:    vx.Options{MaxSteps: 20000, StmtMode: true},
	}
	sc.Main = func(env *vx.Env) {
		st := state.NewTracker("me")
		c14Starts[start].Setup(st)
		vx.StmtMode(true)
		done := vx.NewCounter("done")
		for i, t := range tasks {
			i, t := i, t
			env.Go(fmt.Sprintf("caller%d", i), func() {
				for j, k := range t {
					vx.Observe("h", fmt.Sprintf("call %d %d", i, j))
					res := ops[k].Do(st)
					vx.Observe("h", fmt.Sprintf("ret %d %d %s", i, j, res))
				}
				done.Add(1)
			})
		}
		done.WaitFor(len(tasks))
		vx.StmtMode(false)
		vx.Observe("h", "final "+c14Vector(st))
	}
	// sequential reference: run a total order of the operations on a fresh tracker (outside any controlled run)
	seq := func(order [][2]int) []string {
		key := fmt.Sprint(start, tasks, order)
		if r, ok := seqCache[key]; ok {
			return r
		}
		st := state.NewTracker("me")
		c14Starts[start].Setup(st)
		res := make([]string, 0, len(order)+1)
		for _, o := range order {
			res = append(res, ops[tasks[o[0]][o[1]]].Do(st))
		}
		res = append(res, c14Vector(st))
		seqCache[key] = res
		return res
	}
	sc.Check = func(o *vx.Outcome) []explore.Finding {
		var fs []explore.Finding
		for _, r := range o.Races {
			fs = append(fs, explore.Finding{Oracle: "data-race", Msg: "unordered conflicting accesses inside the tracker: " + r.String()})
			break
		}
		if f := stdOutcome(o); f != nil {
			return append(fs, f...)
		}
		h := o.Log("h")
		type rec struct {
			call, ret int
			res       string
		}
		recs := map[[2]int]*rec{}
		final := ""
		for pos, r := range h {
			f := strings.SplitN(r, " ", 4)
			switch f[0] {
			case "call":
				var i, j int
				fmt.Sscan(f[1], &i)
				fmt.Sscan(f[2], &j)
				recs[[2]int{i, j}] = &rec{call: pos, ret: -1}
			case "ret":
				var i, j int
				fmt.Sscan(f[1], &i)
				fmt.Sscan(f[2], &j)
				rc := recs[[2]int{i, j}]
				rc.ret = pos
				if len(f) > 3 {
					rc.res = f[3]
				}
			case "final":
				final = strings.TrimPrefix(r, "final ")
			}
		}
		// enumerate total orders consistent with program order and real-time order
		var all [][2]int
		for i, t := range tasks {
			for j := range t {
				all = append(all, [2]int{i, j})
			}
		}
		var order [][2]int
		used := map[[2]int]bool{}
		found := false
		var try func()
		try = func() {
			if found {
				return
			}
			if len(order) == len(all) {
				exp := seq(order)
				for k, o2 := range order {
					if recs[o2].res != exp[k] {
						return
					}
				}
				if final != exp[len(exp)-1] {
					return
				}
				found = true
				return
			}
			for _, c := range all {
				if used[c] {
					continue
				}
				// c may come next only if every operation that returned before c was called is already placed
				ok := true
				for _, d := range all {
					if d != c && !used[d] && recs[d].ret >= 0 && recs[d].ret < recs[c].call {
						ok = false
					}
				}
				if !ok {
					continue
				}
				used[c] = true
				order = append(order, c)
				try()
				order = order[:len(order)-1]
				used[c] = false
			}
		}
		try()
		if !found {
			fs = append(fs, explore.Finding{Oracle: "not-linearizable", Msg: "no sequential order of the calls consistent with real time explains the observed results and final state :: " + strings.Join(h, " ; ")})
		}
		return fs
	}
	return sc
}

// c14ConcJob explores every interleaving of a group of scenarios.
func c14ConcJob(name string, start int, combos [][][]int, ops []c14Op) Job {
	find := func(scName string) *explore.Scenario {
		for _, tasks := range combos {
			if sc := c14Scenario(start, tasks, ops, map[string][]string{}); sc.Name == scName {
				return sc
			}
		}
		return nil
	}
	return Job{Name: name, Cost: len(combos), FindScenario: find, Run: func(jc *JobCtx) *JobResult {
		begin := time.Now()
		r := &JobResult{Job: name, Kind: "explore", Exhaustive: true}
		seqCache := map[string][]string{}
		distinct := map[string]bool{}
		maxEn := 0
		for ci, tasks := range combos {
			if jc.Expired() {
				r.Exhaustive = false
				r.CapsHit = append(r.CapsHit, fmt.Sprintf("deadline after %d of %d scenarios", ci, len(combos)))
				break
			}
			sc := c14Scenario(start, tasks, ops, seqCache)
			res := explore.Explore(sc, 1, explore.Budget{K: -1, E: -1}, explore.Config{Cache: true, DetCheck: 1, Deadline: jc.Deadline, MaxExecs: 400000})
			r.Evaluations += res.Executions
			r.Traces += res.Complete
			r.Transitions += res.Steps
			r.States += res.States
			r.Nondet += res.Nondet
			if res.MaxEnabled > maxEn {
				maxEn = res.MaxEnabled
			}
			for h := range res.Outcomes {
				distinct[sc.Name+"#"+h] = true
			}
			if !res.Exhaustive {
				r.Exhaustive = false
				if len(r.CapsHit) < 10 {
					r.CapsHit = append(r.CapsHit, sc.Name+": "+strings.Join(res.CapsHit, ","))
				}
			}
			if ci == 0 && len(res.Sample) > 0 {
				r.AddSample(map[string]interface{}{"scenario": sc.Name, "executions": res.Executions, "observations": res.Sample})
			}
			for i := range res.Violations {
				ev := res.Violations[i]
				r.Violations = append(r.Violations, Violation{Family: sc.Family, Scenario: sc.Name, Params: sc.Params, Oracle: ev.Oracle, Msg: ev.Msg, Detail: ev.Detail, Devs: ev.Devs, Sched: &ev, Job: name})
			}
			if len(r.Violations) >= 6 {
				r.Exhaustive = false
				r.CapsHit = append(r.CapsHit, "stopped after 6 violations")
				break
			}
		}
		r.Bounds = append(r.Bounds, fmt.Sprintf("unbounded (all interleavings) over %d scenarios", len(combos)))
		r.MaxEnabled = maxEn
		var ds []string
		for d := range distinct {
			ds = append(ds, d)
		}
		sort.Strings(ds)
		if len(ds) > 3000 {
			ds = ds[:3000]
		}
		r.Distinct = ds
		r.DistinctN = int64(len(distinct))
		r.WallS = time.Since(begin).Seconds()
		return r
	}}
}

func c14ConcJobs(tier string) []Job {
	ops := c14Ops()
	var jobs []Job
	// 2 tasks x 1 op: all pairs (unordered) from every start state
	for s := range c14Starts {
		for a := range ops {
			var combos [][][]int
			for b := a; b < len(ops); b++ {
				combos = append(combos, [][]int{{a}, {b}})
			}
			jobs = append(jobs, c14ConcJob(fmt.Sprintf("tracker-concurrent/2x1/start=%s/first=%s", c14Starts[s].Name, ops[a].Name), s, combos, ops))
		}
	}
	// 3 tasks x 1 op and 2 tasks x 2 ops over a reduced, colliding alphabet
	if tier != "thorough" {
		red := []int{2, 6, 11} // GetChannel, ReNick(a,a2), DelChannel
		for _, a := range red {
			for _, b := range red {
				for _, c := range red {
					if a <= b && b <= c {
						jobs = append(jobs, c14ConcJob(fmt.Sprintf("tracker-concurrent/3x1/start=%s/%s,%s,%s", c14Starts[4].Name, ops[a].Name, ops[b].Name, ops[c].Name), 4, [][][]int{{{a}, {b}, {c}}}, ops))
					}
				}
			}
		}
		for _, t := range [][][]int{{{13, 2}, {6, 2}}, {{6, 11}, {2, 13}}, {{11, 2}, {11, 6}}, {{2, 6}, {13, 2}}, {{18, 2}, {6, 13}}, {{15, 16}, {2, 2}}} {
			jobs = append(jobs, c14ConcJob(fmt.Sprintf("tracker-concurrent/2x2/start=%s/%s>%s||%s>%s", c14Starts[4].Name, ops[t[0][0]].Name, ops[t[0][1]].Name, ops[t[1][0]].Name, ops[t[1][1]].Name), 4, [][][]int{t}, ops))
		}
		return jobs
	}
	red := []int{1, 2, 5, 6, 11, 13, 15, 17, 18} // GetNick, GetChannel, DelNick, ReNick(a,a2), DelChannel, ChannelModes(+o a), Associate, Dissociate(me), Wipe
	red22 := []int{2, 6, 11, 13}
	for _, s := range []int{3, 4} {
		for _, a := range red {
			for _, b := range red {
				var c3 [][][]int
				for _, c := range red {
					if a <= b && b <= c {
						c3 = append(c3, [][]int{{a}, {b}, {c}})
					}
				}
				if len(c3) > 0 {
					jobs = append(jobs, c14ConcJob(fmt.Sprintf("tracker-concurrent/3x1/start=%s/first=%s,%s", c14Starts[s].Name, ops[a].Name, ops[b].Name), s, c3, ops))
				}
			}
		}
		for _, a := range red22 {
			for _, b := range red22 {
				for _, c := range red22 {
					var c22 [][][]int
					for _, d := range red22 {
						c22 = append(c22, [][]int{{a, b}, {c, d}})
					}
					jobs = append(jobs, c14ConcJob(fmt.Sprintf("tracker-concurrent/2x2/start=%s/first=%s>%s||%s", c14Starts[s].Name, ops[a].Name, ops[b].Name, ops[c].Name), s, c22, ops))
				}
			}
		}
	}
	return jobs
}

// c14SnapJobs is provided by c14_snap.go (the sequential "private snapshots" half).
var c14SnapJobs func(tier string) []Job

func init() {
	Register(&Prop{
		ID:   "C14",
		Rule: "(a) snapshots: in every state of the tracker's quick closure every returned value is deep-imaged, scribbled over, and compared; (b) concurrency: every interleaving (no bound; statement-granularity scheduling points inside package state) of 2 callers x 1 operation for all pairs of 20 operations from 6 start states, and of 3x1 / 2x2 callers over 9 colliding operations, judged by a happens-before race monitor and by linearizability against the tracker run sequentially; distinct = distinct call/return histories per scenario",
		Assumptions: []string{
			"package state is instrumented at statement granularity with field-access records; whole-struct copies through complex expressions are not recorded (the linearizability and snapshot oracles still see their effects)",
			"the Go race detector in a free-running pass is a sampling tool of a different family and is not the deciding step",
		},
		Jobs: func(tier string) []Job {
			jobs := c14ConcJobs(tier)
			if c14SnapJobs != nil {
				jobs = append(jobs, c14SnapJobs(tier)...)
			}
			return jobs
		},
	})
}

func init() { c14SnapJobs = c14SnapshotJobs }
