//go:build verifexports

package harness

import "github.com/fluffle/goirc/client"

// c15HaveInternal: the export shim gives access to the internal handler set (where the built-in handlers live).
const c15HaveInternal = true

func c15HandleInternal(c *client.Conn, name string, h client.HandlerFunc) {
	c.VerifHandleInternal(name, h)
}
