//go:build !verifexports

package harness

// c11HaveSplit: without the export shim the in-package jobs of C11 are
// skipped (noted in the job result); the wire-level jobs still run.
const c11HaveSplit = false

func c11Split(msg string, splitLen int) []string { return nil }
