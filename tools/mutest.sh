#!/bin/bash
# usage: tools/mutest.sh <patch-file> <prop>...   -- applies a patch to /repo, runs the repo tests and the given checks, reverts.
set -u
export GOFLAGS=-mod=mod GOPROXY=off GOSUMDB=off GOTOOLCHAIN=local
patch=$(readlink -f "$1"); shift
cd /repo || exit 2
if ! git apply --check "$patch" 2>/dev/null; then echo "PATCH DOES NOT APPLY: $patch"; exit 2; fi
git apply "$patch"
trap 'cd /repo && git checkout -- . ' EXIT
if go build ./... 2>/dev/null; then echo "builds: yes"; else echo "builds: NO"; fi
if go test -vet=off -count=1 ./... >/tmp/mutest.$$.log 2>&1; then echo "repo tests: pass"; else echo "repo tests: FAIL"; grep -E "^(---|FAIL)" /tmp/mutest.$$.log | head -5; fi
rm -f /tmp/mutest.$$.log
cd /verif
for p in "$@"; do
  out=$(VERIF_BUDGET_S=${VERIF_BUDGET_S:-200} ./bin/verif check "$p" 2>&1); rc=$?
  echo "check $p: exit=$rc $(echo "$out" | grep -c '^VIOLATION') violation line(s)"
  echo "$out" | grep -A2 '^VIOLATION' | cut -c1-260 | head -12
done
