package harness

// C14, sequential half ("snapshots"): values returned by the tracker are
// private copies. The concurrency half (and the registration of Prop "C14")
// lives elsewhere; this file only provides c14SnapshotJobs.
//
// In every state of C12's quick closures (rebuilt from its shortest history on
// a fresh tracker), for every value-returning call L of the closure alphabet
// (Me, GetNick, GetChannel, IsOn, NewNick, ReNick, DelNick, NickInfo,
// NickModes, NewChannel, DelChannel, Topic, ChannelModes, Associate with
// arguments from the universe) that answers non-nil:
//
//  A  take the answer r, the tracker's full observable state, and the answers
//     of every query of the alphabet (so also of L again when L is a query);
//     scribble over everything reachable from r -- first the fields behind
//     the pointers r holds (strings, every bool, Key, Limit, every *ChanPrivs
//     in the membership map, *NickMode / *ChanMode), then the membership map
//     itself (entries replaced, removed, added under used and unused names)
//     and the mode pointer -- and require
//       the observable state unchanged   (returned-value-aliases-tracker-state)
//       the other answers unchanged      (returned-values-share-storage)
//  B  for every letter L2 of the alphabet, on a fresh replay: take r, record
//     its deep image, apply L2 to the tracker, require r == image
//                                        (later-change-alters-returned-value)
//
// The deep image is the canonical text of C12 (every field, sorted keys).

import (
	"fmt"
	"reflect"
	"sort"
	"strings"

	"github.com/fluffle/goirc/state"
)

func c14FlipPrivs(p *state.ChanPrivs) {
	if p == nil {
		return
	}
	p.Owner, p.Admin, p.Op, p.HalfOp, p.Voice = !p.Owner, !p.Admin, !p.Op, !p.HalfOp, !p.Voice
}

func c14FlipNickMode(m *state.NickMode) {
	if m == nil {
		return
	}
	m.Bot, m.Invisible, m.Oper, m.WallOps, m.HiddenHost, m.SSL = !m.Bot, !m.Invisible, !m.Oper, !m.WallOps, !m.HiddenHost, !m.SSL
}

func c14FlipChanMode(m *state.ChanMode) {
	if m == nil {
		return
	}
	m.Private, m.Secret, m.ProtectedTopic, m.NoExternalMsg, m.Moderated = !m.Private, !m.Secret, !m.ProtectedTopic, !m.NoExternalMsg, !m.Moderated
	m.InviteOnly, m.OperOnly, m.SSLOnly = !m.InviteOnly, !m.OperOnly, !m.SSLOnly
	m.Registered, m.AllSSL = !m.Registered, !m.AllSSL
	m.Key += "~scribbled"
	m.Limit += 7
}

// c14ScribbleMap: phase 1 writes through the entries' pointers; phase 2
// replaces every entry, removes the first (sorted) key, and adds entries under
// every name of names not present plus one unused name.
func c14ScribbleMap(mp map[string]*state.ChanPrivs, phase int, names []string) {
	if mp == nil {
		return
	}
	if phase == 1 {
		for _, p := range mp {
			c14FlipPrivs(p)
		}
		return
	}
	keys := make([]string, 0, len(mp))
	for k := range mp {
		keys = append(keys, k)
	}
	sort.Strings(keys)
	for _, k := range keys {
		mp[k] = &state.ChanPrivs{Owner: true, Admin: true, Op: true, HalfOp: true, Voice: true}
	}
	if len(keys) > 0 {
		delete(mp, keys[0])
	}
	for _, n := range names {
		if _, ok := mp[n]; !ok {
			mp[n] = &state.ChanPrivs{Owner: true}
		}
	}
	mp["~scribbled"] = &state.ChanPrivs{Voice: true}
}

// c14Scribble overwrites everything reachable from a returned value.
func c14Scribble(r implResult, phase int, u *trackerNames) {
	switch r.Kind {
	case 'n':
		n := r.N
		if phase == 1 {
			n.Nick += "~scribbled"
			n.Ident += "~scribbled"
			n.Host += "~scribbled"
			n.Name += "~scribbled"
			c14FlipNickMode(n.Modes)
		} else {
			n.Modes = &state.NickMode{Bot: true, Invisible: true, Oper: true, WallOps: true, HiddenHost: true, SSL: true}
		}
		c14ScribbleMap(n.Channels, phase, u.Chans)
	case 'c':
		c := r.C
		if phase == 1 {
			c.Name += "~scribbled"
			c.Topic += "~scribbled"
			c14FlipChanMode(c.Modes)
		} else {
			c.Modes = &state.ChanMode{Private: true, Secret: true, ProtectedTopic: true, NoExternalMsg: true, Moderated: true,
				InviteOnly: true, OperOnly: true, SSLOnly: true, Registered: true, AllSSL: true, Key: "~other", Limit: 99}
		}
		c14ScribbleMap(c.Nicks, phase, u.Nicks)
	case 'p', 'i':
		if phase == 1 {
			c14FlipPrivs(r.P)
		} else {
			*r.P = state.ChanPrivs{Owner: !r.P.Owner, Admin: true, Op: true, HalfOp: true, Voice: true}
		}
	}
}

// c14FieldGuard: image and scribbling enumerate the fields of the snapshot
// types by hand; notice when a type grew.
func c14FieldGuard() []string {
	var bad []string
	for _, x := range []struct {
		v    interface{}
		want int
	}{{state.Nick{}, 6}, {state.Channel{}, 4}, {state.NickMode{}, 6}, {state.ChanMode{}, 12}, {state.ChanPrivs{}, 5}} {
		if t := reflect.TypeOf(x.v); t.NumField() != x.want {
			bad = append(bad, fmt.Sprintf("%s has %d fields, the harness images and scribbles %d", t, t.NumField(), x.want))
		}
	}
	return bad
}

type c14Run struct {
	e          *Enum
	u          *c12Universe
	trans      int64
	fails      int
	stateSteps int // length of the history of the state being checked
}

func (r *c14Run) fail(oracle string, hist []trackerOp, what, msg string) {
	r.fails++
	r.e.Fail("snapshots", oracle, histText(hist)+" ; "+what, msg, map[string]interface{}{"universe": r.u.Name, "ops": opsParam(hist), "steps": len(hist), "state_steps": r.stateSteps})
}

// c14ReplayInput re-runs the snapshot checks in the state of a recorded violation.
func c14ReplayInput(v *Violation) int {
	hist, ok := opsFromParams(v)
	if !ok {
		return 2
	}
	n, _ := v.Params["state_steps"].(float64)
	if int(n) > len(hist) {
		n = float64(len(hist))
	}
	hist = hist[:int(n)]
	for _, cfg := range c14SnapshotClosures() {
		if cfg.U.Name != fmt.Sprint(v.Params["universe"]) {
			continue
		}
		e := NewEnum("replay")
		r := &c14Run{e: e, u: cfg.U}
		fmt.Println("state reached by:", histText(hist))
		r.state(hist, replayModel(hist))
		rc := 0
		for _, x := range e.R.Violations {
			fmt.Printf("FINDING oracle=%s input=%s\n  %s\n", x.Oracle, x.Input, x.Msg)
			if x.Oracle == v.Oracle {
				rc = 1
			}
		}
		if rc == 1 {
			fmt.Println("REPRODUCED")
		} else {
			fmt.Println("NOT REPRODUCED")
		}
		return rc
	}
	fmt.Println("unknown universe", v.Params["universe"])
	return 2
}

type c14Other struct {
	q     trackerOp
	r     implResult
	image string
}

// state runs the snapshot checks in the state reached by hist.
func (r *c14Run) state(hist []trackerOp, m *trackerModel) {
	u := r.u
	names := &u.trackerNames
	r.stateSteps = len(hist)
	for _, l := range u.Letters {
		if !l.returnsValue() || m.Unspecified(l) {
			continue
		}
		full := append(append(make([]trackerOp, 0, len(hist)+2), hist...), l)
		crashed := false
		hasValue := false
		func() {
			defer func() {
				if x := recover(); x != nil {
					r.fail("crash", full, "take and scribble the returned value", fmt.Sprintf("panic: %v", x))
					crashed = true
				}
			}()
			// ---- A: scribbling the answer must not show anywhere
			st := replayImpl(hist)
			res := implCall(st, l)
			if !res.hasValue() {
				return
			}
			hasValue = true
			r.trans++
			obs0 := implObserveText(st, names)
			var others []c14Other
			for _, q := range u.Letters {
				if !isPureQuery(q) || q.Kind == opString {
					continue
				}
				if rq := implCall(st, q); rq.hasValue() {
					others = append(others, c14Other{q, rq, string(rq.appendTo(nil))})
				}
			}
			for phase := 1; phase <= 2; phase++ {
				what := "fields behind the pointers it holds"
				if phase == 2 {
					what = "its membership map entries and mode pointer"
				}
				c14Scribble(res, phase, names)
				if obs1 := implObserveText(st, names); obs1 != obs0 {
					r.fail("returned-value-aliases-tracker-state", full, "overwrite the returned value ("+what+")",
						"overwriting the value returned by "+l.String()+" ("+what+") changed what the tracker answers: "+c14Diff(obs1, obs0))
					return
				}
				for _, o := range others {
					if now := string(o.r.appendTo(nil)); now != o.image {
						same := ""
						if reflect.DeepEqual(o.q, l) {
							same = " (the same query, asked twice in a row)"
						}
						r.fail("returned-values-share-storage", append(full, o.q), "overwrite the first returned value ("+what+")",
							"overwriting the value returned by "+l.String()+" changed the value returned by "+o.q.String()+same+": was "+o.image+", now "+now)
						return
					}
				}
			}
		}()
		if crashed || !hasValue || r.fails >= 20 {
			continue
		}
		// ---- B: later changes of the tracker must not show in the answer
		for _, l2 := range u.Letters {
			func() {
				defer func() {
					if x := recover(); x != nil {
						r.fail("crash", append(full, l2), "keep the value returned by the last-but-one call", fmt.Sprintf("panic: %v", x))
					}
				}()
				st := replayImpl(hist)
				res := implCall(st, l)
				image := string(res.appendTo(nil))
				implCall(st, l2)
				r.trans++
				if now := string(res.appendTo(nil)); now != image {
					r.fail("later-change-alters-returned-value", append(full, l2), "compare the value returned by "+l.String()+" before and after "+l2.String(),
						"the value returned by "+l.String()+" changed when "+l2.String()+" was applied to the tracker afterwards: was "+image+", now "+now)
				}
			}()
			if r.fails >= 20 {
				break
			}
		}
	}
}

func c14Diff(got, want string) string {
	g, w := strings.Split(got, "\n"), strings.Split(want, "\n")
	for i := 0; i < len(g) && i < len(w); i++ {
		if g[i] != w[i] {
			return "now " + g[i] + " | before " + w[i]
		}
	}
	return "now " + got + " | before " + want
}

// c14SnapshotClosures: C12's quick closures (2 nicks x 1 channel with every
// attribute letter; 3 nicks x 1 channel without nick attributes; 3 nicks x 2
// channels, relational letters: membership maps with two and three entries).
func c14SnapshotClosures() []c12ClosureCfg {
	cfgs := c12QuickClosures()
	for i := range cfgs {
		cfgs[i].ImplBFS = false
	}
	return cfgs
}

// c14SnapshotJobs returns the jobs of the sequential "snapshots" half of C14.
func c14SnapshotJobs(tier string) []Job {
	var jobs []Job
	for _, cfg := range c14SnapshotClosures() {
		cfg := cfg
		shards := cfg.Shards
		for k := 0; k < shards; k++ {
			k := k
			name := fmt.Sprintf("snapshots/%s/shard=%d.%d", cfg.U.Name, k, shards)
			jobs = append(jobs, Job{Name: name, Cost: 50, Run: func(jc *JobCtx) *JobResult {
				e := NewEnum(name)
				cl := c12GetClosure(cfg.U, cfg.MaxDepth)
				r := &c14Run{e: e, u: cfg.U}
				if k == 0 {
					for _, b := range c14FieldGuard() {
						e.Incomplete(b)
					}
				}
				states := 0
				for i := k; i < cl.N(); i += shards {
					hist := cl.History(i)
					m := replayModel(hist)
					e.Case(implObserveText(replayImpl(hist), &cfg.U.trackerNames))
					r.state(hist, m)
					states++
					if r.fails >= 20 {
						e.Incomplete(fmt.Sprintf("stopped after %d violations at state %d of %d", r.fails, i, cl.N()))
						break
					}
					if states%16 == 0 && jc.Expired() {
						e.Incomplete(fmt.Sprintf("deadline at state %d of %d", i, cl.N()))
						break
					}
				}
				if k == 0 {
					e.R.Bounds = append(e.R.Bounds, fmt.Sprintf("snapshots: every state of the closure over %s (%d states), every value-returning letter, every later letter", cfg.U.Name, cl.N()))
					if len(hist0(cl)) > 0 {
						e.Sample(map[string]interface{}{"state_history": histText(hist0(cl)), "checked": "every non-nil answer scribbled over; every answer compared with its image after each further letter"})
					}
				}
				res := e.Done()
				res.States = res.DistinctN
				res.Transitions = r.trans
				res.Evaluations = r.trans
				res.Traces = int64(states)
				return res
			}})
		}
	}
	return jobs
}

func hist0(cl *c12Closure) []trackerOp {
	if cl.N() == 0 {
		return nil
	}
	return cl.History(cl.N() - 1)
}
