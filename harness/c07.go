package harness

import (
	"context"
	"fmt"
	"strings"
	"time"

	"github.com/fluffle/goirc/client"

	"verif/explore"
	"verif/vx"
)

// C07: disconnect always completes, leaks nothing, and the client can reconnect.

type c07Params struct {
	Backlog  int    // inbound lines still unprocessed when the disconnect starts
	Segs     string // "one" | "many": the backlog arrives in one or many segments
	Mode     string // handler state when the disconnect starts: idle | gated (running) | sending (emitting Emit lines)
	Emit     int    // lines the first handler sends
	Stall    bool   // the server does not read: socket writes block once the pipe is full
	Cause    string // close | eof | readerr | writeerr | cancel
	FloodCtl bool
	UserSend int  // lines a user task is sending concurrently
	UserLate bool // that task is started at the moment of the cause, not before the backlog is built
	ChanCap  int  // 0 = real capacity (32); 2 = capacity-scaled abstraction
	Probe    bool // every handler calls the client's query API (Me, Connected, StateTracker, String) while it runs
	Tracking bool // state tracking on; the backlog consists of JOINs of other users
	Dead     bool // with Stall: the server never reads again (a dead peer), the blocked write only ends when the client closes its socket
	BGBusy   bool // a background handler of the first line is still running (blocked until the end of the scenario) when the connection ends
	OnConn   bool // the busy handler (gated / sending) is the CONNECTED handler, started by a welcome line, not the PRIVMSG handler
	LongQuit bool // a user task writes a 5000-byte line and QUIT just before the cause (the socket buffer is mid-line at teardown)
}

func (p c07Params) name() string {
	n := fmt.Sprintf("teardown/in=%d/%s/mode=%s/emit=%d/stall=%v/cause=%s/fc=%v/user=%d/cap=%d", p.Backlog, p.Segs, p.Mode, p.Emit, p.Stall, p.Cause, p.FloodCtl, p.UserSend, p.ChanCap)
	if p.UserLate {
		n += "/user-starts-at-cause"
	}
	if p.Probe {
		n += "/probe"
	}
	if p.Tracking {
		n += "/tracking"
	}
	if p.LongQuit {
		n += "/longquit"
	}
	if p.OnConn {
		n += "/on-connected"
	}
	if p.Dead {
		n += "/dead-peer"
	}
	if p.BGBusy {
		n += "/bg-busy"
	}
	return n
}

func (p c07Params) params() map[string]interface{} {
	return map[string]interface{}{"inbound_backlog": p.Backlog, "segs": p.Segs, "mode": p.Mode, "emit": p.Emit, "stall": p.Stall,
		"cause": p.Cause, "floodctl": p.FloodCtl, "user_send": p.UserSend, "user_late": p.UserLate, "chancap": p.ChanCap, "probe": p.Probe, "tracking": p.Tracking, "on_connected": p.OnConn, "longquit": p.LongQuit, "dead_peer": p.Dead, "bg_busy": p.BGBusy}
}

func c07Scenario(p c07Params) *explore.Scenario {
	sc := &explore.Scenario{
		Family: "teardown",
		Name:   p.name(),
		Params: p.params(),
		Opt:    vx.Options{ChanCap: p.ChanCap, MaxSteps: 60000, Horizon: 2 * time.Hour},
		// "every disconnect finishes": an execution that is still going after 60000 steps does not
		StepCapIsLivelock: true,
	}
	sc.Main = func(env *vx.Env) {
		c := NewClient("me", func(cfg *client.Config) { cfg.Flood = !p.FloodCtl })
		if p.Tracking {
			c.EnableStateTracking()
		}
		first := vx.NewEvent("first-handled")
		gate := vx.NewEvent("gate")
		probe := func(conn *client.Conn) {
			if p.Probe {
				_ = conn.Me().Nick
				_ = conn.Connected()
				if st := conn.StateTracker(); st != nil {
					_ = st.GetChannel("#c")
				}
				_ = conn.String()
			}
		}
		c.HandleFunc("JOIN", func(conn *client.Conn, line *client.Line) { probe(conn) })
		c.HandleBG("JOIN", client.HandlerFunc(func(conn *client.Conn, line *client.Line) { probe(conn) }))
		busy := "PRIVMSG"
		if p.OnConn {
			busy = client.CONNECTED
			c.HandleFunc("PRIVMSG", func(conn *client.Conn, line *client.Line) { probe(conn) })
		}
		c.HandleFunc(busy, func(conn *client.Conn, line *client.Line) {
			if !p.OnConn && line.Text() != "m0" {
				probe(conn)
				return
			}
			vx.Observe("ev", "handler-enter")
			first.Set()
			switch p.Mode {
			case "gated":
				// hold the event loop in the first line until the harness has built the backlog
				gate.Wait()
			case "sending":
				for i := 0; i < p.Emit; i++ {
					// (what follows the line break must never reach the wire, however the line leaves the queue)
					conn.Raw(fmt.Sprintf("PRIVMSG #c :echo %d\r\nGLUED :never to be sent", i))
				}
			}
			probe(conn)
			vx.Observe("ev", "handler-exit")
		})
		c.HandleFunc(client.DISCONNECTED, func(conn *client.Conn, line *client.Line) {
			vx.Observe("ev", "DISCONNECTED")
		})
		bgRelease := vx.NewEvent("bg-release")
		if p.BGBusy || p.Cause == "close-from-bg" {
			c.HandleBG("PRIVMSG", client.HandlerFunc(func(conn *client.Conn, line *client.Line) {
				if line.Text() != "m0" {
					return
				}
				if p.Cause == "close-from-bg" {
					// Close from a background handler is inside the claim (only foreground / internal handlers are
					// excluded: the event loop runs those)
					first.Wait()
					vx.Observe("ev", "cause-begin close-from-bg")
					conn.Close()
					vx.Observe("ev", "close-ret")
					return
				}
				vx.Observe("ev", "bg-busy-enter")
				bgRelease.Wait() // a background handler may take as long as it likes; a disconnect does not wait for it
				vx.Observe("ev", "bg-busy-exit")
			}))
		}
		var vc *vx.Conn
		env.ConnSetup = func(x *vx.Conn) { vc = x }
		ctx, cancel := context.WithCancel(context.Background())
		if err := c.ConnectContext(ctx); err != nil {
			vx.Observe("ev", "connect-error "+err.Error())
			return
		}
		vx.Quiesce() // registration is on the wire
		if p.Stall {
			vc.StallWrites(1) // from now on the server does not read: the next write blocks
		}
		switch {
		case p.Tracking:
			var sb strings.Builder
			sb.WriteString(":me!ident@host JOIN #c\r\n")
			sb.WriteString(Privmsgs(0, 1))
			for i := 0; i < p.Backlog; i++ {
				fmt.Fprintf(&sb, ":u%d!i@h JOIN #c\r\n", i)
			}
			vc.Send(sb.String())
		case p.Segs == "many":
			for i := 0; i <= p.Backlog; i++ {
				vc.Send(Privmsgs(i, 1))
			}
		case p.OnConn:
			vc.Send(welcome + "\r\n" + Privmsgs(0, p.Backlog+1))
		default:
			vc.Send(Privmsgs(0, p.Backlog+1))
		}
		userSender := func() {
			env.GoBlocked("user-sender", func() {
				// sends issued after DISCONNECTED are outside the claim and may block for ever
				for i := 0; i < p.UserSend; i++ {
					c.Raw(fmt.Sprintf("PRIVMSG #c :user %d\r\nGLUED :never to be sent", i))
				}
			})
		}
		if p.UserSend > 0 && !p.UserLate {
			userSender()
		}
		first.Wait()
		vx.Quiesce() // the receive goroutine has queued everything it can; a sending handler is blocked or done
		if p.Mode == "gated" {
			gate.Set()
		}
		if p.LongQuit {
			c.Raw(c07LongLine)
			c.Quit("bye")
		}
		if p.UserSend > 0 && p.UserLate {
			userSender()
		}
		if p.Cause != "close-from-bg" {
			vx.Observe("ev", "cause-begin "+p.Cause)
		}
		switch p.Cause {
		case "close-from-bg":
			// the background handler above does it
		case "close":
			c.Close()
			vx.Observe("ev", "close-ret")
		case "eof":
			vc.EOF()
		case "error-eof":
			// how servers really end a session: an ERROR line, then they close
			vc.SendLines("ERROR :Closing Link: me[host.example] (Quit: bye)")
			vc.EOF()
		case "readerr":
			vc.FailRead(vx.ErrInjected)
		case "writeerr":
			vc.FailNextWrite()
			vc.SendLines("PING :provoke-a-write")
		case "writeerr-partial":
			// half of the line is taken, then a net.Error that calls itself temporary
			vc.FailNextWritePartially()
			vc.SendLines("PING :provoke-a-write")
			vx.Quiesce()
			if c.Connected() {
				// a client that carries on after a temporary error is as good as one that gives up, as long as the
				// wire stays intact and it really carries on: it answers a PING; the server ends this connection then
				n := len(vc.Lines())
				vc.SendLines("PING :provoke-a-write")
				vx.Quiesce()
				if c.Connected() {
					answered := false
					for _, l := range vc.Lines()[n:] {
						if NormLine(l) == "PONG :provoke-a-write" {
							answered = true
						}
					}
					vx.Observe("ev", fmt.Sprintf("survived-partial-write answers=%v", answered))
					vc.EOF()
				}
			}
		case "cancel":
			cancel()
		}
		vx.Quiesce()
		if p.Stall && !p.Dead {
			// the server was only slow: it reads again. (A write that is blocked on the
			// socket cannot notice a context cancellation; what is required is that the
			// teardown completes once the write has completed or failed.)
			vc.StallWrites(0)
			vx.Quiesce()
		}
		if p.FloodCtl {
			vx.Sleep(10 * time.Minute) // let every rate-limit hold expire
			vx.Quiesce()
		}
		vx.Observe("ev", fmt.Sprintf("end connected=%v", c.Connected()))
		if p.BGBusy {
			bgRelease.Set()
			vx.Quiesce()
		}
	}
	sc.Check = func(o *vx.Outcome) []explore.Finding {
		var fs []explore.Finding
		ev := o.Log("ev")
		if p.BGBusy {
			// everything up to "end" happens while the background handler is still busy
			for i, r := range ev {
				if r == "bg-busy-exit" {
					ev = append(append([]string{}, ev[:i]...), ev[i+1:]...)
					break
				}
			}
		}
		switch o.Kind {
		case "crash":
			return []explore.Finding{{Oracle: "crash", Msg: o.Crash.Task + ": " + o.Crash.Value + " @ " + o.Crash.Top}}
		case "step-cap":
			return []explore.Finding{{Oracle: "livelock", Msg: fmt.Sprintf("the scenario is still taking steps after %d of them (a finishing execution takes a few thousand): something polls instead of finishing (cause %s); waiting: %s", o.Steps, p.Cause, o.BlockedSig())}}
		case "deadlock":
			return []explore.Finding{{Oracle: "deadlock", Msg: "disconnect never completes (cause " + p.Cause + "); blocked: " + o.BlockedSig()}}
		}
		if n := count(ev, "DISCONNECTED"); n != 1 {
			fs = append(fs, explore.Finding{Oracle: "disconnected-count", Msg: fmt.Sprintf("%d DISCONNECTED events for one connection after cause %s; blocked: %s", n, p.Cause, o.BlockedSig())})
		}
		if l := ClientLeaks(o); len(l) > 0 {
			fs = append(fs, explore.Finding{Oracle: "leak", Msg: "client goroutines alive after the disconnect: " + strings.Join(l, " | ")})
		}
		if count(ev, "survived-partial-write answers=false") > 0 {
			fs = append(fs, explore.Finding{Oracle: "kept-but-mute", Msg: "the client kept the connection after a write that reported a temporary error, but a PING received afterwards is never answered: the connection neither ends nor works"})
		}
		if len(ev) > 0 && ev[len(ev)-1] != "end connected=false" {
			fs = append(fs, explore.Finding{Oracle: "still-connected", Msg: "Connected() is true after the disconnect: " + ev[len(ev)-1]})
		}
		// whatever reached the wire before the teardown must be whole lines the client was asked to send
		// (C08 / C09 in the presence of a teardown); the last line may be cut short by the closing socket
		for _, vc := range o.Conns {
			if msg := c07WireIntegrity(p, vc.Transcript()); msg != "" {
				fs = append(fs, explore.Finding{Oracle: "wire-torn", Msg: msg})
			}
		}
		return fs
	}
	return sc
}

var c07LongLine = "PRIVMSG #c :LONG" + strings.Repeat("x", 5000)

// c07WireIntegrity: every complete line on the wire is one the scenario issues, the unterminated rest (if the
// socket was closed mid-line) is a prefix of one.
func c07WireIntegrity(p c07Params, tr string) string {
	known := func(l string) bool {
		switch {
		case l == "NICK me", strings.HasPrefix(l, "USER ident "), l == c07LongLine, l == "QUIT :bye", NormLine(l) == "PONG :provoke-a-write":
			return true
		case strings.HasPrefix(l, "PRIVMSG #c :echo "), strings.HasPrefix(l, "PRIVMSG #c :user "):
			rest := l[strings.LastIndex(l, " ")+1:]
			for _, c := range rest {
				if c < '0' || c > '9' {
					return false
				}
			}
			return rest != ""
		case l == "MODE #c", l == "WHO #c", strings.HasPrefix(l, "WHO u"):
			return p.Tracking
		}
		return false
	}
	parts := strings.Split(tr, "\r\n")
	for _, l := range parts[:len(parts)-1] {
		if !known(l) {
			return "a line on the wire was never issued (torn or glued lines): " + Q(l[:min(len(l), 120)])
		}
	}
	tail := parts[len(parts)-1]
	if tail == "" {
		return ""
	}
	for _, full := range []string{"NICK me", "USER ident 12 * :Real Name", c07LongLine, "QUIT :bye", "PONG :provoke-a-write", "MODE #c", "WHO #c"} {
		if strings.HasPrefix(full, tail) {
			return ""
		}
	}
	for _, pre := range []string{"PRIVMSG #c :echo ", "PRIVMSG #c :user ", "WHO u"} {
		if strings.HasPrefix(pre, tail) || (strings.HasPrefix(tail, pre) && known(tail+"0")) {
			return ""
		}
	}
	return "the wire ends in a fragment that is not the beginning of any issued line: " + Q(tail[:min(len(tail), 120)])
}

func min(a, b int) int {
	if a < b {
		return a
	}
	return b
}

// ---------------------------------------------------------------- reconnect

type c07RecParams struct {
	Cause    string // how each connection but the last ends: close | eof | cancel | writeerr
	From     string // reconnect issued from: handler (inside DISCONNECTED) | task (woken by it)
	Cycles   int    // total number of connections (2 or 3)
	Tracking bool
	Welcome  string // same | changed | none : the 001 confirms the nick, changes it, or is not sent
	Backlog  int    // inbound lines pending when a connection is ended
	Direct   bool   // no proxy: the client's own net.Dialer (shim) makes every connection
	ChanCap  int
}

func (p c07RecParams) name() string {
	n := fmt.Sprintf("reconnect/cause=%s/from=%s/cycles=%d/track=%v/welcome=%s/in=%d/cap=%d", p.Cause, p.From, p.Cycles, p.Tracking, p.Welcome, p.Backlog, p.ChanCap)
	if p.Direct {
		n += "/direct"
	}
	return n
}

func c07ReconnectScenario(p c07RecParams) *explore.Scenario {
	sc := &explore.Scenario{
		Family: "reconnect",
		Name:   p.name(),
		Params: map[string]interface{}{"cause": p.Cause, "from": p.From, "cycles": p.Cycles, "tracking": p.Tracking, "welcome": p.Welcome, "inbound_backlog": p.Backlog, "chancap": p.ChanCap, "direct": p.Direct},
		Opt:    vx.Options{ChanCap: p.ChanCap, MaxSteps: 60000, Horizon: 24 * time.Hour},
	}
	sc.Main = func(env *vx.Env) {
		c := NewClient("me", func(cfg *client.Config) {
			if p.Direct {
				cfg.Proxy = ""
			}
		})
		if p.Tracking {
			c.EnableStateTracking()
		}
		var ctxs []context.CancelFunc
		connects := vx.NewCounter("connects")
		wake := vx.NewCounter("wake")
		doConnect := func(who string) {
			ctx, cancel := context.WithCancel(context.Background())
			ctxs = append(ctxs, cancel)
			err := c.ConnectContext(ctx)
			vx.Observe("ev", fmt.Sprintf("connect-ret %s ok=%v", who, err == nil))
			if err == nil {
				connects.Add(1)
			}
		}
		c.HandleFunc(client.CONNECTED, func(conn *client.Conn, line *client.Line) { vx.Observe("ev", "CONNECTED") })
		c.HandleFunc(client.DISCONNECTED, func(conn *client.Conn, line *client.Line) {
			vx.Observe("ev", "DISCONNECTED")
			if connects.Peek() >= p.Cycles {
				return
			}
			if p.From == "handler" {
				doConnect("handler")
			} else {
				wake.Add(1)
			}
		})
		if p.From == "task" {
			env.Go("reconnector", func() {
				for i := 1; i < p.Cycles; i++ {
					wake.WaitFor(i)
					doConnect("task")
				}
			})
		}
		env.ConnSetup = func(x *vx.Conn) {
			switch p.Welcome {
			case "same":
				x.Preload(":irc.example 001 me :Welcome me!ident@host.example\r\n")
			case "changed":
				x.Preload(fmt.Sprintf(":irc.example 001 me%d :Welcome me%d!ident@host.example\r\n", x.Idx, x.Idx))
			}
			if p.Tracking {
				nick := "me"
				if p.Welcome == "changed" {
					nick = fmt.Sprintf("me%d", x.Idx) // the name the welcome has just given the client
				}
				x.Preload(fmt.Sprintf(":%s!ident@host.example JOIN #c%d\r\n", nick, x.Idx))
			}
		}
		doConnect("root")
		for k := 1; k <= p.Cycles; k++ {
			connects.WaitFor(k)
			vx.Quiesce()
			// the contexts of the connections that are over are cancelled now (an application cleaning up): that is no
			// business of the connection that is up
			for j := 0; j < k-1 && j < len(ctxs); j++ {
				ctxs[j]()
			}
			vx.Sleep(10 * time.Minute) // far longer than any timeout the configuration knows (Config.Timeout is 60 s)
			vx.Quiesce()
			// the k-th connection has been up and idle for a while: it must still be there
			me, cfgMe := c.Me(), c.Config().Me
			vx.Observe("ev", fmt.Sprintf("check conn=%d up=%v me-nil=%v cfgme-nil=%v", k, c.Connected(), me == nil, cfgMe == nil))
			if p.Tracking {
				st := c.StateTracker()
				others := 0
				for j := 0; j < k-1; j++ {
					if st.GetChannel(fmt.Sprintf("#c%d", j)) != nil {
						others++
					}
				}
				// ... and the reset happened when the connection was made, not later: what this connection has told since is there
				own := st.GetChannel(fmt.Sprintf("#c%d", k-1)) != nil
				vx.Observe("ev", fmt.Sprintf("tracker conn=%d own-channel=%v stale-channels=%d", k, own, others))
			}
			conns := env.Conns()
			if len(conns) < k {
				vx.Observe("ev", fmt.Sprintf("no-socket conn=%d", k))
				break
			}
			vc := conns[k-1]
			if p.Backlog > 0 {
				vc.Send(Privmsgs(0, p.Backlog))
			}
			vx.Observe("ev", fmt.Sprintf("cause-begin conn=%d", k))
			cause := p.Cause
			if k == p.Cycles {
				cause = "eof"
			}
			switch cause {
			case "close":
				c.Close()
			case "eof":
				vc.EOF()
			case "quit":
				// the application says QUIT, the server closes
				c.Quit("bye")
				vx.Quiesce()
				vc.EOF()
			case "error-eof":
				vc.SendLines("ERROR :Closing Link: me[host.example] (Quit: bye)")
				vc.EOF()
			case "cancel":
				ctxs[k-1]()
			case "writeerr":
				vc.FailNextWrite()
				vc.SendLines("PING :provoke-a-write")
			}
		}
		vx.Quiesce()
		vx.Observe("ev", fmt.Sprintf("end connected=%v sockets=%d", c.Connected(), len(env.Conns())))
	}
	sc.Check = func(o *vx.Outcome) []explore.Finding {
		if fs := stdOutcome(o); fs != nil {
			if o.Kind == "deadlock" {
				fs[0].Msg = "reconnect scenario did not finish; " + fs[0].Msg + " :: " + strings.Join(o.Log("ev"), "; ")
			}
			return fs
		}
		var fs []explore.Finding
		ev := o.Log("ev")
		bad := func(id, msg string) {
			fs = append(fs, explore.Finding{Oracle: id, Msg: msg + " :: " + strings.Join(ev, "; ")})
		}
		connects := count(ev, "connect-ret root ok=true") + count(ev, "connect-ret handler ok=true") + count(ev, "connect-ret task ok=true")
		if connects != p.Cycles {
			bad("reconnect-failed", fmt.Sprintf("%d of %d connects succeeded", connects, p.Cycles))
		}
		if n := count(ev, "DISCONNECTED"); n != connects {
			bad("disconnected-count", fmt.Sprintf("%d DISCONNECTED events for %d established connections", n, connects))
		}
		if n := count(ev, "CONNECTED"); (p.Welcome == "same" || p.Welcome == "changed") && n != connects {
			bad("fresh-connection-not-welcomed", fmt.Sprintf("every connection was welcomed with 001 and stayed up for ten minutes, but CONNECTED was delivered %d times for %d connections", n, connects))
		}
		for _, r := range ev {
			if strings.HasPrefix(r, "check ") {
				if strings.Contains(r, "up=false") {
					bad("new-connection-killed", "a fresh connection went down although nothing ended it: "+r)
				}
				if strings.Contains(r, "me-nil=true") || strings.Contains(r, "cfgme-nil=true") {
					bad("me-nil", "Me() / Config().Me is nil: "+r)
				}
			}
			if strings.HasPrefix(r, "tracker ") && !strings.HasSuffix(r, "stale-channels=0") {
				bad("tracker-not-reset", "the tracker still holds channels of a previous connection: "+r)
			}
			if strings.HasPrefix(r, "tracker ") && strings.Contains(r, "own-channel=false") {
				bad("tracker-reset-late", "the channel this connection joined ten minutes ago is not tracked: the tracker was reset after the connection was made, not when: "+r)
			}
		}
		for i, vc := range o.Conns {
			// REGISTER is dispatched by the caller of Connect concurrently with the event
			// loop, so other lines may precede it; NICK then USER must be there.
			ls := vc.Lines()
			ni, ui := -1, -1
			for j, l := range ls {
				if ni < 0 && strings.HasPrefix(l, "NICK ") {
					ni = j
				}
				if ui < 0 && strings.HasPrefix(l, "USER ") {
					ui = j
				}
			}
			if ni < 0 || ui < 0 || ui < ni {
				bad("registration-missing", fmt.Sprintf("connection %d: NICK/USER not sent: %v", i+1, ls))
			}
		}
		if len(ev) > 0 && !strings.HasPrefix(ev[len(ev)-1], "end connected=false") {
			bad("still-connected", "Connected() true at the end")
		}
		if l := ClientLeaks(o); len(l) > 0 {
			bad("leak", "client goroutines alive at the end: "+strings.Join(l, " | "))
		}
		return fs
	}
	return sc
}

func init() {
	Register(&Prop{
		ID:   "C07",
		Rule: "every execution within the deviation budgets of (a) teardown scenarios = inbound backlog {0,1,33,34,66,70,300} in one or many segments x handler state {idle, running, sending m in {1,33,65,70,300} lines with the server reading or stalled} x cause {Close, EOF, read error, write error, context cancel} x flood control x concurrent user sender, at the real queue capacity 32 and capacity-scaled to 2 (backlogs {0,1,3,4,6,7}); (b) reconnect scenarios = 2-3 connect/disconnect cycles, reconnect from the DISCONNECTED handler or from a task woken by it, tracking on/off, welcome confirming / changing the nick; distinct = distinct canonical observation per scenario",
		Assumptions: []string{
			"interleavings at synchronisation/channel/socket/timer granularity (DESIGN.md 3.8)",
			"capacity-scaled scenarios (chancap=2) are an abstraction of the 32-slot queues; unscaled ones are the real thing",
			"'bounded time' is rendered as: the execution terminates (no deadlock, no step cap) within the virtual horizon",
		},
		Jobs: c07Jobs,
	})
}

func c07Jobs(tier string) []Job {
	var jobs []Job
	thorough := tier == "thorough"
	add := func(p c07Params, bs []explore.Budget, cost int) {
		jobs = append(jobs, ExploreJob("C07", ExploreSpec{Sc: c07Scenario(p), Variants: []int{1, 2, 3}, Budgets: bs, Cache: true}, cost))
	}
	b1 := []explore.Budget{{0, 0}, {1, 0}}
	b2 := []explore.Budget{{0, 0}, {1, 0}, {2, 0}}
	b3 := []explore.Budget{{0, 0}, {1, 0}, {2, 0}, {3, 0}}
	causes := []string{"close", "eof", "readerr", "writeerr", "cancel"}
	// unscaled: inbound backlog
	for _, bl := range []int{0, 1, 33, 34, 64, 65, 66, 70} {
		for _, cs := range causes {
			bs := b1
			if thorough {
				bs = b2
			} else if (bl == 34 || bl == 64 || bl == 66) && cs != "close" {
				continue // quick tier: the in-between sizes only for Close
			}
			add(c07Params{Backlog: bl, Segs: "one", Mode: "gated", Cause: cs}, bs, 10+bl)
		}
		if thorough || bl == 1 || bl == 70 {
			add(c07Params{Backlog: bl, Segs: "many", Mode: "gated", Cause: "close"}, b1, 10+bl)
		}
	}
	if thorough {
		for _, cs := range causes {
			add(c07Params{Backlog: 300, Segs: "one", Mode: "gated", Cause: cs}, b1, 400)
		}
		add(c07Params{Backlog: 300, Segs: "many", Mode: "gated", Cause: "close"}, b1, 400)
	}
	// unscaled: outbound backlog from a handler, server reading / stalled
	for _, em := range []int{1, 33, 65, 70} {
		for _, cs := range causes {
			for _, stall := range []bool{false, true} {
				if !stall && cs != "close" && em != 70 {
					continue
				}
				add(c07Params{Backlog: 1, Segs: "one", Mode: "sending", Emit: em, Stall: stall, Cause: cs}, b1, 10+em)
			}
		}
	}
	if thorough {
		for _, cs := range causes {
			add(c07Params{Backlog: 1, Segs: "one", Mode: "sending", Emit: 300, Stall: true, Cause: cs}, b1, 300)
		}
	}
	// handlers (user and built-in) that use the client's query API while the teardown is in progress
	for _, cs := range causes {
		for _, bl := range []int{1, 33} {
			add(c07Params{Backlog: bl, Segs: "one", Mode: "gated", Cause: cs, Probe: true}, b1, 20+bl)
			add(c07Params{Backlog: bl, Segs: "one", Mode: "gated", Cause: cs, Probe: true, Tracking: true}, b1, 30+bl)
		}
		add(c07Params{Backlog: 3, Segs: "one", Mode: "gated", Cause: cs, Probe: true, Tracking: true, ChanCap: 2}, b2, 20)
	}
	// a user task that starts sending at the very moment of the cause (its lines carry an injected second command)
	for _, cs := range causes {
		add(c07Params{Backlog: 1, Segs: "one", Mode: "idle", Cause: cs, UserSend: 5, UserLate: true}, b2, 20)
	}
	add(c07Params{Backlog: 1, Segs: "one", Mode: "idle", Cause: "cancel", UserSend: 40, UserLate: true}, b1, 30)
	// a write that takes half of a line and reports a temporary error
	for _, bl := range []int{0, 1} {
		add(c07Params{Backlog: bl, Segs: "one", Mode: "gated", Cause: "writeerr-partial"}, b1, 10)
	}
	add(c07Params{Backlog: 1, Segs: "one", Mode: "sending", Emit: 33, Stall: true, Cause: "writeerr-partial"}, b1, 40)
	add(c07Params{Backlog: 1, Segs: "one", Mode: "idle", Cause: "writeerr-partial", UserSend: 5, UserLate: true}, b2, 20)
	// the server announces the end with an ERROR line before it closes
	for _, bl := range []int{0, 1, 33} {
		add(c07Params{Backlog: bl, Segs: "one", Mode: "gated", Cause: "error-eof"}, b1, 10+bl)
	}
	add(c07Params{Backlog: 1, Segs: "one", Mode: "idle", Cause: "error-eof", Probe: true, Tracking: true}, b2, 20)
	add(c07Params{Backlog: 1, Segs: "one", Mode: "sending", Emit: 33, Stall: true, Cause: "error-eof"}, b1, 40)
	// background handlers: Close called from one, and one that is still busy when the connection ends
	for _, mode := range []string{"idle", "gated"} {
		add(c07Params{Backlog: 2, Segs: "one", Mode: mode, Cause: "close-from-bg", ChanCap: 2}, b2, 20)
	}
	add(c07Params{Backlog: 1, Segs: "one", Mode: "sending", Emit: 7, Stall: true, Cause: "close-from-bg", ChanCap: 2}, b2, 20)
	for _, cs := range causes {
		add(c07Params{Backlog: 2, Segs: "one", Mode: "idle", Cause: cs, BGBusy: true}, b2, 20)
		add(c07Params{Backlog: 1, Segs: "one", Mode: "sending", Emit: 7, Stall: true, Cause: cs, BGBusy: true, ChanCap: 2}, b2, 20)
	}
	// a dead peer: the server stops reading for good. Close, EOF (a half-closed peer) and a read error close the
	// client's socket, which ends the blocked write; a cancelled context cannot (see 9.4), so it is left out here
	for _, cs := range causes {
		if cs == "writeerr" {
			continue // the injected write error ends the blocked write by itself
		}
		for _, em := range []int{3, 7} {
			add(c07Params{Backlog: 1, Segs: "one", Mode: "sending", Emit: em, Stall: true, Dead: true, Cause: cs, ChanCap: 2}, b2, 20)
		}
		add(c07Params{Backlog: 1, Segs: "one", Mode: "sending", Emit: 70, Stall: true, Dead: true, Cause: cs}, []explore.Budget{{0, 0}, {1, 0}}, 30)
		add(c07Params{Backlog: 2, Segs: "one", Mode: "idle", UserSend: 5, Stall: true, Dead: true, Cause: cs, ChanCap: 2}, b2, 20)
	}
	// the busy handler is the CONNECTED handler (dispatched from inside the built-in 001 handler)
	for _, cs := range causes {
		add(c07Params{Backlog: 2, Segs: "one", Mode: "gated", Cause: cs, OnConn: true}, b2, 20)
		for _, em := range []int{3, 7} {
			add(c07Params{Backlog: 1, Segs: "one", Mode: "sending", Emit: em, Stall: true, Cause: cs, OnConn: true, ChanCap: 2}, b2, 20)
		}
		add(c07Params{Backlog: 1, Segs: "one", Mode: "sending", Emit: 40, Stall: true, Cause: cs, OnConn: true}, []explore.Budget{{0, 0}, {1, 0}}, 30)
	}
	// a long line and QUIT in the socket buffer when the teardown starts
	for _, cs := range causes {
		for _, stall := range []bool{false, true} {
			add(c07Params{Backlog: 1, Segs: "one", Mode: "idle", Cause: cs, Stall: stall, LongQuit: true}, b2, 30)
		}
	}
	// idle handler, user sender, flood control
	for _, cs := range causes {
		add(c07Params{Backlog: 0, Segs: "one", Mode: "idle", Cause: cs}, b2, 5)
		add(c07Params{Backlog: 1, Segs: "one", Mode: "idle", Cause: cs, UserSend: 40, Stall: true}, b1, 40)
		add(c07Params{Backlog: 1, Segs: "one", Mode: "sending", Emit: 8, Cause: cs, FloodCtl: true}, b1, 20)
		add(c07Params{Backlog: 1, Segs: "one", Mode: "idle", Cause: cs, UserSend: 8, FloodCtl: true}, b1, 20)
	}
	// capacity-scaled abstraction: two levels deeper
	for _, bl := range []int{0, 1, 3, 4, 5, 6, 7} {
		for _, cs := range causes {
			bs := b2
			if thorough {
				bs = b3
			}
			add(c07Params{Backlog: bl, Segs: "one", Mode: "gated", Cause: cs, ChanCap: 2}, bs, 5+bl)
		}
	}
	for _, em := range []int{1, 3, 5, 7} {
		for _, cs := range causes {
			bs := b2
			if thorough {
				bs = b3
			}
			add(c07Params{Backlog: 1, Segs: "one", Mode: "sending", Emit: em, Stall: true, Cause: cs, ChanCap: 2}, bs, 5+em)
		}
	}
	// reconnect
	for _, from := range []string{"handler", "task"} {
		for _, cs := range []string{"close", "eof", "cancel", "writeerr"} {
			for _, tr := range []bool{false, true} {
				for _, w := range []string{"same", "changed"} {
					if !tr && w == "changed" {
						continue
					}
					bs := b2
					if tr {
						bs = b1 // tracked sessions are three times as long
					}
					if thorough {
						bs = b3
						if tr {
							bs = b2
						}
					}
					jobs = append(jobs, ExploreJob("C07", ExploreSpec{Sc: c07ReconnectScenario(c07RecParams{Cause: cs, From: from, Cycles: 2, Tracking: tr, Welcome: w, Backlog: 1}), Variants: []int{1, 2, 3}, Budgets: bs, Cache: true}, 30))
				}
			}
		}
		jobs = append(jobs, ExploreJob("C07", ExploreSpec{Sc: c07ReconnectScenario(c07RecParams{Cause: "quit", From: from, Cycles: 3, Tracking: true, Welcome: "same", Backlog: 1}), Variants: []int{1, 2, 3}, Budgets: b1, Cache: true}, 30))
		jobs = append(jobs, ExploreJob("C07", ExploreSpec{Sc: c07ReconnectScenario(c07RecParams{Cause: "eof", From: from, Cycles: 3, Welcome: "same", Backlog: 1, Direct: true}), Variants: []int{1, 2, 3}, Budgets: b1, Cache: true}, 30))
		jobs = append(jobs, ExploreJob("C07", ExploreSpec{Sc: c07ReconnectScenario(c07RecParams{Cause: "error-eof", From: from, Cycles: 3, Tracking: true, Welcome: "same", Backlog: 1}), Variants: []int{1, 2, 3}, Budgets: b1, Cache: true}, 30))
		bs3 := b1
		if thorough {
			bs3 = b2
		}
		jobs = append(jobs, ExploreJob("C07", ExploreSpec{Sc: c07ReconnectScenario(c07RecParams{Cause: "close", From: from, Cycles: 3, Welcome: "same", Backlog: 0}), Variants: []int{1, 2, 3}, Budgets: bs3, Cache: true}, 40))
		jobs = append(jobs, ExploreJob("C07", ExploreSpec{Sc: c07ReconnectScenario(c07RecParams{Cause: "eof", From: from, Cycles: 3, Tracking: true, Welcome: "changed", Backlog: 3, ChanCap: 2}), Variants: []int{1, 2, 3}, Budgets: bs3, Cache: true}, 40))
	}
	return jobs
}
