// Package vcontext replaces "context" in instrumented code. Contexts stay the
// real ones; cancellation is recorded as a write on the Done channel so that the
// happens-before hashing sees it, and deadlines use virtual time.
package vcontext

import (
	"context"
	"time"

	"verif/vx"
)

type (
	Context         = context.Context
	CancelFunc      = context.CancelFunc
	CancelCauseFunc = context.CancelCauseFunc
)

var (
	Canceled         = context.Canceled
	DeadlineExceeded = context.DeadlineExceeded
)

func Background() Context                            { return context.Background() }
func TODO() Context                                  { return context.TODO() }
func WithValue(parent Context, key, val any) Context { return context.WithValue(parent, key, val) }
func Cause(c Context) error                          { return context.Cause(c) }

func WithCancel(parent Context) (Context, CancelFunc) {
	ctx, cancel := context.WithCancel(parent)
	return ctx, func() {
		vx.NoteCancel(ctx.Done())
		cancel()
	}
}

func WithCancelCause(parent Context) (Context, CancelCauseFunc) {
	ctx, cancel := context.WithCancelCause(parent)
	return ctx, func(cause error) {
		vx.NoteCancel(ctx.Done())
		cancel(cause)
	}
}

type deadlineCtx struct {
	context.Context
	deadline time.Time
	timedOut *bool
}

func (d *deadlineCtx) Deadline() (time.Time, bool) { return d.deadline, true }
func (d *deadlineCtx) Err() error {
	if e := d.Context.Err(); e != nil && *d.timedOut {
		return context.DeadlineExceeded
	} else {
		return e
	}
}

func WithDeadline(parent Context, d time.Time) (Context, CancelFunc) {
	if !vx.Active() {
		return context.WithDeadline(parent, d)
	}
	return WithTimeout(parent, d.Sub(vx.Now()))
}

func WithTimeout(parent Context, timeout time.Duration) (Context, CancelFunc) {
	if !vx.Active() {
		return context.WithTimeout(parent, timeout)
	}
	ctx, cancel := context.WithCancel(parent)
	timedOut := new(bool)
	t := vx.AfterFunc(timeout, func() {
		*timedOut = true
		vx.NoteCancel(ctx.Done())
		cancel()
	})
	dc := &deadlineCtx{Context: ctx, deadline: vx.Now().Add(timeout), timedOut: timedOut}
	return dc, func() {
		t.Stop()
		vx.NoteCancel(ctx.Done())
		cancel()
	}
}

// Err replaces ctx.Err() in instrumented code: the answer depends on the order against a concurrent cancel,
// so asking is a scheduling point.
func Err(ctx Context, site string) error {
	var err error
	vx.ReadState(ctx.Done(), "ctx.Err", site, func() uint64 {
		if err = ctx.Err(); err != nil {
			return 1
		}
		return 0
	})
	return err
}
